// cl_spec — specification functions for CL03 (Camenisch–Lysyanskaya 2003), Boudot 2000 range proofs and
// the sigma protocols, written from the papers.

/// prod_{i < k} a_i^{m_i} mod-N factors, as the left fold the code computes (each factor already reduced)
pub open spec fn attr_prod(a: Seq<Integer>, m: Seq<CL03Message>, n: int, k: int) -> int
    decreases k,
{
    if k <= 0 { 1 } else { attr_prod(a, m, n, k - 1) * pow_mod(a[k - 1]@, m[k - 1].value@, n) }
}

/// the CL03 verification predicate for attribute vector m under bases a:
///   v^e = prod a_i^{m_i} * b^s * c (mod N),   2^{le-1} < e < 2^{le},   0 <= m_i < 2^{lm}
pub open spec fn cl_equation(pk: CL03PublicKey, sig: CL03Signature, a: Seq<Integer>, m: Seq<CL03Message>) -> bool {
    pow_mod(sig.v@, sig.e@, pk.N@) == (attr_prod(a, m, pk.N@, m.len() as int) * pow_mod(pk.b@, sig.s@, pk.N@) * pk.c@) % pk.N@
}

pub open spec fn cl_e_in_range(e: int, le: nat) -> bool {
    ipow(2, (le - 1) as nat) < e && e < ipow(2, le)
}

pub open spec fn cl_attrs_in_range(m: Seq<CL03Message>, lm: nat) -> bool {
    forall|i: int| 0 <= i < m.len() ==> 0 <= (#[trigger] m[i]).value@ && m[i].value@ < ipow(2, lm)
}

// ---- Boudot 2000: proof of same secret -----------------------------------------------------------------------
/// W_1 = g_1^d h_1^{d_1} E^{-c},  W_2 = g_2^d h_2^{d_2} F^{-c};  c' = H(W_1 || W_2) (decimal strings)
pub open spec fn ss_w_i(e: int, g: int, h: int, n: int, c: int, d: int, d_i: int) -> int {
    (pow_mod(g, d, n) * pow_mod(h, d_i, n) * pow_mod(e, -1 * c, n)) % n
}
pub open spec fn ss_w(e: Integer, g: Integer, h: Integer, n: Integer, c: int, d: int, d_i: int) -> int {
    ss_w_i(e@, g@, h@, n@, c, d, d_i)
}

pub open spec fn ss_challenge_i<H>(e: int, f: int, g_1: int, h_1: int, g_2: int, h_2: int, n: int, p: ProofSs) -> int {
    from_digits_be(hash_str::<H>(dec_string(ss_w_i(e, g_1, h_1, n, p.challenge@, p.d@, p.d_1@)) + dec_string(ss_w_i(f, g_2, h_2, n, p.challenge@, p.d@, p.d_2@))))
}
pub open spec fn ss_challenge<H>(e: Integer, f: Integer, g_1: Integer, h_1: Integer, g_2: Integer, h_2: Integer, n: Integer, p: ProofSs) -> int {
    ss_challenge_i::<H>(e@, f@, g_1@, h_1@, g_2@, h_2@, n@, p)
}
/// verifier's predicate of the proof of same secret (Algorithm 2)
pub open spec fn ss_accept_i<H>(e: int, f: int, g_1: int, h_1: int, g_2: int, h_2: int, n: int, p: ProofSs) -> bool {
    p.challenge@ == ss_challenge_i::<H>(e, f, g_1, h_1, g_2, h_2, n, p)
}
/// verifier's predicate of the proof of square (Algorithm 4): same secret x in F = g^x h^{r2} and E = F^x h^{r3}
pub open spec fn square_accept_i<H>(p: ProofOfS, g: int, h: int, n: int) -> bool {
    ss_accept_i::<H>(p.F@, p.E@, g, h, p.F@, h, n, p.proof_ss)
}

/// modular division a / b mod m (divm): the x with b*x = a (mod m)
pub uninterp spec fn divm_spec(a: int, b: int, m: int) -> int;

pub proof fn ax_divm(a: int, b: int, m: int)
    requires invertible(b, m),
    ensures (divm_spec(a, b, m) * b) % m == a % m, 0 <= divm_spec(a, b, m) < m,
{ admit(); }

/// the solution of b*x = a (mod m) in [0, m) is unique when b is a unit (part of the assumed contract of divm)
pub proof fn ax_divm_unique(a: int, b: int, m: int, y: int)
    requires invertible(b, m), (y * b) % m == a % m, 0 <= y < m,
    ensures y == divm_spec(a, b, m),
{ admit(); }

// ---- Boudot 2000: larger-interval proof, tolerance proof ------------------------------------------------------
pub open spec fn li_c(p: ProofLi, t: nat) -> int { p.C@ % ipow(2, t) }

/// verifier's acceptance condition of the proof of larger interval (Algorithm 6)
pub open spec fn li_accept_i<H>(p: ProofLi, e: int, g: int, h: int, n: int, t: nat, l: nat, b: int, tt: nat) -> bool {
    let c = li_c(p, t);
    let commit = (pow_mod(g, p.D_1@, n) * pow_mod(h, p.D_2@, n) * pow_mod(e, -1 * c, n)) % n;
    &&& c * b <= p.D_1@
    &&& p.D_1@ <= ipow(2, tt) * (ipow(2, t + l) * b - 1)
    &&& p.C@ == from_digits_be(hash_str::<H>(dec_string(commit)))
}
pub open spec fn li_accept<H>(p: ProofLi, e: Integer, g: Integer, h: Integer, n: Integer, t: nat, l: nat, b: int, tt: nat) -> bool {
    li_accept_i::<H>(p, e@, g@, h@, n@, t, l, b, tt)
}

/// the bound the PROVER's loop exits with (Algorithm 5): c*b <= D_1 <= 2^T * 2^(t+l) * b - 1
pub open spec fn li_prover_bound(d1: int, c: int, t: nat, l: nat, b: int, tt: nat) -> bool {
    c * b <= d1 && d1 <= (ipow(2, tt) * ipow(2, t + l)) * b - 1
}

pub open spec fn tol_aa(a: int, b: int, t: nat, l: nat, tt: nat) -> int {
    ipow(2, tt) * a - ipow(2, l + t + tt / 2 + 1) * isqrt(b - a)
}
pub open spec fn tol_bb(a: int, b: int, t: nat, l: nat, tt: nat) -> int {
    ipow(2, tt) * b + ipow(2, l + t + tt / 2 + 1) * isqrt(b - a)
}

/// verifier's predicate of the proof with tolerance (Algorithm 8) for the commitment e (= E' of the caller)
pub open spec fn tol_accept_i<H>(p: ProofWt, g: int, h: int, e: int, n: int, a: int, b: int, t: nat, l: nat, tt: nat) -> bool {
    let e_a = divm_spec(e, pow_mod(g, tol_aa(a, b, t, l, tt), n), n);
    let e_b = divm_spec(pow_mod(g, tol_bb(a, b, t, l, tt), n), e, n);
    &&& p.proof_of_square_a.E@ == p.E_a_1@ && p.proof_of_square_b.E@ == p.E_b_1@
    &&& p.E_a_2@ == divm_spec(e_a, p.E_a_1@, n) && p.E_b_2@ == divm_spec(e_b, p.E_b_1@, n)
    &&& square_accept_i::<H>(p.proof_of_square_a, g, h, n) && square_accept_i::<H>(p.proof_of_square_b, g, h, n)
    &&& li_accept_i::<H>(p.proof_large_i_a, p.E_a_2@, g, h, n, t, l, b, tt) && li_accept_i::<H>(p.proof_large_i_b, p.E_b_2@, g, h, n, t, l, b, tt)
}

/// verifier's predicate of the square-decomposition range proof (Algorithm 10)
pub open spec fn sdr_accept_i<H>(p: Boudot2000RangeProof, g: int, h: int, n: int, a: int, b: int, t: nat, l: nat, tt: nat) -> bool {
    &&& p.E_prime@ == pow_mod(p.E@, ipow(2, tt), n)
    &&& tol_accept_i::<H>(p.proof_of_tolerance, g, h, p.E_prime@, n, a, b, t, l, tt)
}

/// T of prove / verify: 2 (t + l + 1) + |b - a| in bits
pub open spec fn range_tt(a: int, b: int) -> nat { (2 * (128 + 40 + 1) + bit_len(b - a)) as nat }

/// the complete acceptance predicate of Boudot2000RangeProof::verify (t = 128, l = 40)
pub open spec fn range_accept_i<H>(p: Boudot2000RangeProof, g: int, h: int, n: int, a: int, b: int) -> bool {
    sdr_accept_i::<H>(p, g, h, n, a, b, 128, 40, range_tt(a, b))
}

/// well-formedness of a range proof as an honest prover builds it: every embedded commitment is a unit modulo n
/// (the verifiers invert them: on a non-unit `pow_mod(.., negative, n).unwrap()` panics, which is a refusal)
pub open spec fn tol_wf(p: ProofWt, n: int) -> bool {
    &&& invertible(p.E_a_1@, n) && invertible(p.E_b_1@, n) && invertible(p.E_a_2@, n) && invertible(p.E_b_2@, n)
    &&& invertible(p.proof_of_square_a.E@, n) && invertible(p.proof_of_square_a.F@, n)
    &&& invertible(p.proof_of_square_b.E@, n) && invertible(p.proof_of_square_b.F@, n)
}

pub open spec fn range_wf(p: Boudot2000RangeProof, n: int) -> bool {
    invertible(p.E@, n) && invertible(p.E_prime@, n) && tol_wf(p.proof_of_tolerance, n)
}

pub proof fn lemma_ipow2_pos(k: nat)
    ensures ipow(2, k) >= 1,
    decreases k,
{
    if k > 0 { lemma_ipow2_pos((k - 1) as nat); }
}

// ---- commitments and the two-secret Schnorr-like protocol (NISPSecrets) --------------------------------------
/// value == g^x * h^r mod n
pub open spec fn commit_opens(value: int, g: int, x: int, h: int, r: int, n: int) -> bool {
    value == (pow_mod(g, x, n) * pow_mod(h, r, n)) % n
}

/// Fiat-Shamir challenge of nisp2sec: H(g1 || h1 || C || t) over decimal strings
pub open spec fn nisp2sec_challenge<CS: CLCiphersuite>(g1: int, h1: int, c: int, t: int) -> int {
    from_digits_be(hash_str::<CS::HashAlg>(dec_string(g1) + dec_string(h1) + dec_string(c) + dec_string(t)))
}

/// verifier's predicate: g1^s1 * h1^s2 == t * C^c (mod n)
pub open spec fn nisp2sec_accepts<CS: CLCiphersuite>(p: NISPSecrets, c: CL03Commitment, g1: int, h1: int, n: int) -> bool {
    let ch = nisp2sec_challenge::<CS>(g1, h1, c.value@, p.t@);
    (pow_mod(g1, p.s1@, n) * pow_mod(h1, p.s2@, n)) % n == (p.t@ * pow_mod(c.value@, ch, n)) % n
}

/// C19: a blinding term r masks `secret * challenge` for a 256-bit challenge when floor(r / c) >= 2^64 for every
/// c < 2^256, i.e. r >= 2^320 (then |floor((r + c*x)/c) - x| = floor(r/c) >= 2^64)
pub open spec fn mask_ok(r: int) -> bool {
    r >= ipow(2, 320)
}

/// C19 (sized to the secret): the blinding term exceeds challenge * secret (challenge < 2^(2t), secret < 2^secret_bits)
/// by 64 bits, so neither response / challenge nor a ratio of responses is within 2^64 of the secret
pub open spec fn dominates(r: int, secret_bits: nat, t: nat) -> bool {
    r >= ipow(2, secret_bits + 2 * t + 64)
}

pub open spec fn blinding_bits_spec(secret_bits: nat, t: nat, lin: nat) -> nat { secret_bits + 2 * t + lin }

/// a value of exactly `secret_bits + 2t + lin` bits masks and dominates (lin >= 65, at least 321 bits)
pub proof fn lemma_blinding(secret_bits: nat, t: nat, lin: nat)
    requires lin >= 65, secret_bits + 2 * t + lin >= 321,
    ensures
        ipow(2, 320) <= ipow(2, (secret_bits + 2 * t + lin - 1) as nat),
        ipow(2, secret_bits + 2 * t + 64) <= ipow(2, (secret_bits + 2 * t + lin - 1) as nat),
{
    lemma_ipow2_mono(320, (secret_bits + 2 * t + lin - 1) as nat);
    lemma_ipow2_mono(secret_bits + 2 * t + 64, (secret_bits + 2 * t + lin - 1) as nat);
}

pub proof fn lemma_ipow2_mono(a: nat, b: nat)
    requires a <= b,
    ensures ipow(2, a) <= ipow(2, b),
    decreases b,
{
    if a < b {
        lemma_ipow2_mono(a, (b - 1) as nat);
        lemma_ipow2_pos((b - 1) as nat);
    }
}

// ---- multi-base commitments -------------------------------------------------------------------------------------
/// unrevealed indexes default to all positions 0..n
pub open spec fn eff_indexes(idx: Option<&[usize]>, n: nat) -> Seq<usize> {
    match idx { Some(s) => s@, None => Seq::new(n, |k: int| k as usize) }
}

/// prod_{t < k} bases[idx[t]] ^ msgs[idx[t]]  (each factor reduced, product not reduced: as the code computes it)
pub open spec fn multi_prod(bases: Seq<Integer>, msgs: Seq<CL03Message>, idx: Seq<usize>, n: int, k: int) -> int
    decreases k,
{
    if k <= 0 { 1 } else { multi_prod(bases, msgs, idx, n, k - 1) * pow_mod(bases[idx[k - 1] as int]@, msgs[idx[k - 1] as int].value@, n) }
}

/// value == prod bases[i]^m_i * h^r mod n over the positions idx
pub open spec fn commit_multi_opens(value: int, bases: Seq<Integer>, msgs: Seq<CL03Message>, idx: Seq<usize>, h: int, r: int, n: int) -> bool {
    value == (multi_prod(bases, msgs, idx, n, idx.len() as int) * pow_mod(h, r, n)) % n
}

// ---- issuance proof (ZKPoK): what verification establishes ------------------------------------------------------
/// acceptance predicates of the multi-secret protocols (their equations are not unfolded here)
/// prod_{t < k} bases[idx[t]] ^ exps[t] (each factor reduced mod n, the product not): the response of the t-th hidden
/// attribute is raised to the base of ITS position idx[t]
pub open spec fn resp_prod(bases: Seq<Integer>, exps: Seq<Integer>, idx: Seq<usize>, n: int, k: int) -> int
    decreases k,
{
    if k <= 0 { 1 } else { resp_prod(bases, exps, idx, n, k - 1) * pow_mod(bases[idx[k - 1] as int]@, exps[k - 1]@, n) }
}

/// decimal strings of the bases at the hidden positions, concatenated in order
pub open spec fn bases_str(bases: Seq<Integer>, idx: Seq<usize>, k: int) -> Seq<char>
    decreases k,
{
    if k <= 0 { Seq::empty() } else { bases_str(bases, idx, k - 1) + dec_string(bases[idx[k - 1] as int]@) }
}

/// multi-secret PoK on C = prod a_i^{m_i} * b^r (hidden i): prod a_i^{s1_i} * b^{s2} == t * C^c  with
/// c = H(a_{i_1} || .. || b || C || t) over decimal strings
pub open spec fn ms_accepts<CS: CLCiphersuite>(p: NISPMultiSecrets, c: CL03Commitment, pk: CL03PublicKey, bases: Seq<Integer>, idx: Seq<usize>) -> bool {
    let n = pk.N@;
    let k = idx.len() as int;
    let ch = from_digits_be(hash_str::<CS::HashAlg>(bases_str(bases, idx, k) + dec_string(pk.b@) + dec_string(c.value@) + dec_string(p.t@)));
    &&& p.s1@.len() == idx.len()
    &&& (resp_prod(bases, p.s1@, idx, n, k) * pow_mod(pk.b@, p.s2@, n)) % n == (p.t@ * pow_mod(c.value@, ch, n)) % n
}

/// same-secrets proof for C1 (signer key: a_i, b, N) and C2 (trusted party key: g_i, h, N2):
///   W1 = prod a_i^{d_i} * b^{d_1} * C1^{-c} mod N,  W2 = prod g_i^{d_i} * h^{d_2} * C2^{-c} mod N2,  c == H(W1 || W2)
pub open spec fn n2c_accepts<CS: CLCiphersuite>(p: NISP2Commitments, c1: CL03Commitment, c2: CL03Commitment, pk: CL03PublicKey, bases: Seq<Integer>, cpk: CL03CommitmentPublicKey, idx: Seq<usize>) -> bool {
    let (n1, n2) = (pk.N@, cpk.N@);
    let k = idx.len() as int;
    let w1 = ((resp_prod(bases, p.d@, idx, n1, k) * pow_mod(pk.b@, p.d_1@, n1)) * pow_mod(c1.value@, -1 * p.challenge@, n1)) % n1;
    let w2 = ((resp_prod(cpk.g_bases@, p.d@, idx, n2, k) * pow_mod(cpk.h@, p.d_2@, n2)) * pow_mod(c2.value@, -1 * p.challenge@, n2)) % n2;
    p.challenge@ == from_digits_be(hash_str::<CS::HashAlg>(dec_string(w1) + dec_string(w2)))
}

/// statements of the two issuance sigma protocols as honest parties hold them (under these the verifiers cannot panic)
pub open spec fn ms_wf(p: NISPMultiSecrets, pk: CL03PublicKey, bases: Seq<Integer>, idx: Seq<usize>) -> bool {
    &&& pk.N@ > 1 && p.s1@.len() == idx.len() && invertible(pk.b@, pk.N@)
    &&& forall|t: int| 0 <= t < idx.len() ==> (#[trigger] idx[t]) < bases.len() && invertible(bases[idx[t] as int]@, pk.N@)
}

pub open spec fn n2c_wf(p: NISP2Commitments, c1: CL03Commitment, c2: CL03Commitment, pk: CL03PublicKey, bases: Seq<Integer>, cpk: CL03CommitmentPublicKey, idx: Seq<usize>) -> bool {
    &&& pk.N@ > 1 && cpk.N@ > 1 && p.d@.len() >= idx.len()
    &&& invertible(c1.value@, pk.N@) && invertible(c2.value@, cpk.N@) && invertible(pk.b@, pk.N@) && invertible(cpk.h@, cpk.N@)
    &&& forall|t: int| 0 <= t < idx.len() ==> (#[trigger] idx[t]) < bases.len() && idx[t] < cpk.g_bases@.len()
            && invertible(bases[idx[t] as int]@, pk.N@) && invertible(cpk.g_bases@[idx[t] as int]@, cpk.N@)
}

/// acceptance of a Boudot range proof against (bases, modulus, bounds): the unfolded predicate of Boudot2000RangeProof::verify
pub open spec fn range_accepts<H>(p: Boudot2000RangeProof, g: int, h: int, n: int, lo: int, hi: int) -> bool {
    range_accept_i::<H>(p, g, h, n, lo, hi)
}

/// the core of ZKPoK::verify_proof: multi-secret PoK on C, per-attribute PoK + range proof, PoK + range proof of r
pub open spec fn zk_core<CS: CLCiphersuite>(zk: CL03ZKPoK, c: CL03Commitment, pk: CL03PublicKey, bases: Seq<Integer>, idx: Seq<usize>) -> bool {
    &&& ms_accepts::<CS>(zk.proof_commited_msgs, c, pk, bases, idx)
    &&& zk.proofs_commited_mi@.len() >= idx.len() && zk.range_proofs_mi@.len() >= idx.len()
    &&& forall|k: int| 0 <= k < idx.len() ==> nisp2sec_accepts::<CS>((#[trigger] zk.proofs_commited_mi@[k]).value, zk.proofs_commited_mi@[k].commitment, bases[idx[k] as int]@, pk.b@, pk.N@)
    &&& forall|k: int| 0 <= k < idx.len() ==> range_accepts::<CS::HashAlg>(#[trigger] zk.range_proofs_mi@[k], bases[idx[k] as int]@, pk.b@, pk.N@, 0, ipow(2, CS::lm as nat) - 1)
    &&& nisp2sec_accepts::<CS>(zk.proof_r.value, zk.proof_r.commitment, bases[0]@, pk.b@, pk.N@)
    &&& range_accepts::<CS::HashAlg>(zk.range_proof_r, bases[0]@, pk.b@, pk.N@, 0, ipow(2, CS::ln as nat) - 1)
}

/// F11: the statements are tied together — each range proof speaks about the commitment of the matching PoK, and
/// the per-attribute commitments are the ones the multi-secret proof / C speak about
pub open spec fn zk_ties(zk: CL03ZKPoK, idx: Seq<usize>) -> bool {
    &&& forall|k: int| 0 <= k < idx.len() ==> (#[trigger] zk.range_proofs_mi@[k]).E@ == zk.proofs_commited_mi@[k].commitment.value@
    &&& zk.range_proof_r.E@ == zk.proof_r.commitment.value@
}

/// with a trusted-party commitment and its key, the same-secrets proof for (C, C_trusted) must be present and accepted
pub open spec fn zk_trusted_ok<CS: CLCiphersuite>(zk: CL03ZKPoK, c: CL03Commitment, ct: Option<&CL03Commitment>, pk: CL03PublicKey, bases: Seq<Integer>, cpk: Option<&CL03CommitmentPublicKey>, idx: Seq<usize>) -> bool {
    match (ct, cpk) {
        (Some(t), Some(k)) => zk.proof_C_Ctrusted is Some && n2c_accepts::<CS>(zk.proof_C_Ctrusted->Some_0, c, *t, pk, bases, *k, idx),
        _ => true,
    }
}

/// an issuance proof as an honest holder builds it (C14.generate.wf): every embedded commitment a unit, every hidden position
/// backed by a unit base.  Under zk_wf (and the acceptance predicates) verify_proof cannot panic.
pub open spec fn zk_wf(zk: CL03ZKPoK, c: CL03Commitment, ct: Option<&CL03Commitment>, pk: CL03PublicKey, bases: Seq<Integer>, cpk: Option<&CL03CommitmentPublicKey>, idx: Seq<usize>) -> bool {
    &&& pk.N@ > 1 && bases.len() >= 1 && invertible(bases[0]@, pk.N@) && invertible(pk.b@, pk.N@)
    &&& ms_wf(zk.proof_commited_msgs, pk, bases, idx)
    &&& forall|j: int| 0 <= j < idx.len() ==> range_wf(#[trigger] zk.range_proofs_mi@[j], pk.N@)
    &&& forall|j: int| 0 <= j < idx.len() ==> invertible((#[trigger] zk.proofs_commited_mi@[j]).commitment.value@, pk.N@)
    &&& range_wf(zk.range_proof_r, pk.N@) && invertible(zk.proof_r.commitment.value@, pk.N@)
    &&& match (ct, cpk) {
            (Some(t), Some(k)) => zk.proof_C_Ctrusted is Some && n2c_wf(zk.proof_C_Ctrusted->Some_0, c, *t, pk, bases, *k, idx),
            _ => true,
        }
}

/// F11b: the per-attribute commitments (and the commitment to r) are commitments to the SAME m_i (and r) that C opens to.
/// Nothing in the proof format lets a verifier establish this (the sub-proofs use independent blindings), so no code can
/// discharge it: it is the contract-level statement of the protocol gap.
pub uninterp spec fn zk_linked(zk: CL03ZKPoK, c: CL03Commitment, pk: CL03PublicKey, bases: Seq<Integer>, idx: Seq<usize>) -> bool;
pub uninterp spec fn spok_linked(p: CL03PoKSignature, cpk: CL03CommitmentPublicKey, idx: Seq<usize>) -> bool;

/// value of a commitment extended with the revealed attributes: ((C * a_{i_1}^{m_1}) % N * a_{i_2}^{m_2}) % N ...
/// (revealed_messages is parallel to the index list, as extend_commitment_with_pk walks it)
pub open spec fn ext_value(c: int, bases: Seq<Integer>, rev: Seq<CL03Message>, idx: Seq<usize>, n: int, k: int) -> int
    decreases k,
{
    if k <= 0 { c } else { (ext_value(c, bases, rev, idx, n, k - 1) * pow_mod(bases[idx[k - 1] as int]@, rev[k - 1].value@, n)) % n }
}

/// the revealed attributes an issuer folds into the commitment, as an honest caller passes them: one index per attribute,
/// every index names a base, a negative attribute needs a unit base (anything else is refused by a panic)
pub open spec fn revealed_ok(bases: Seq<Integer>, rev: Option<&[CL03Message]>, idx: Option<&[usize]>, n: int) -> bool {
    match (rev, idx) {
        (Some(m), Some(i)) => m@.len() == i@.len()
            && (forall|t: int| 0 <= t < m@.len() ==> (#[trigger] i@[t]) < bases.len())
            && (forall|t: int| 0 <= t < m@.len() ==> (#[trigger] m@[t]).value@ >= 0 || invertible(bases[i@[t] as int]@, n)),
        _ => true,
    }
}

/// the commitment value the issuer signs: C itself, or C extended with the revealed attributes when both lists are given
pub open spec fn issued_base(c: int, bases: Seq<Integer>, rev: Option<&[CL03Message]>, idx: Option<&[usize]>, n: int) -> int {
    match (rev, idx) {
        (Some(r), Some(i)) => ext_value(c, bases, r@, i@, n, i@.len() as int),
        _ => c,
    }
}

/// v = (base * b^rprime * c)^(1/e) mod N
pub open spec fn issued_v(base: int, pk: CL03PublicKey, rprime: int, e: int, phi: int) -> int {
    pow_mod(base * pow_mod(pk.b@, rprime, pk.N@) * pk.c@, inv_mod(e, phi), pk.N@)
}

/// C18: g lies in the subgroup generated by h modulo n
pub open spec fn in_subgroup(g: int, h: int, n: int) -> bool {
    exists|f: int| 0 <= f < n && g == #[trigger] pow_mod(h, f, n)
}

/// C18: a special RSA modulus: product of two distinct safe primes, each larger than 2^secparam
pub open spec fn safe_rsa_modulus(n: int, secparam: nat) -> bool {
    exists|p: int, q: int| n == #[trigger] (p * q) && p != q && is_prime(p) && is_prime(q) && is_prime((p - 1) / 2) && is_prime((q - 1) / 2)
        && p > ipow(2, secparam) && q > ipow(2, secparam)
}

pub open spec fn eff_idx0(idx: Option<&[usize]>) -> Seq<usize> {
    match idx { Some(s) => s@, None => seq![0usize] }
}

/// the index list nispMultiSecrets actually walks: [0] when there is a single attribute, else the given list (default [0])
pub open spec fn ms_eff_idx(n_msgs: int, idx: Option<&[usize]>) -> Seq<usize> {
    if n_msgs == 1 { seq![0usize] } else { eff_idx0(idx) }
}

// ---- proof of knowledge of a signature (CL03PoKSignature) ----------------------------------------------------------
/// attribute walk of the signature proof: position i < k contributes bases[i]^{s_5[rank]} when i is hidden (rank = number of
/// hidden positions below i) and bases[i]^{m + m*c} when revealed (m = the next revealed attribute).  Returns
/// (product of the reduced factors, hidden positions seen, revealed positions seen).
pub open spec fn n5_walk(bases: Seq<Integer>, s5: Seq<Integer>, msgs: Seq<CL03Message>, idx: Seq<usize>, c: int, n: int, k: int) -> (int, int, int)
    decreases k,
{
    if k <= 0 { (1, 0, 0) } else {
        let w = n5_walk(bases, s5, msgs, idx, c, n, k - 1);
        if idx.contains((k - 1) as usize) {
            (w.0 * pow_mod(bases[k - 1]@, s5[w.1]@, n), w.1 + 1, w.2)
        } else {
            let mi = msgs[w.2].value@;
            (w.0 * pow_mod(bases[k - 1]@, mi + mi * c, n), w.1, w.2 + 1)
        }
    }
}

/// verifier's predicate of the proof of knowledge of a signature (five recomputed commitments, all modulo the signer's N):
///   t1 = Cv^{s4} / (prod a_i^{x_i}) / b^{s6} / g0^{s8} * c^{-ch},  t2 = g0^{s7} h^{s1} Cw^{-ch},  t3 = Cw^{s4} / g0^{s8} / h^{s2},
///   t4 = prod g_i^{x_i} * h^{s3} * Cx^{-ch},  t5 = g0^{s4} h^{s9} Ce^{-ch};   ch == H(t1 || t2 || t3 || t4 || t5)
pub open spec fn nisp5_accepts<CS: CLCiphersuite>(p: NISPSignaturePoK, cpk: CL03CommitmentPublicKey, pk: CL03PublicKey, bases: Seq<Integer>, msgs: Seq<CL03Message>, idx: Seq<usize>, k: int) -> bool {
    let n = pk.N@;
    let ch = p.challenge@;
    let g0 = cpk.g_bases@[0]@;
    let t_cx = n5_walk(bases, p.s_5@, msgs, idx, ch, n, k).0 % n;
    let t1 = (pow_mod(p.Cv.value@, p.s_4@, n) * divm_spec(1, t_cx, n) * pow_mod(divm_spec(1, pk.b@, n), p.s_6@, n)
        * pow_mod(divm_spec(1, g0, n), p.s_8@, n) * pow_mod(pk.c@, -1 * ch, n)) % n;
    let t2 = (pow_mod(g0, p.s_7@, n) * pow_mod(cpk.h@, p.s_1@, n) * pow_mod(p.Cw.value@, -1 * ch, n)) % n;
    let t3 = (pow_mod(p.Cw.value@, p.s_4@, n) * pow_mod(divm_spec(1, g0, n), p.s_8@, n) * pow_mod(divm_spec(1, cpk.h@, n), p.s_2@, n)) % n;
    let t4 = (n5_walk(cpk.g_bases@, p.s_5@, msgs, idx, ch, n, k).0 * pow_mod(cpk.h@, p.s_3@, n) * pow_mod(p.Cx.value@, -1 * ch, n)) % n;
    let t5 = (pow_mod(g0, p.s_4@, n) * pow_mod(cpk.h@, p.s_9@, n) * pow_mod(p.Ce.value@, -1 * ch, n)) % n;
    ch == from_digits_be(hash_str::<CS::HashAlg>(dec_string(t1) + dec_string(t2) + dec_string(t3) + dec_string(t4) + dec_string(t5)))
}

/// the statement of a signature proof as an honest verifier holds it and an honest prover answers it: enough unit bases,
/// an ascending hidden set below k, one response per hidden position, one revealed attribute per other position, unit
/// commitments.  Under n5_wf the verifier cannot panic (no index out of range, no inverse of a non-unit).
pub open spec fn n5_wf(p: NISPSignaturePoK, cpk: CL03CommitmentPublicKey, pk: CL03PublicKey, bases: Seq<Integer>, msgs: Seq<CL03Message>, idx: Seq<usize>, k: int) -> bool {
    let n = pk.N@;
    &&& n > 1 && 1 <= k <= usize::MAX && k <= bases.len() && k <= cpk.g_bases@.len()
    &&& strictly_sorted(idx) && (forall|t: int| 0 <= t < idx.len() ==> (#[trigger] idx[t]) < k)
    &&& p.s_5@.len() == idx.len() && msgs.len() == k - idx.len()
    &&& (forall|i: int| 0 <= i < k ==> invertible(#[trigger] bases[i]@, n))
    &&& (forall|i: int| 0 <= i < k ==> invertible(#[trigger] cpk.g_bases@[i]@, n))
    &&& invertible(cpk.h@, n) && invertible(pk.b@, n) && invertible(pk.c@, n)
    &&& invertible(p.Cv.value@, n) && invertible(p.Cw.value@, n) && invertible(p.Cx.value@, n) && invertible(p.Ce.value@, n)
}

pub open spec fn spok_core<CS: CLCiphersuite>(p: CL03PoKSignature, cpk: CL03CommitmentPublicKey, pk: CL03PublicKey, bases: Seq<Integer>, msgs: Seq<CL03Message>, idx: Seq<usize>, n: int) -> bool {
    &&& nisp5_accepts::<CS>(p.spok, cpk, pk, bases, msgs, idx, n)
    &&& p.spok.Ce.value@ == p.range_proof_e.E@
    &&& range_accepts::<CS::HashAlg>(p.range_proof_e, cpk.g_bases@[0]@, cpk.h@, cpk.N@, ipow(2, (CS::le - 1) as nat) + 1, ipow(2, CS::le as nat) - 1)
    &&& p.proofs_commited_mi@.len() >= idx.len() && p.range_proofs_commited_mi@.len() >= idx.len()
    &&& forall|k: int| 0 <= k < idx.len() ==> nisp2sec_accepts::<CS>((#[trigger] p.proofs_commited_mi@[k]).value, p.proofs_commited_mi@[k].commitment, cpk.g_bases@[idx[k] as int]@, cpk.h@, cpk.N@)
    &&& forall|k: int| 0 <= k < idx.len() ==> range_accepts::<CS::HashAlg>(#[trigger] p.range_proofs_commited_mi@[k], cpk.g_bases@[idx[k] as int]@, cpk.h@, cpk.N@, 0, ipow(2, CS::lm as nat) - 1)
}

/// a proof of knowledge of a signature as an honest prover builds it (C15.proof_gen.wf): commitment key over the issuer modulus,
/// well-formed signature proof, every embedded commitment a unit.  Under spok_wf (and the acceptance predicates) proof_verify cannot panic.
pub open spec fn spok_wf(p: CL03PoKSignature, cpk: CL03CommitmentPublicKey, pk: CL03PublicKey, bases: Seq<Integer>, msgs: Seq<CL03Message>, idx: Seq<usize>, k: int) -> bool {
    &&& cpk.N@ == pk.N@ && n5_wf(p.spok, cpk, pk, bases, msgs, idx, k)
    &&& range_wf(p.range_proof_e, cpk.N@)
    &&& forall|j: int| 0 <= j < idx.len() ==> range_wf(#[trigger] p.range_proofs_commited_mi@[j], cpk.N@)
    &&& forall|j: int| 0 <= j < idx.len() ==> invertible((#[trigger] p.proofs_commited_mi@[j]).commitment.value@, cpk.N@)
}

pub open spec fn spok_ties_mi(p: CL03PoKSignature, idx: Seq<usize>) -> bool {
    forall|k: int| 0 <= k < idx.len() ==> (#[trigger] p.range_proofs_commited_mi@[k]).E@ == p.proofs_commited_mi@[k].commitment.value@
}
