// cl_spec — specification functions for CL03 (Camenisch–Lysyanskaya 2003), Boudot 2000 range proofs and
// the sigma protocols, written from the papers.

/// prod_{i < k} a_i^{m_i} mod-N factors, as the left fold the code computes (each factor already reduced)
pub open spec fn attr_prod(a: Seq<Integer>, m: Seq<CL03Message>, n: int, k: int) -> int
    decreases k,
{
    if k <= 0 { 1 } else { attr_prod(a, m, n, k - 1) * pow_mod(a[k - 1]@, m[k - 1].value@, n) }
}

/// the CL03 verification predicate for attribute vector m under bases a:
///   v^e = prod a_i^{m_i} * b^s * c (mod N),   2^{le-1} < e < 2^{le},   0 <= m_i < 2^{lm}
pub open spec fn cl_equation(pk: CL03PublicKey, sig: CL03Signature, a: Seq<Integer>, m: Seq<CL03Message>) -> bool {
    pow_mod(sig.v@, sig.e@, pk.N@) == (attr_prod(a, m, pk.N@, m.len() as int) * pow_mod(pk.b@, sig.s@, pk.N@) * pk.c@) % pk.N@
}

pub open spec fn cl_e_in_range(e: int, le: nat) -> bool {
    ipow(2, (le - 1) as nat) < e && e < ipow(2, le)
}

pub open spec fn cl_attrs_in_range(m: Seq<CL03Message>, lm: nat) -> bool {
    forall|i: int| 0 <= i < m.len() ==> 0 <= (#[trigger] m[i]).value@ && m[i].value@ < ipow(2, lm)
}

// ---- Boudot 2000: proof of same secret -----------------------------------------------------------------------
/// W_1 = g_1^d h_1^{d_1} E^{-c},  W_2 = g_2^d h_2^{d_2} F^{-c};  c' = H(W_1 || W_2) (decimal strings)
pub open spec fn ss_w(e: Integer, g: Integer, h: Integer, n: Integer, c: int, d: int, d_i: int) -> int {
    (pow_mod(g@, d, n@) * pow_mod(h@, d_i, n@) * pow_mod(e@, -1 * c, n@)) % n@
}

pub open spec fn ss_challenge<H>(e: Integer, f: Integer, g_1: Integer, h_1: Integer, g_2: Integer, h_2: Integer, n: Integer, p: ProofSs) -> int {
    from_digits_be(hash_str::<H>(dec_string(ss_w(e, g_1, h_1, n, p.challenge@, p.d@, p.d_1@)) + dec_string(ss_w(f, g_2, h_2, n, p.challenge@, p.d@, p.d_2@))))
}

/// modular division a / b mod m (divm): the x with b*x = a (mod m)
pub uninterp spec fn divm_spec(a: int, b: int, m: int) -> int;

pub proof fn ax_divm(a: int, b: int, m: int)
    requires invertible(b, m),
    ensures (divm_spec(a, b, m) * b) % m == a % m, 0 <= divm_spec(a, b, m) < m,
{ admit(); }

// ---- Boudot 2000: larger-interval proof, tolerance proof ------------------------------------------------------
pub open spec fn li_c(p: ProofLi, t: nat) -> int { p.C@ % ipow(2, t) }

/// verifier's acceptance condition of the proof of larger interval (Algorithm 6)
pub open spec fn li_accept<H>(p: ProofLi, e: Integer, g: Integer, h: Integer, n: Integer, t: nat, l: nat, b: int, tt: nat) -> bool {
    let c = li_c(p, t);
    let commit = (pow_mod(g@, p.D_1@, n@) * pow_mod(h@, p.D_2@, n@) * pow_mod(e@, -1 * c, n@)) % n@;
    &&& c * b <= p.D_1@
    &&& p.D_1@ <= ipow(2, tt) * (ipow(2, t + l) * b - 1)
    &&& p.C@ == from_digits_be(hash_str::<H>(dec_string(commit)))
}

/// the bound the PROVER's loop exits with (Algorithm 5): c*b <= D_1 <= 2^T * 2^(t+l) * b - 1
pub open spec fn li_prover_bound(d1: int, c: int, t: nat, l: nat, b: int, tt: nat) -> bool {
    c * b <= d1 && d1 <= (ipow(2, tt) * ipow(2, t + l)) * b - 1
}

pub open spec fn tol_aa(a: int, b: int, t: nat, l: nat, tt: nat) -> int {
    ipow(2, tt) * a - ipow(2, l + t + tt / 2 + 1) * isqrt(b - a)
}
pub open spec fn tol_bb(a: int, b: int, t: nat, l: nat, tt: nat) -> int {
    ipow(2, tt) * b + ipow(2, l + t + tt / 2 + 1) * isqrt(b - a)
}

pub proof fn lemma_ipow2_pos(k: nat)
    ensures ipow(2, k) >= 1,
    decreases k,
{
    if k > 0 { lemma_ipow2_pos((k - 1) as nat); }
}
