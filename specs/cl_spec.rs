// cl_spec — specification functions for CL03 (Camenisch–Lysyanskaya 2003), Boudot 2000 range proofs and
// the sigma protocols, written from the papers.

/// prod_{i < k} a_i^{m_i} mod-N factors, as the left fold the code computes (each factor already reduced)
pub open spec fn attr_prod(a: Seq<Integer>, m: Seq<CL03Message>, n: int, k: int) -> int
    decreases k,
{
    if k <= 0 { 1 } else { attr_prod(a, m, n, k - 1) * pow_mod(a[k - 1]@, m[k - 1].value@, n) }
}

/// the CL03 verification predicate for attribute vector m under bases a:
///   v^e = prod a_i^{m_i} * b^s * c (mod N),   2^{le-1} < e < 2^{le},   0 <= m_i < 2^{lm}
pub open spec fn cl_equation(pk: CL03PublicKey, sig: CL03Signature, a: Seq<Integer>, m: Seq<CL03Message>) -> bool {
    pow_mod(sig.v@, sig.e@, pk.N@) == (attr_prod(a, m, pk.N@, m.len() as int) * pow_mod(pk.b@, sig.s@, pk.N@) * pk.c@) % pk.N@
}

pub open spec fn cl_e_in_range(e: int, le: nat) -> bool {
    ipow(2, (le - 1) as nat) < e && e < ipow(2, le)
}

pub open spec fn cl_attrs_in_range(m: Seq<CL03Message>, lm: nat) -> bool {
    forall|i: int| 0 <= i < m.len() ==> 0 <= (#[trigger] m[i]).value@ && m[i].value@ < ipow(2, lm)
}
