// cl_n5 — completeness of the proof of knowledge of a signature (nisp5): the verifier's attribute walk over (responses, revealed
// messages) equals the product over ALL positions with exponents x_i = r5_i + c m_i, for every ascending hidden set.

pub open spec fn int_views(v: Seq<Integer>) -> Seq<int> { Seq::new(v.len(), |i: int| v[i]@) }
pub open spec fn msg_views(m: Seq<CL03Message>) -> Seq<int> { Seq::new(m.len(), |i: int| m[i].value@) }

/// the revealed attributes in position order (what the verifier is given), over the first k positions
pub open spec fn rev_list(msgs: Seq<CL03Message>, hid: Seq<usize>, k: int) -> Seq<CL03Message>
    decreases k,
{
    if k <= 0 { Seq::empty() } else if hid.contains((k - 1) as usize) { rev_list(msgs, hid, k - 1) } else { rev_list(msgs, hid, k - 1).push(msgs[k - 1]) }
}

pub proof fn lemma_rev_list(msgs: Seq<CL03Message>, hid: Seq<usize>, k: int, n: int)
    requires 0 <= k <= n,
    ensures
        rev_list(msgs, hid, k).len() == k - rank_n5(hid, k),
        rev_list(msgs, hid, n).len() >= rev_list(msgs, hid, k).len(),
        forall|j: int| 0 <= j < rev_list(msgs, hid, k).len() ==> rev_list(msgs, hid, n)[j] == rev_list(msgs, hid, k)[j],
    decreases n - k,
{
    lemma_rev_len(msgs, hid, k);
    if k < n {
        lemma_rev_list(msgs, hid, k + 1, n);
        lemma_rev_len(msgs, hid, k + 1);
    }
}

pub proof fn lemma_rev_len(msgs: Seq<CL03Message>, hid: Seq<usize>, k: int)
    requires 0 <= k,
    ensures rev_list(msgs, hid, k).len() == k - rank_n5(hid, k), 0 <= rank_n5(hid, k) <= k,
    decreases k,
{
    if k > 0 { lemma_rev_len(msgs, hid, k - 1); }
}

/// number of hidden positions below k
pub open spec fn rank_n5(idx: Seq<usize>, k: int) -> int
    decreases k,
{
    if k <= 0 { 0 } else if idx.contains((k - 1) as usize) { rank_n5(idx, k - 1) + 1 } else { rank_n5(idx, k - 1) }
}

/// for an ascending list, the entry of rank r is the r-th smallest member: idx[rank(k)] == k when k is a member
pub proof fn lemma_rank_n5(idx: Seq<usize>, k: int)
    requires strictly_sorted(idx), 0 <= k <= usize::MAX + 1,
    ensures
        0 <= rank_n5(idx, k) <= idx.len(),
        forall|i: int| 0 <= i < rank_n5(idx, k) ==> idx[i] < k,
        forall|i: int| rank_n5(idx, k) <= i < idx.len() ==> idx[i] >= k,
    decreases k,
{
    if k > 0 {
        lemma_rank_n5(idx, k - 1);
        let r = rank_n5(idx, k - 1);
        if idx.contains((k - 1) as usize) {
            let j = choose|j: int| 0 <= j < idx.len() && idx[j] == (k - 1) as usize;
            if j < r { assert(idx[j] < k - 1); }
            assert(j >= r);
            if j > r { assert(idx[r] < idx[j]); assert(idx[r] >= k - 1); }
            assert(j == r);
            assert forall|i: int| r + 1 <= i < idx.len() implies idx[i] >= k by {
                assert(idx[r] < idx[i]);
            }
        } else {
            assert forall|i: int| r <= i < idx.len() implies idx[i] >= k by {
                if idx[i] == k - 1 { assert(idx.contains((k - 1) as usize)); }
            }
        }
    }
}

/// The verifier's walk equals the all-position product.  xs_i = r5_i + c * m_i; for a hidden position the response list holds
/// xs at its rank; for a revealed position r5_i == m_i, so the verifier's m + m*c is xs_i as well.
pub proof fn lemma_n5_walk(bases: Seq<Integer>, s5: Seq<Integer>, msgs: Seq<CL03Message>, hid: Seq<usize>, r5: Seq<Integer>, xs: Seq<int>, c: int, n: int, cnt: int, k: int)
    requires
        strictly_sorted(hid), 0 <= k <= cnt, cnt <= usize::MAX, cnt <= msgs.len(), cnt <= r5.len(), cnt <= xs.len(), cnt <= bases.len(),
        s5.len() == hid.len(),
        forall|t: int| 0 <= t < hid.len() ==> hid[t] < cnt,
        forall|t: int| 0 <= t < hid.len() ==> (#[trigger] s5[t])@ == xs[hid[t] as int],
        forall|i: int| 0 <= i < cnt ==> #[trigger] xs[i] == r5[i]@ + c * msgs[i].value@,
        forall|i: int| 0 <= i < cnt ==> (!hid.contains(i as usize) ==> (#[trigger] r5[i])@ == msgs[i].value@),
    ensures
        n5_walk(bases, s5, rev_list(msgs, hid, cnt), hid, c, n, k) == (pw_prod(int_views(bases), xs, n, k), rank_n5(hid, k), k - rank_n5(hid, k)),
    decreases k,
{
    if k > 0 {
        lemma_n5_walk(bases, s5, msgs, hid, r5, xs, c, n, cnt, k - 1);
        lemma_rank_n5(hid, k - 1);
        lemma_rev_list(msgs, hid, k - 1, cnt);
        lemma_rev_list(msgs, hid, k, cnt);
        let r = rank_n5(hid, k - 1);
        let w = n5_walk(bases, s5, rev_list(msgs, hid, cnt), hid, c, n, k - 1);
        assert(int_views(bases)[k - 1] == bases[k - 1]@);
        if hid.contains((k - 1) as usize) {
            assert(hid[r] == (k - 1) as usize) by {
                let j = choose|j: int| 0 <= j < hid.len() && hid[j] == (k - 1) as usize;
                if j < r { assert(hid[j] < k - 1); }
                if j > r { assert(hid[r] < hid[j]); }
            }
            assert(s5[r]@ == xs[k - 1]);
        } else {
            // the next revealed message is msgs[k-1]
            let rl = rev_list(msgs, hid, k);
            assert(rl == rev_list(msgs, hid, k - 1).push(msgs[k - 1]));
            assert(rl[(k - 1) - r] == msgs[k - 1]);
            assert(rev_list(msgs, hid, cnt)[(k - 1) - r] == msgs[k - 1]);
            let mi = msgs[k - 1].value@;
            assert(xs[k - 1] == mi + c * mi);
            assert(mi * c == c * mi) by (nonlinear_arith);
        }
    }
}

/// products over all positions, as the commitments / the signature equation compute them, are pw_prod over the views
pub proof fn lemma_attr_prod_is_pw(bases: Seq<Integer>, msgs: Seq<CL03Message>, n: int, k: int)
    requires 0 <= k <= bases.len(), k <= msgs.len(),
    ensures attr_prod(bases, msgs, n, k) == pw_prod(int_views(bases), msg_views(msgs), n, k),
    decreases k,
{
    if k > 0 { lemma_attr_prod_is_pw(bases, msgs, n, k - 1); }
}

pub proof fn lemma_multi_prod_all_is_pw(bases: Seq<Integer>, msgs: Seq<CL03Message>, idx: Seq<usize>, n: int, k: int)
    requires 0 <= k <= idx.len(), k <= bases.len(), k <= msgs.len(), forall|t: int| 0 <= t < idx.len() ==> idx[t] == t,
    ensures multi_prod(bases, msgs, idx, n, k) == pw_prod(int_views(bases), msg_views(msgs), n, k),
    decreases k,
{
    if k > 0 { lemma_multi_prod_all_is_pw(bases, msgs, idx, n, k - 1); }
}

/// pw_prod only looks at the first k entries
pub proof fn lemma_pw_prefix(b1: Seq<int>, x1: Seq<int>, b2: Seq<int>, x2: Seq<int>, n: int, k: int)
    requires 0 <= k <= b1.len(), k <= b2.len(), k <= x1.len(), k <= x2.len(), forall|j: int| 0 <= j < k ==> b1[j] == b2[j] && x1[j] == x2[j],
    ensures pw_prod(b1, x1, n, k) == pw_prod(b2, x2, n, k),
    decreases k,
{
    if k > 0 { lemma_pw_prefix(b1, x1, b2, x2, n, k - 1); }
}

/// Completeness of the proof of knowledge of a signature: an honestly built NISPSignaturePoK satisfies the verifier's predicate
/// for the revealed attributes in position order - every attribute count, every ascending hidden set, every draw of the blindings.
pub proof fn lemma_n5_complete<CS: CLCiphersuite>(p: NISPSignaturePoK, cpk: CL03CommitmentPublicKey, pk: CL03PublicKey, sig: CL03Signature,
    bases: Seq<Integer>, msgs: Seq<CL03Message>, hid: Seq<usize>, r5: Seq<Integer>,
    w: int, rw: int, rx: int, re: int, r_1: int, r_2: int, r_3: int, r_4: int, r_6: int, r_7: int, r_8: int, r_9: int,
    t1: int, t2: int, t3: int, t4: int, t5: int)
    requires
        // statement and key material
        pk.N@ > 1, cpk.N@ == pk.N@, 1 <= msgs.len() <= usize::MAX, msgs.len() <= bases.len(), msgs.len() <= cpk.g_bases@.len(), r5.len() == msgs.len(),
        strictly_sorted(hid), forall|t: int| 0 <= t < hid.len() ==> hid[t] < msgs.len(),
        forall|i: int| 0 <= i < msgs.len() ==> invertible(#[trigger] bases[i]@, pk.N@),
        forall|i: int| 0 <= i < msgs.len() ==> invertible(#[trigger] cpk.g_bases@[i]@, pk.N@),
        invertible(cpk.h@, pk.N@), invertible(pk.b@, pk.N@), invertible(pk.c@, pk.N@), invertible(sig.v@, pk.N@),
        cl_equation(pk, sig, bases, msgs),
        // commitments (what commit_with_commitment_pk / commit_v return)
        p.Cx.value@ == (multi_prod(cpk.g_bases@, msgs, Seq::new(msgs.len(), |k: int| k as usize), pk.N@, msgs.len() as int) * pow_mod(cpk.h@, rx, pk.N@)) % pk.N@,
        p.Cv.value@ == (sig.v@ * pow_mod(cpk.g_bases@[0]@, w, pk.N@)) % pk.N@,
        p.Cw.value@ == (pow_mod(cpk.g_bases@[0]@, w, pk.N@) * pow_mod(cpk.h@, rw, pk.N@)) % pk.N@,
        p.Ce.value@ == (pow_mod(cpk.g_bases@[0]@, sig.e@, pk.N@) * pow_mod(cpk.h@, re, pk.N@)) % pk.N@,
        // blindings of revealed positions are the attributes themselves
        forall|i: int| 0 <= i < msgs.len() ==> (!hid.contains(i as usize) ==> (#[trigger] r5[i])@ == msgs[i].value@),
        // first messages of the prover
        t1 == (pow_mod(p.Cv.value@, r_4, pk.N@) * divm_spec(1, pw_prod(int_views(bases), int_views(r5), pk.N@, msgs.len() as int) % pk.N@, pk.N@)
                * pow_mod(divm_spec(1, pk.b@, pk.N@), r_6, pk.N@) * pow_mod(divm_spec(1, cpk.g_bases@[0]@, pk.N@), r_8, pk.N@)) % pk.N@,
        t2 == (pow_mod(cpk.g_bases@[0]@, r_7, pk.N@) * pow_mod(cpk.h@, r_1, pk.N@)) % pk.N@,
        t3 == (pow_mod(p.Cw.value@, r_4, pk.N@) * pow_mod(divm_spec(1, cpk.g_bases@[0]@, pk.N@), r_8, pk.N@) * pow_mod(divm_spec(1, cpk.h@, pk.N@), r_2, pk.N@)) % pk.N@,
        t4 == (pw_prod(int_views(cpk.g_bases@), int_views(r5), pk.N@, msgs.len() as int) * pow_mod(cpk.h@, r_3, pk.N@)) % pk.N@,
        t5 == (pow_mod(cpk.g_bases@[0]@, r_4, pk.N@) * pow_mod(cpk.h@, r_9, pk.N@)) % pk.N@,
        p.challenge@ == from_digits_be(hash_str::<CS::HashAlg>(dec_string(t1) + dec_string(t2) + dec_string(t3) + dec_string(t4) + dec_string(t5))),
        p.challenge@ >= 0,
        // responses
        p.s_1@ == r_1 + rw * p.challenge@, p.s_2@ == r_2 + (rw * sig.e@) * p.challenge@, p.s_3@ == r_3 + rx * p.challenge@,
        p.s_4@ == r_4 + sig.e@ * p.challenge@, p.s_6@ == r_6 + sig.s@ * p.challenge@, p.s_7@ == r_7 + w * p.challenge@,
        p.s_8@ == r_8 + (w * sig.e@) * p.challenge@, p.s_9@ == r_9 + re * p.challenge@,
        p.s_5@.len() == hid.len(),
        forall|t: int| 0 <= t < hid.len() ==> (#[trigger] p.s_5@[t])@ == r5[hid[t] as int]@ + msgs[hid[t] as int].value@ * p.challenge@,
    ensures
        nisp5_accepts::<CS>(p, cpk, pk, bases, rev_list(msgs, hid, msgs.len() as int), hid, msgs.len() as int),
{
    let n = pk.N@;
    let cnt = msgs.len() as int;
    let c = p.challenge@;
    let (g0, h, b) = (cpk.g_bases@[0]@, cpk.h@, pk.b@);
    let (e, sv, v) = (sig.e@, sig.s@, sig.v@);
    let rev = rev_list(msgs, hid, cnt);
    let xs = Seq::new(msgs.len(), |i: int| r5[i]@ + c * msgs[i].value@);
    let (mseq, rseq) = (msg_views(msgs), int_views(r5));
    let aseq = int_views(bases).subrange(0, cnt);
    let gseq = int_views(cpk.g_bases@).subrange(0, cnt);
    // commutations of the response formulas
    assert(rw * c == c * rw) by (nonlinear_arith);
    assert((rw * e) * c == c * (rw * e)) by (nonlinear_arith);
    assert(rx * c == c * rx) by (nonlinear_arith);
    assert(e * c == c * e) by (nonlinear_arith);
    assert(sv * c == c * sv) by (nonlinear_arith);
    assert(w * c == c * w) by (nonlinear_arith);
    assert((w * e) * c == c * (w * e)) by (nonlinear_arith);
    assert(re * c == c * re) by (nonlinear_arith);
    assert forall|t: int| 0 <= t < hid.len() implies (#[trigger] p.s_5@[t])@ == xs[hid[t] as int] by {
        let m = msgs[hid[t] as int].value@;
        assert(m * c == c * m) by (nonlinear_arith);
    }
    // the verifier's walks are the all-position products
    lemma_n5_walk(bases, p.s_5@, msgs, hid, r5, xs, c, n, cnt, cnt);
    lemma_n5_walk(cpk.g_bases@, p.s_5@, msgs, hid, r5, xs, c, n, cnt, cnt);
    lemma_pw_prefix(int_views(bases), xs, aseq, xs, n, cnt);
    lemma_pw_prefix(int_views(bases), rseq, aseq, rseq, n, cnt);
    lemma_pw_prefix(int_views(bases), mseq, aseq, mseq, n, cnt);
    lemma_pw_prefix(int_views(cpk.g_bases@), xs, gseq, xs, n, cnt);
    lemma_pw_prefix(int_views(cpk.g_bases@), rseq, gseq, rseq, n, cnt);
    lemma_pw_prefix(int_views(cpk.g_bases@), mseq, gseq, mseq, n, cnt);
    // ---- t1
    lemma_attr_prod_is_pw(bases, msgs, n, cnt);
    lemma_n5_eq1(aseq, mseq, rseq, xs, b, g0, pk.c@, v, w, e, sv, r_4, r_6, r_8, c, n);
    // ---- t2, t5
    lemma_commit_unit(g0, h, w, rw, n);
    lemma_cong_mod(pow_mod(g0, w, n) * pow_mod(h, rw, n), n);
    lemma_ss_side(g0, h, w, rw, r_7, r_1, c, p.Cw.value@, n);
    lemma_commit_unit(g0, h, e, re, n);
    lemma_cong_mod(pow_mod(g0, e, n) * pow_mod(h, re, n), n);
    lemma_ss_side(g0, h, e, re, r_4, r_9, c, p.Ce.value@, n);
    // ---- t3
    lemma_n5_eq3(g0, h, w, rw, e, r_4, r_8, r_2, c, n);
    lemma_divm_inv(g0, p.s_8@, n); lemma_divm_inv(h, p.s_2@, n);
    lemma_divm_inv(g0, r_8, n); lemma_divm_inv(h, r_2, n);
    // ---- t4
    lemma_multi_prod_all_is_pw(cpk.g_bases@, msgs, Seq::new(msgs.len(), |k: int| k as usize), n, cnt);
    lemma_pw_unit(gseq, mseq, n, cnt);
    ax_gcd_pow_mod(h, rx, n);
    ax_gcd_mul(pw_prod(gseq, mseq, n, cnt), pow_mod(h, rx, n), n);
    ax_gcd_mod(pw_prod(gseq, mseq, n, cnt) * pow_mod(h, rx, n), n);
    lemma_all_side(gseq, mseq, rseq, xs, h, rx, r_3, c, p.Cx.value@, n);
    // assemble: each recomputed commitment equals the prover's
    let v1 = (pow_mod(p.Cv.value@, p.s_4@, n) * divm_spec(1, n5_walk(bases, p.s_5@, rev, hid, c, n, cnt).0 % n, n) * pow_mod(divm_spec(1, b, n), p.s_6@, n)
        * pow_mod(divm_spec(1, g0, n), p.s_8@, n) * pow_mod(pk.c@, -1 * c, n)) % n;
    let v2 = (pow_mod(g0, p.s_7@, n) * pow_mod(h, p.s_1@, n) * pow_mod(p.Cw.value@, -1 * c, n)) % n;
    let v3 = (pow_mod(p.Cw.value@, p.s_4@, n) * pow_mod(divm_spec(1, g0, n), p.s_8@, n) * pow_mod(divm_spec(1, h, n), p.s_2@, n)) % n;
    let v4 = (n5_walk(cpk.g_bases@, p.s_5@, rev, hid, c, n, cnt).0 * pow_mod(h, p.s_3@, n) * pow_mod(p.Cx.value@, -1 * c, n)) % n;
    let v5 = (pow_mod(g0, p.s_4@, n) * pow_mod(h, p.s_9@, n) * pow_mod(p.Ce.value@, -1 * c, n)) % n;
    assert(v1 == t1);
    assert(v2 == t2);
    assert(v3 == t3);
    assert(v4 == t4);
    assert(v5 == t5);
}


/// the two cursors of the attribute walk: hidden positions seen = rank, revealed positions seen = k - rank
pub proof fn lemma_n5_counts(bases: Seq<Integer>, s5: Seq<Integer>, msgs: Seq<CL03Message>, hid: Seq<usize>, c: int, n: int, k: int)
    requires 0 <= k,
    ensures n5_walk(bases, s5, msgs, hid, c, n, k).1 == rank_n5(hid, k), n5_walk(bases, s5, msgs, hid, c, n, k).2 == k - rank_n5(hid, k),
    decreases k,
{
    if k > 0 { lemma_n5_counts(bases, s5, msgs, hid, c, n, k - 1); }
}

/// ... and both stay inside their lists: at a hidden position i the response index is < |hid|, at a revealed one the
/// attribute index is < k - |hid| (ascending hidden set below k)
pub proof fn lemma_n5_index_ok(hid: Seq<usize>, i: int, k: int)
    requires strictly_sorted(hid), forall|t: int| 0 <= t < hid.len() ==> (#[trigger] hid[t]) < k, 0 <= i < k <= usize::MAX,
    ensures
        hid.contains(i as usize) ==> rank_n5(hid, i) < hid.len(),
        !hid.contains(i as usize) ==> 0 <= i - rank_n5(hid, i) < k - hid.len(),
{
    lemma_rank_n5(hid, i);
    if hid.contains(i as usize) {
        let j = choose|j: int| 0 <= j < hid.len() && hid[j] == i as usize;
        if j < rank_n5(hid, i) { assert(hid[j] < i); }
    } else {
        let e = Seq::<CL03Message>::empty();
        lemma_rank_n5(hid, k);
        if rank_n5(hid, k) < hid.len() { assert(hid[rank_n5(hid, k)] >= k); }
        assert(rank_n5(hid, k) == hid.len());
        lemma_rev_list(e, hid, i + 1, k);
        lemma_rev_len(e, hid, k);
        lemma_rev_len(e, hid, i + 1);
        assert(rank_n5(hid, i + 1) == rank_n5(hid, i));
    }
}

/// the attribute walk over unit bases is a unit
pub proof fn lemma_n5_walk_unit(bases: Seq<Integer>, s5: Seq<Integer>, msgs: Seq<CL03Message>, hid: Seq<usize>, c: int, n: int, k: int)
    requires n > 1, 0 <= k <= bases.len(), forall|i: int| 0 <= i < k ==> invertible(#[trigger] bases[i]@, n),
    ensures igcd(n5_walk(bases, s5, msgs, hid, c, n, k).0, n) == 1,
    decreases k,
{
    if k <= 0 { ax_gcd_one(n); } else {
        lemma_n5_walk_unit(bases, s5, msgs, hid, c, n, k - 1);
        let w = n5_walk(bases, s5, msgs, hid, c, n, k - 1);
        if hid.contains((k - 1) as usize) {
            ax_gcd_pow_mod(bases[k - 1]@, s5[w.1]@, n);
            ax_gcd_mul(w.0, pow_mod(bases[k - 1]@, s5[w.1]@, n), n);
        } else {
            let mi = msgs[w.2].value@;
            ax_gcd_pow_mod(bases[k - 1]@, mi + mi * c, n);
            ax_gcd_mul(w.0, pow_mod(bases[k - 1]@, mi + mi * c, n), n);
        }
    }
}

/// the honest signature proof is well-formed: what the verifier's no-refusal run (n5_wf) needs, from what the prover's
/// code establishes (same hypotheses as lemma_n5_complete, without the equations)
pub proof fn lemma_n5_wf(p: NISPSignaturePoK, cpk: CL03CommitmentPublicKey, pk: CL03PublicKey, sig: CL03Signature,
    bases: Seq<Integer>, msgs: Seq<CL03Message>, hid: Seq<usize>, w: int, rw: int, rx: int, re: int)
    requires
        pk.N@ > 1, cpk.N@ == pk.N@, 1 <= msgs.len() <= usize::MAX, msgs.len() <= bases.len(), msgs.len() <= cpk.g_bases@.len(),
        strictly_sorted(hid), forall|t: int| 0 <= t < hid.len() ==> hid[t] < msgs.len(),
        forall|i: int| 0 <= i < msgs.len() ==> invertible(#[trigger] bases[i]@, pk.N@),
        forall|i: int| 0 <= i < msgs.len() ==> invertible(#[trigger] cpk.g_bases@[i]@, pk.N@),
        invertible(cpk.h@, pk.N@), invertible(pk.b@, pk.N@), invertible(pk.c@, pk.N@), invertible(sig.v@, pk.N@),
        p.Cx.value@ == (multi_prod(cpk.g_bases@, msgs, Seq::new(msgs.len(), |k: int| k as usize), pk.N@, msgs.len() as int) * pow_mod(cpk.h@, rx, pk.N@)) % pk.N@,
        p.Cv.value@ == (sig.v@ * pow_mod(cpk.g_bases@[0]@, w, pk.N@)) % pk.N@,
        p.Cw.value@ == (pow_mod(cpk.g_bases@[0]@, w, pk.N@) * pow_mod(cpk.h@, rw, pk.N@)) % pk.N@,
        p.Ce.value@ == (pow_mod(cpk.g_bases@[0]@, sig.e@, pk.N@) * pow_mod(cpk.h@, re, pk.N@)) % pk.N@,
        p.s_5@.len() == hid.len(),
    ensures
        n5_wf(p, cpk, pk, bases, rev_list(msgs, hid, msgs.len() as int), hid, msgs.len() as int),
{
    let n = pk.N@;
    let cnt = msgs.len() as int;
    let (g0, h) = (cpk.g_bases@[0]@, cpk.h@);
    // one revealed attribute per position that is not hidden
    lemma_rev_len(msgs, hid, cnt);
    lemma_rank_n5(hid, cnt);
    if rank_n5(hid, cnt) < hid.len() { assert(hid[rank_n5(hid, cnt)] >= cnt); }
    assert(rank_n5(hid, cnt) == hid.len());
    // the four commitments are units
    ax_gcd_pow_mod(g0, w, n);
    ax_gcd_mul(sig.v@, pow_mod(g0, w, n), n);
    ax_gcd_mod(sig.v@ * pow_mod(g0, w, n), n);
    lemma_commit_unit(g0, h, w, rw, n);
    lemma_commit_unit(g0, h, sig.e@, re, n);
    let all = Seq::new(msgs.len(), |k: int| k as usize);
    lemma_multi_prod_all_is_pw(cpk.g_bases@, msgs, all, n, cnt);
    assert forall|j: int| 0 <= j < cnt implies invertible(#[trigger] int_views(cpk.g_bases@)[j], n) by { assert(int_views(cpk.g_bases@)[j] == cpk.g_bases@[j]@); }
    lemma_pw_unit(int_views(cpk.g_bases@), msg_views(msgs), n, cnt);
    ax_gcd_pow_mod(h, rx, n);
    ax_gcd_mul(pw_prod(int_views(cpk.g_bases@), msg_views(msgs), n, cnt), pow_mod(h, rx, n), n);
    ax_gcd_mod(pw_prod(int_views(cpk.g_bases@), msg_views(msgs), n, cnt) * pow_mod(h, rx, n), n);
}
