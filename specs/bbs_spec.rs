// bbs_spec — specification functions written from draft-irtf-cfrg-bbs-signatures-08 (and
// draft-irtf-cfrg-bbs-blind-signatures-01 for the blind extension).  The oracle: code is verified
// against these, never the other way round.

// ---- I2OSP (RFC 8017 section 4.1): big-endian, fixed length ---------------------------------------
pub open spec fn i2osp_spec(x: nat, n: nat) -> Seq<u8>
    decreases n,
{
    if n == 0 { Seq::empty() } else { i2osp_spec(x / 256, (n - 1) as nat).push((x % 256) as u8) }
}

pub proof fn lemma_i2osp_len(x: nat, n: nat)
    ensures i2osp_spec(x, n).len() == n,
    decreases n,
{
    if n > 0 { lemma_i2osp_len(x / 256, (n - 1) as nat); }
}

pub open spec fn pow256(n: nat) -> nat
    decreases n,
{
    if n == 0 { 1 } else { 256 * pow256((n - 1) as nat) }
}

/// I2OSP is injective on values that fit
pub proof fn lemma_i2osp_inj(x: nat, y: nat, n: nat)
    requires x < pow256(n), y < pow256(n), i2osp_spec(x, n) == i2osp_spec(y, n),
    ensures x == y,
    decreases n,
{
    if n > 0 {
        let a = i2osp_spec(x / 256, (n - 1) as nat);
        let b = i2osp_spec(y / 256, (n - 1) as nat);
        assert(i2osp_spec(x, n).last() == (x % 256) as u8);
        assert(i2osp_spec(y, n).last() == (y % 256) as u8);
        assert(i2osp_spec(x, n).drop_last() =~= a);
        assert(i2osp_spec(y, n).drop_last() =~= b);
        lemma_i2osp_inj(x / 256, y / 256, (n - 1) as nat);
    }
}

// ---- hash_to_scalar (4.3.?): OS2IP(expand_message(msg, dst, 48)) mod r ---------------------------------
pub open spec fn h2s_spec<CS>(msg: Seq<u8>, dst: Seq<u8>) -> Scalar {
    okm_to_scalar(expand_spec::<CS>(msg, dst, 48))
}

// ---- serialisation of point lists / scalar lists -----------------------------------------------------
pub open spec fn enc_points(h: Seq<G1Projective>) -> Seq<u8>
    decreases h.len(),
{
    if h.len() == 0 { Seq::empty() } else { enc_points(h.drop_last()) + g1_enc(h.last()) }
}

pub proof fn lemma_enc_points_len(h: Seq<G1Projective>)
    ensures enc_points(h).len() == 48 * h.len(),
    decreases h.len(),
{
    broadcast use ax_g1_len;
    if h.len() > 0 { lemma_enc_points_len(h.drop_last()); }
}

pub proof fn lemma_enc_points_push(h: Seq<G1Projective>, x: G1Projective)
    ensures enc_points(h.push(x)) == enc_points(h) + g1_enc(x),
{
    assert(h.push(x).drop_last() == h);
}

// ---- messages_to_scalars (4.1.2): hash_to_scalar(msg, api_id || "MAP_MSG_TO_SCALAR_AS_HASH_") ----------
pub open spec fn msg_scalar_spec<CS: BbsCiphersuite>(msg: Seq<u8>, api_id: Seq<u8>) -> Scalar {
    h2s_spec::<CS>(msg, api_id + CS::MAP_MSG_SCALAR@)
}

// ---- calculate_domain (4.3.2) ---------------------------------------------------------------------------
pub open spec fn domain_input(pk: G2Projective, q1: G1Projective, h: Seq<G1Projective>, header: Seq<u8>, api_id: Seq<u8>) -> Seq<u8> {
    g2_enc(pk) + (i2osp_spec(h.len(), 8) + g1_enc(q1) + enc_points(h) + api_id) + i2osp_spec(header.len(), 8) + header
}

pub open spec fn domain_spec<CS: BbsCiphersuite>(pk: G2Projective, q1: G1Projective, h: Seq<G1Projective>, header: Seq<u8>, api_id: Seq<u8>) -> Scalar {
    h2s_spec::<CS>(domain_input(pk, q1, h, header, api_id), api_id + CS::H2S@)
}

// ---- create_generators (4.1.1) ---------------------------------------------------------------------------
/// v_0 = expand(api_id || GENERATOR_SEED, seed_dst);  v_i = expand(v_{i-1} || I2OSP(i, 8), seed_dst)
pub open spec fn gen_v<CS: BbsCiphersuite>(api_id: Seq<u8>, i: nat) -> Seq<u8>
    decreases i,
{
    let seed_dst = api_id + CS::GENERATOR_SEED_DST@;
    if i == 0 {
        expand_spec::<CS>(api_id + CS::GENERATOR_SEED@, seed_dst, 48)
    } else {
        expand_spec::<CS>(gen_v::<CS>(api_id, (i - 1) as nat) + i2osp_spec(i, 8), seed_dst, 48)
    }
}

/// generator_i = hash_to_curve_g1(v_i, api_id || "SIG_GENERATOR_DST_"),  i >= 1
pub open spec fn gen_spec<CS: BbsCiphersuite>(api_id: Seq<u8>, i: nat) -> G1Projective {
    h2c_spec::<CS>(gen_v::<CS>(api_id, i), api_id + CS::GENERATOR_DST@)
}

pub open spec fn generators_spec<CS: BbsCiphersuite>(count: nat, api_id: Seq<u8>) -> Seq<G1Projective> {
    Seq::new(count, |k: int| gen_spec::<CS>(api_id, (k + 1) as nat))
}

// ---- B = P1 + Q_1 * domain + H_1 * msg_1 + ... + H_L * msg_L  (left fold in index order) ---------------
pub open spec fn b_fold(base: G1Projective, h: Seq<G1Projective>, m: Seq<Scalar>, k: int) -> G1Projective
    decreases k,
{
    if k <= 0 { base } else { g1_add(b_fold(base, h, m, k - 1), g1_mul(h[k - 1], m[k - 1])) }
}

pub open spec fn msg_values(m: Seq<BBSplusMessage>) -> Seq<Scalar> {
    Seq::new(m.len(), |i: int| m[i].value)
}

pub open spec fn b_spec(p1: G1Projective, q1: G1Projective, domain: Scalar, h: Seq<G1Projective>, m: Seq<Scalar>) -> G1Projective {
    b_fold(g1_add(p1, g1_mul(q1, domain)), h, m, m.len() as int)
}

// ---- CoreSign (3.6.1) / CoreVerify (3.6.2) --------------------------------------------------------------
/// e = hash_to_scalar(serialize((SK, msg_1, ..., msg_L, domain)), api_id || "H2S_")
pub open spec fn sign_e_spec<CS: BbsCiphersuite>(sk: Scalar, m: Seq<Scalar>, domain: Scalar, api_id: Seq<u8>) -> Scalar {
    h2s_spec::<CS>(enc_scalars(seq![sk] + m + seq![domain]), api_id + CS::H2S@)
}

/// e(A, W + BP2 * e) * e(B, -BP2) == Identity_GT
pub open spec fn pairing_check(pk: G2Projective, a: G1Projective, e: Scalar, b: G1Projective) -> bool {
    gt_mul(pair(a, g2_add(pk, g2_mul(g2_gen(), e))), pair(b, g2_neg(g2_gen()))) == gt_one()
}

/// the whole CoreVerify predicate for generators `gens` (gens[0] = Q_1, gens[1..] = H) and base point p1
pub open spec fn core_verify_spec<CS: BbsCiphersuite>(pk: G2Projective, sig: BBSplusSignature, m: Seq<Scalar>, p1: G1Projective, gens: Seq<G1Projective>, header: Seq<u8>, api_id: Seq<u8>) -> bool {
    &&& gens.len() == m.len() + 1
    &&& (api_id + CS::H2S@).len() <= 255
    &&& pairing_check(pk, sig.A, sig.e,
            b_spec(p1, gens[0], domain_spec::<CS>(pk, gens[0], gens.subrange(1, gens.len() as int), header, api_id), gens.subrange(1, gens.len() as int), m))
}

// ---- small helpers -----------------------------------------------------------------------------------
/// an absent optional octet string is the empty octet string
pub open spec fn opt_bytes(o: Option<&[u8]>) -> Seq<u8> {
    match o { Some(s) => s@, None => Seq::empty() }
}

/// indexes in [0, length) that are not in `idx`, ascending
pub open spec fn complement(length: int, idx: Seq<usize>) -> Seq<usize>
    decreases length,
{
    if length <= 0 {
        Seq::empty()
    } else if idx.contains((length - 1) as usize) {
        complement(length - 1, idx)
    } else {
        complement(length - 1, idx).push((length - 1) as usize)
    }
}

// ---- blind challenge (blind draft 4.?: calculate_blind_challenge) -------------------------------------------
/// c_arr = (M, generators.., C, Cbar);  M = len(generators) - 1
pub open spec fn blind_challenge_input(c: G1Projective, cbar: G1Projective, gens: Seq<G1Projective>) -> Seq<u8> {
    i2osp_spec((gens.len() - 1) as nat, 8) + enc_points(gens) + g1_enc(c) + g1_enc(cbar)
}

pub open spec fn blind_challenge_spec<CS: BbsCiphersuite>(c: G1Projective, cbar: G1Projective, gens: Seq<G1Projective>, api_id: Seq<u8>) -> Scalar {
    h2s_spec::<CS>(blind_challenge_input(c, cbar, gens), api_id + CS::H2S@)
}

// ---- key generation (3.4.1 KeyGen, 3.4.2 SkToPk) ------------------------------------------------------
/// key_dst defaults to api_id || "KEYGEN_DST_"
pub open spec fn key_dst_eff<CS: BbsCiphersuite>(key_dst: Option<&[u8]>) -> Seq<u8> {
    match key_dst { Some(d) => d@, None => CS::API_ID@ + CS::KEYGEN_DST@ }
}

/// P1: the fixed base point of the ciphersuite
pub open spec fn p1_spec<CS: BbsCiphersuite>() -> G1Projective {
    g1_from_hex(CS::P1@)->0
}

// ---- Sign / Verify (3.5.1, 3.5.2) over octet-string messages -------------------------------------------
pub open spec fn opt_msgs(o: Option<&[Vec<u8>]>) -> Seq<Vec<u8>> {
    match o { Some(s) => s@, None => Seq::empty() }
}

pub open spec fn msgs_to_scalars_spec<CS: BbsCiphersuite>(msgs: Seq<Vec<u8>>, api_id: Seq<u8>) -> Seq<Scalar> {
    Seq::new(msgs.len(), |i: int| msg_scalar_spec::<CS>(msgs[i]@, api_id))
}

/// e of CoreSign for generators `gens` (gens[0] = Q_1, gens[1..] = H)
pub open spec fn core_sign_e<CS: BbsCiphersuite>(sk: Scalar, pk: G2Projective, gens: Seq<G1Projective>, m: Seq<Scalar>, header: Seq<u8>, api_id: Seq<u8>) -> Scalar {
    sign_e_spec::<CS>(sk, m, domain_spec::<CS>(pk, gens[0], gens.subrange(1, gens.len() as int), header, api_id), api_id)
}

/// A of CoreSign: B * 1/(SK + e)
pub open spec fn core_sign_a<CS: BbsCiphersuite>(sk: Scalar, pk: G2Projective, p1: G1Projective, gens: Seq<G1Projective>, m: Seq<Scalar>, header: Seq<u8>, api_id: Seq<u8>) -> G1Projective {
    let h = gens.subrange(1, gens.len() as int);
    let domain = domain_spec::<CS>(pk, gens[0], h, header, api_id);
    g1_mul(b_spec(p1, gens[0], domain, h, m), s_inv(s_add(sk, core_sign_e::<CS>(sk, pk, gens, m, header, api_id))))
}

pub open spec fn sign_spec<CS: BbsCiphersuite>(sk: Scalar, pk: G2Projective, msgs: Seq<Vec<u8>>, header: Seq<u8>) -> BBSplusSignature {
    let gens = generators_spec::<CS>((msgs.len() + 1) as nat, CS::API_ID@);
    let m = msgs_to_scalars_spec::<CS>(msgs, CS::API_ID@);
    BBSplusSignature {
        A: core_sign_a::<CS>(sk, pk, p1_spec::<CS>(), gens, m, header, CS::API_ID@),
        e: core_sign_e::<CS>(sk, pk, gens, m, header, CS::API_ID@),
    }
}

pub open spec fn sign_hnz<CS: BbsCiphersuite>(sk: Scalar, pk: G2Projective, msgs: Seq<Vec<u8>>, header: Seq<u8>) -> bool {
    s_add(sk, sign_spec::<CS>(sk, pk, msgs, header).e) != s_zero()
}

pub open spec fn verify_spec<CS: BbsCiphersuite>(pk: G2Projective, sig: BBSplusSignature, msgs: Seq<Vec<u8>>, header: Seq<u8>) -> bool {
    core_verify_spec::<CS>(pk, sig, msgs_to_scalars_spec::<CS>(msgs, CS::API_ID@), p1_spec::<CS>(),
        generators_spec::<CS>((msgs.len() + 1) as nat, CS::API_ID@), header, CS::API_ID@)
}

// ---- update_signature (zkryptium extension): B' = A*(SK+e) - H_i*old + H_i*new;  A' = B'/(SK+e) ------------
pub open spec fn update_a_spec<CS: BbsCiphersuite>(sig: BBSplusSignature, sk: Scalar, old_msg: Seq<u8>, new_msg: Seq<u8>, i: int, n: nat) -> G1Projective {
    let h_i = generators_spec::<CS>(n + 1, CS::API_ID@)[i + 1];
    let sk_e = s_add(sk, sig.e);
    let old_s = msg_scalar_spec::<CS>(old_msg, CS::API_ID@);
    let new_s = msg_scalar_spec::<CS>(new_msg, CS::API_ID@);
    g1_mul(g1_add(g1_add(g1_mul(sig.A, sk_e), g1_mul(g1_neg(h_i), old_s)), g1_mul(h_i, new_s)), s_inv(sk_e))
}

// ---- proofs (3.6.3 CoreProofGen, 3.6.4 CoreProofVerify, 3.7.x ProofInit/Finalize/VerifyInit/Challenge) ---
/// base + sum_{t < n} H[idx[t]] * m[t]   (m is parallel to idx), left fold in index order
pub open spec fn fold_idx(base: G1Projective, h: Seq<G1Projective>, m: Seq<Scalar>, idx: Seq<usize>, n: int) -> G1Projective
    decreases n,
{
    if n <= 0 { base } else { g1_add(fold_idx(base, h, m, idx, n - 1), g1_mul(h[idx[n - 1] as int], m[n - 1])) }
}

/// (i_1, msg_i1, ..., i_R, msg_iR) serialised: I2OSP(i, 8) || scalar
pub open spec fn disclosed_octets(idx: Seq<usize>, m: Seq<Scalar>, n: int) -> Seq<u8>
    decreases n,
{
    if n <= 0 { Seq::empty() } else { disclosed_octets(idx, m, n - 1) + i2osp_spec(idx[n - 1] as nat, 8) + sc_enc(m[n - 1]) }
}

/// c_arr = (R, i1, msg_i1, .., Abar, Bbar, D, T1, T2, domain);  c_octs = serialize(c_arr) || I2OSP(len(ph), 8) || ph
pub open spec fn challenge_input(idx: Seq<usize>, m: Seq<Scalar>, abar: G1Projective, bbar: G1Projective, d: G1Projective,
    t1: G1Projective, t2: G1Projective, domain: Scalar, ph: Seq<u8>) -> Seq<u8> {
    i2osp_spec(idx.len(), 8) + disclosed_octets(idx, m, idx.len() as int)
        + g1_enc(abar) + g1_enc(bbar) + g1_enc(d) + g1_enc(t1) + g1_enc(t2) + sc_enc(domain)
        + i2osp_spec(ph.len(), 8) + ph
}

pub open spec fn challenge_spec<CS: BbsCiphersuite>(idx: Seq<usize>, m: Seq<Scalar>, abar: G1Projective, bbar: G1Projective, d: G1Projective,
    t1: G1Projective, t2: G1Projective, domain: Scalar, ph: Seq<u8>, api_id: Seq<u8>) -> Scalar {
    h2s_spec::<CS>(challenge_input(idx, m, abar, bbar, d, t1, t2, domain, ph), api_id + CS::H2S@)
}

// ProofInit
pub open spec fn pi_d(b: G1Projective, r2: Scalar) -> G1Projective { g1_mul(b, r2) }
pub open spec fn pi_abar(a: G1Projective, r1: Scalar, r2: Scalar) -> G1Projective { g1_mul(a, s_mul(r1, r2)) }
pub open spec fn pi_bbar(d: G1Projective, r1: Scalar, abar: G1Projective, e: Scalar) -> G1Projective {
    g1_sub(g1_mul(d, r1), g1_mul(abar, e))
}
pub open spec fn pi_t1(abar: G1Projective, e_tilde: Scalar, d: G1Projective, r1_tilde: Scalar) -> G1Projective {
    g1_add(g1_mul(abar, e_tilde), g1_mul(d, r1_tilde))
}
pub open spec fn pi_t2(d: G1Projective, r3_tilde: Scalar, h: Seq<G1Projective>, m_tilde: Seq<Scalar>, und: Seq<usize>) -> G1Projective {
    fold_idx(g1_mul(d, r3_tilde), h, m_tilde, und, und.len() as int)
}

// ProofVerifyInit
pub open spec fn pv_t1(p: BBSplusPoKSignature) -> G1Projective {
    g1_add(g1_add(g1_mul(p.Bbar, p.challenge), g1_mul(p.Abar, p.e_cap)), g1_mul(p.D, p.r1_cap))
}
pub open spec fn pv_bv(p1: G1Projective, q1: G1Projective, domain: Scalar, h: Seq<G1Projective>, dm: Seq<Scalar>, di: Seq<usize>) -> G1Projective {
    fold_idx(g1_add(p1, g1_mul(q1, domain)), h, dm, di, di.len() as int)
}
pub open spec fn pv_t2(p: BBSplusPoKSignature, bv: G1Projective, h: Seq<G1Projective>, und: Seq<usize>) -> G1Projective {
    fold_idx(g1_add(g1_mul(bv, p.challenge), g1_mul(p.D, p.r3_cap)), h, p.m_cap@, und, p.m_cap@.len() as int)
}

/// the complete CoreProofVerify predicate (including octets_to_proof's non-identity conditions)
pub open spec fn proof_verify_spec<CS: BbsCiphersuite>(pk: G2Projective, p: BBSplusPoKSignature, p1: G1Projective, gens: Seq<G1Projective>,
    header: Seq<u8>, ph: Seq<u8>, dm: Seq<Scalar>, di: Seq<usize>, api_id: Seq<u8>) -> bool {
    let u = p.m_cap@.len() as int;
    let r = di.len() as int;
    let l = u + r;
    let h = gens.subrange(1, gens.len() as int);
    let domain = domain_spec::<CS>(pk, gens[0], h, header, api_id);
    let und = complement(l, di);
    let bv = pv_bv(p1, gens[0], domain, h, dm, di);
    &&& forall|i: int| 0 <= i < r ==> di[i] < l
    &&& dm.len() == r
    &&& gens.len() == l + 1
    &&& (api_id + CS::H2S@).len() <= 255
    &&& p.Abar != g1_zero() && p.Bbar != g1_zero() && p.D != g1_zero()
    &&& p.challenge == challenge_spec::<CS>(di, dm, p.Abar, p.Bbar, p.D, pv_t1(p), pv_t2(p, bv, h, und), domain, ph, api_id)
    &&& gt_mul(pair(p.Abar, pk), pair(p.Bbar, g2_neg(g2_gen()))) == gt_one()
}

/// the validation part of ProofVerifyInit (everything that makes it return an error)
pub open spec fn pvi_ok<CS: BbsCiphersuite>(u: int, gens_len: int, dm: Seq<Scalar>, di: Seq<usize>, api_id: Seq<u8>) -> bool {
    &&& forall|i: int| 0 <= i < di.len() ==> di[i] < u + di.len()
    &&& dm.len() == di.len()
    &&& gens_len == u + di.len() + 1
    &&& (api_id + CS::H2S@).len() <= 255
}

// ---- ProofInit / ProofFinalize / CoreProofGen as functions of the random scalars -------------------------
/// random_scalars = (r1, r2, e~, r1~, r3~, m~_1 .. m~_U)
pub open spec fn proof_init_spec<CS: BbsCiphersuite>(pk: G2Projective, sig: BBSplusSignature, p1: G1Projective, gens: Seq<G1Projective>,
    rs: Seq<Scalar>, header: Seq<u8>, m: Seq<Scalar>, und: Seq<usize>, api_id: Seq<u8>) -> ProofInitResult {
    let h = gens.subrange(1, gens.len() as int);
    let domain = domain_spec::<CS>(pk, gens[0], h, header, api_id);
    let b = b_spec(p1, gens[0], domain, h, m);
    let d = pi_d(b, rs[1]);
    let abar = pi_abar(sig.A, rs[0], rs[1]);
    ProofInitResult {
        Abar: abar,
        Bbar: pi_bbar(d, rs[0], abar, sig.e),
        D: d,
        T1: pi_t1(abar, rs[2], d, rs[3]),
        T2: pi_t2(d, rs[4], h, rs.subrange(5, 5 + und.len() as int), und),
        domain: domain,
    }
}

/// ProofFinalize: the responses.  und_m = the undisclosed message scalars in index order.
pub open spec fn proof_finalize_rel(p: BBSplusPoKSignature, init: ProofInitResult, c: Scalar, e: Scalar, rs: Seq<Scalar>, und_m: Seq<Scalar>) -> bool {
    &&& p.Abar == init.Abar && p.Bbar == init.Bbar && p.D == init.D
    &&& p.e_cap == s_add(rs[2], s_mul(e, c))
    &&& p.r1_cap == s_sub(rs[3], s_mul(rs[0], c))
    &&& p.r3_cap == s_sub(rs[4], s_mul(s_inv(rs[1]), c))
    &&& p.m_cap@.len() == und_m.len()
    &&& forall|j: int| 0 <= j < und_m.len() ==> (#[trigger] p.m_cap@[j]) == s_add(rs[5 + j], s_mul(und_m[j], c))
    &&& p.challenge == c
}

pub open spec fn select(m: Seq<Scalar>, idx: Seq<usize>) -> Seq<Scalar> {
    Seq::new(idx.len(), |k: int| m[idx[k] as int])
}

/// CoreProofGen for ascending, duplicate-free disclosed indexes `di` (all < |m|), random scalars rs (|rs| = 5 + U)
pub open spec fn core_proof_gen_rel<CS: BbsCiphersuite>(p: BBSplusPoKSignature, pk: G2Projective, sig: BBSplusSignature, p1: G1Projective, gens: Seq<G1Projective>,
    m: Seq<Scalar>, di: Seq<usize>, header: Seq<u8>, ph: Seq<u8>, api_id: Seq<u8>, rs: Seq<Scalar>) -> bool {
    let und = complement(m.len() as int, di);
    let init = proof_init_spec::<CS>(pk, sig, p1, gens, rs, header, m, und, api_id);
    let c = challenge_spec::<CS>(di, select(m, di), init.Abar, init.Bbar, init.D, init.T1, init.T2, init.domain, ph, api_id);
    proof_finalize_rel(p, init, c, sig.e, rs, select(m, und))
}

pub open spec fn core_proof_gen_ok<CS: BbsCiphersuite>(gens_len: int, l: int, di: Seq<usize>, api_id: Seq<u8>) -> bool {
    &&& gens_len == l + 1
    &&& di.len() <= l
    &&& forall|k: int| 0 <= k < di.len() ==> di[k] < l
    &&& (api_id + CS::H2S@).len() <= 255
}

// ---- ProofGen / ProofVerify (3.5.3, 3.5.4) over octet strings --------------------------------------------
pub open spec fn opt_idx(o: Option<&[usize]>) -> Seq<usize> {
    match o { Some(s) => s@, None => Seq::empty() }
}

/// octets_to_signature as a function (meaningful when sig_decodes(b, sig_of_octets(b)))
pub open spec fn sig_of_octets(b: Seq<u8>) -> BBSplusSignature {
    BBSplusSignature { A: g1_dec(b.subrange(0, 48))->0, e: sc_dec(b.subrange(48, 80))->0 }
}

pub open spec fn sig_octets_valid(b: Seq<u8>) -> bool {
    sig_decodes(b, sig_of_octets(b))
}

pub open spec fn proof_gen_ok<CS: BbsCiphersuite>(sig: Seq<u8>, l: int, di: Seq<usize>) -> bool {
    &&& sig_octets_valid(sig)
    &&& di.len() <= l
    &&& forall|k: int| 0 <= k < di.len() ==> di[k] < l
}

pub open spec fn proof_gen_rel<CS: BbsCiphersuite>(p: BBSplusPoKSignature, pk: G2Projective, sig: Seq<u8>, header: Seq<u8>, ph: Seq<u8>,
    msgs: Seq<Vec<u8>>, di: Seq<usize>, rs: Seq<Scalar>) -> bool {
    core_proof_gen_rel::<CS>(p, pk, sig_of_octets(sig), p1_spec::<CS>(), generators_spec::<CS>((msgs.len() + 1) as nat, CS::API_ID@),
        msgs_to_scalars_spec::<CS>(msgs, CS::API_ID@), di, header, ph, CS::API_ID@, rs)
}

pub open spec fn proof_verify_api_spec<CS: BbsCiphersuite>(pk: G2Projective, p: BBSplusPoKSignature, dmsgs: Seq<Vec<u8>>, di: Seq<usize>, header: Seq<u8>, ph: Seq<u8>) -> bool {
    proof_verify_spec::<CS>(pk, p, p1_spec::<CS>(), generators_spec::<CS>((p.m_cap@.len() + di.len() + 1) as nat, CS::API_ID@), header, ph,
        msgs_to_scalars_spec::<CS>(dmsgs, CS::API_ID@), di, CS::API_ID@)
}

// ==== Blind BBS (draft-irtf-cfrg-bbs-blind-signatures-01, with the Grotto deviations the code documents) ====
/// blind generators: create_generators(n, "BLIND_" || api_id)
pub open spec fn blind_api(api_id: Seq<u8>) -> Seq<u8> {
    Seq::<u8>::empty().push(66u8).push(76u8).push(73u8).push(78u8).push(68u8).push(95u8) + api_id
}

/// Cbar recomputed by the verifier: Q2 * s^ + sum J_i * m^_i + C * (-c)
pub open spec fn commit_cbar_v(c: G1Projective, p: BBSplusZKPoK, gens: Seq<G1Projective>) -> G1Projective {
    let m = p.m_cap@.len() as int;
    g1_add(b_fold(g1_mul(gens[0], p.s_cap), gens.subrange(1, m + 1), p.m_cap@, m), g1_mul(c, s_neg(p.challenge)))
}

/// CoreCommitVerify predicate over the first M + 1 of the supplied blind generators
pub open spec fn commit_verify_spec<CS: BbsCiphersuite>(c: G1Projective, p: BBSplusZKPoK, gens: Seq<G1Projective>, api_id: Seq<u8>) -> bool {
    let m = p.m_cap@.len() as int;
    &&& gens.len() >= m + 1
    &&& (api_id + CS::H2S@).len() <= 255
    &&& p.challenge == blind_challenge_spec::<CS>(c, commit_cbar_v(c, p, gens.subrange(0, m + 1)), gens.subrange(0, m + 1), api_id)
}

/// CoreCommit as a function of the random scalars rs = (secret_prover_blind, s~, m~_1..m~_M)
pub open spec fn commit_c(gens: Seq<G1Projective>, cm: Seq<Scalar>, rs: Seq<Scalar>) -> G1Projective {
    b_fold(g1_mul(gens[0], rs[0]), gens.subrange(1, cm.len() as int + 1), cm, cm.len() as int)
}
pub open spec fn commit_cbar(gens: Seq<G1Projective>, cm: Seq<Scalar>, rs: Seq<Scalar>) -> G1Projective {
    b_fold(g1_mul(gens[0], rs[1]), gens.subrange(1, cm.len() as int + 1), rs.subrange(2, cm.len() as int + 2), cm.len() as int)
}
pub open spec fn core_commit_rel<CS: BbsCiphersuite>(out: BBSplusCommitment, blind: Scalar, gens: Seq<G1Projective>, cm: Seq<Scalar>, api_id: Seq<u8>, rs: Seq<Scalar>) -> bool {
    let c = blind_challenge_spec::<CS>(commit_c(gens, cm, rs), commit_cbar(gens, cm, rs), gens, api_id);
    &&& blind == rs[0]
    &&& out.commitment == commit_c(gens, cm, rs)
    &&& out.proof.challenge == c
    &&& out.proof.s_cap == s_add(rs[1], s_mul(rs[0], c))
    &&& out.proof.m_cap@.len() == cm.len()
    &&& forall|j: int| 0 <= j < cm.len() ==> (#[trigger] out.proof.m_cap@[j]) == s_add(rs[2 + j], s_mul(cm[j], c))
}

/// B_calculate: P1 + sum H_i * m_i + commitment
pub open spec fn calculate_b_spec(p1: G1Projective, h: Seq<G1Projective>, m: Seq<Scalar>, commitment: G1Projective) -> G1Projective {
    g1_add(b_fold(p1, h, m, m.len() as int), commitment)
}

/// FinalizeBlindSign: domain over (H_1..H_L, Q2, J_1..J_{n-2});  B' = B + Q1 * domain;  e = h2s(SK || B');  A = B'/(SK + e)
pub open spec fn fbs_gens(gens: Seq<G1Projective>, bgens: Seq<G1Projective>) -> Seq<G1Projective> {
    gens.subrange(1, gens.len() as int) + seq![bgens[0]] + (if bgens.len() >= 2 { bgens.subrange(1, bgens.len() - 1) } else { Seq::empty() })
}
pub open spec fn fbs_b<CS: BbsCiphersuite>(pk: G2Projective, b: G1Projective, gens: Seq<G1Projective>, bgens: Seq<G1Projective>, header: Seq<u8>, api_id: Seq<u8>) -> G1Projective {
    g1_add(b, g1_mul(gens[0], domain_spec::<CS>(pk, gens[0], fbs_gens(gens, bgens), header, api_id)))
}
pub open spec fn fbs_e<CS: BbsCiphersuite>(sk: Scalar, bp: G1Projective, api_id: Seq<u8>) -> Scalar {
    h2s_spec::<CS>(sc_enc(sk) + g1_enc(bp), api_id + CS::H2S@)
}

pub open spec fn opt_cm(o: Option<Vec<BBSplusMessage>>) -> Seq<BBSplusMessage> {
    match o { Some(v) => v@, None => Seq::empty() }
}

/// commit fails only when a DST exceeds 255 octets (never for the real api ids)
pub open spec fn commit_ok<CS: BbsCiphersuite>(m: int, api_id: Seq<u8>) -> bool {
    &&& (m == 0 || (api_id + CS::MAP_MSG_SCALAR@).len() <= 255)
    &&& (api_id + CS::H2S@).len() <= 255
}

/// prepare_parameters: (msgs, [blind], committed) over generators(gn) ++ blind generators(bgn)
pub open spec fn pp_scalars<CS: BbsCiphersuite>(msgs: Seq<Vec<u8>>, cm: Seq<Vec<u8>>, blind: Option<Scalar>, api_id: Seq<u8>) -> Seq<Scalar> {
    msgs_to_scalars_spec::<CS>(msgs, api_id) + (match blind { Some(b) => seq![b], None => Seq::empty() }) + msgs_to_scalars_spec::<CS>(cm, api_id)
}
pub open spec fn pp_gens<CS: BbsCiphersuite>(gn: nat, bgn: nat, api_id: Seq<u8>) -> Seq<G1Projective> {
    generators_spec::<CS>(gn, api_id) + generators_spec::<CS>(bgn, blind_api(api_id))
}
pub open spec fn pp_ok<CS: BbsCiphersuite>(nm: int, ncm: int, api_id: Seq<u8>) -> bool {
    (nm == 0 && ncm == 0) || (api_id + CS::MAP_MSG_SCALAR@).len() <= 255
}
pub open spec fn opt_blind(o: Option<&BlindFactor>) -> Option<Scalar> {
    match o { Some(b) => Some(b.0), None => None }
}

/// number of blind generators blind_sign derives from the length of commitment_with_proof
pub open spec fn bsign_m(len: int) -> int {
    if len == 0 { 0 } else { (len - 48 - 32) / 32 }
}

/// BlindVerify: CoreVerify over (msgs, blind, committed) with generators(L+1) ++ blind generators(M+1)
pub open spec fn verify_blind_spec<CS: BbsCiphersuite>(pk: G2Projective, sig: BBSplusSignature, header: Seq<u8>, msgs: Seq<Vec<u8>>, cm: Seq<Vec<u8>>, blind: Scalar) -> bool {
    core_verify_spec::<CS>(pk, sig, pp_scalars::<CS>(msgs, cm, Some(blind), CS::API_ID_BLIND@), p1_spec::<CS>(),
        pp_gens::<CS>((msgs.len() + 1) as nat, (cm.len() + 1) as nat, CS::API_ID_BLIND@), header, CS::API_ID_BLIND@)
}

pub open spec fn opt_g1(o: Option<G1Projective>) -> G1Projective {
    match o { Some(p) => p, None => g1_zero() }
}
pub open spec fn blind_or_zero(o: Option<&BlindFactor>) -> Scalar {
    match o { Some(b) => b.0, None => s_zero() }
}

/// the commitment point used by blind_sign: identity for an empty octet string, otherwise the decoded C
pub open spec fn bsign_commit_ok(c: G1Projective, cwp: Seq<u8>) -> bool {
    if cwp.len() == 0 { c == g1_zero() } else { exists|x: BBSplusCommitment| #[trigger] commitment_decodes(cwp, x) && x.commitment == c }
}

/// BlindSign: B = P1 + sum H_i m_i + C, then FinalizeBlindSign over generators(L+1), blind generators(m+1)
pub open spec fn blind_sign_rel<CS: BbsCiphersuite>(sig: BBSplusSignature, sk: Scalar, pk: G2Projective, c: G1Projective, m: int, header: Seq<u8>, msgs: Seq<Vec<u8>>) -> bool {
    let gens = generators_spec::<CS>((msgs.len() + 1) as nat, CS::API_ID_BLIND@);
    let bgens = generators_spec::<CS>((m + 1) as nat, blind_api(CS::API_ID_BLIND@));
    let b = calculate_b_spec(p1_spec::<CS>(), gens.subrange(1, gens.len() as int), msgs_to_scalars_spec::<CS>(msgs, CS::API_ID_BLIND@), c);
    let bp = fbs_b::<CS>(pk, b, gens, bgens, header, CS::API_ID_BLIND@);
    &&& sig.e == fbs_e::<CS>(sk, bp, CS::API_ID_BLIND@)
    &&& sig.A == g1_mul(bp, s_inv(s_add(sk, sig.e)))
}

pub open spec fn opt_usize(o: Option<usize>) -> usize {
    match o { Some(v) => v, None => 0 }
}

/// blind index translation: signer-message indexes as they are, committed-message index j at j + L + 1
pub open spec fn blind_indexes(di: Seq<usize>, dj: Seq<usize>, l: int) -> Seq<usize> {
    Seq::new(di.len() + dj.len(), |k: int| if k < di.len() { di[k] } else { (dj[k - di.len()] + l + 1) as usize })
}

pub proof fn lemma_blind_indexes_sorted(di: Seq<usize>, dj: Seq<usize>, l: int)
    requires
        strictly_sorted(di), strictly_sorted(dj), 0 <= l,
        forall|k: int| 0 <= k < di.len() ==> di[k] < l,
        forall|k: int| 0 <= k < dj.len() ==> dj[k] + l + 1 <= usize::MAX,
    ensures strictly_sorted(blind_indexes(di, dj, l)),
{
}

pub open spec fn blind_proof_gen_ok<CS: BbsCiphersuite>(sig: Seq<u8>, l: int, m: int, di: Seq<usize>, dj: Seq<usize>) -> bool {
    &&& sig_octets_valid(sig)
    &&& di.len() <= l && (forall|k: int| 0 <= k < di.len() ==> di[k] < l)
    &&& dj.len() <= m && (forall|k: int| 0 <= k < dj.len() ==> dj[k] < m)
}

/// BlindProofGen = CoreProofGen over (msgs, blind, committed) / generators(L+1) ++ blind generators(M+1) with translated indexes
pub open spec fn blind_proof_gen_rel<CS: BbsCiphersuite>(p: BBSplusPoKSignature, pk: G2Projective, sig: Seq<u8>, header: Seq<u8>, ph: Seq<u8>,
    msgs: Seq<Vec<u8>>, cm: Seq<Vec<u8>>, di: Seq<usize>, dj: Seq<usize>, blind: Scalar, rs: Seq<Scalar>) -> bool {
    core_proof_gen_rel::<CS>(p, pk, sig_of_octets(sig), p1_spec::<CS>(), pp_gens::<CS>((msgs.len() + 1) as nat, (cm.len() + 1) as nat, CS::API_ID_BLIND@),
        pp_scalars::<CS>(msgs, cm, Some(blind), CS::API_ID_BLIND@), blind_indexes(di, dj, msgs.len() as int), header, ph, CS::API_ID_BLIND@, rs)
}

/// BlindProofVerify: M = R1 + R2 + U - 1 - L (an L that does not fit is refused), indexes in range, then CoreProofVerify
pub open spec fn blind_proof_verify_spec<CS: BbsCiphersuite>(pk: G2Projective, p: BBSplusPoKSignature, header: Seq<u8>, ph: Seq<u8>, l: usize,
    dmsgs: Seq<Vec<u8>>, dcm: Seq<Vec<u8>>, di: Seq<usize>, dj: Seq<usize>) -> bool {
    let n = di.len() + dj.len() + p.m_cap@.len();
    let m = n - 1 - l;
    &&& n >= 1 && n - 1 >= l
    &&& forall|k: int| 0 <= k < di.len() ==> di[k] < l
    &&& forall|k: int| 0 <= k < dj.len() ==> dj[k] < m
    &&& pp_ok::<CS>(dmsgs.len() as int, dcm.len() as int, CS::API_ID_BLIND@)
    &&& proof_verify_spec::<CS>(pk, p, p1_spec::<CS>(), pp_gens::<CS>((l + 1) as nat, (m + 1) as nat, CS::API_ID_BLIND@), header, ph,
            pp_scalars::<CS>(dmsgs, dcm, None, CS::API_ID_BLIND@), blind_indexes(di, dj, l as int), CS::API_ID_BLIND@)
}
