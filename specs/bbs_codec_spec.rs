// Encoders of the BBS drafts (octet-string layout), written from
// draft-irtf-cfrg-bbs-signatures-08 section 4.2.4 (signature_to_octets, proof_to_octets) and
// draft-irtf-cfrg-bbs-blind-signatures-01 (commitment_with_proof).

pub open spec fn enc_scalars(s: Seq<Scalar>) -> Seq<u8>
    decreases s.len(),
{
    if s.len() == 0 { Seq::empty() } else { enc_scalars(s.drop_last()) + sc_enc(s.last()) }
}

pub open spec fn enc_sig(sig: BBSplusSignature) -> Seq<u8> {
    g1_enc(sig.A) + sc_enc(sig.e)
}

pub open spec fn enc_pk(pk: BBSplusPublicKey) -> Seq<u8> {
    g2_enc(pk.0)
}

pub open spec fn enc_proof(p: BBSplusPoKSignature) -> Seq<u8> {
    g1_enc(p.Abar) + g1_enc(p.Bbar) + g1_enc(p.D) + sc_enc(p.e_cap) + sc_enc(p.r1_cap) + sc_enc(p.r3_cap)
        + enc_scalars(p.m_cap@) + sc_enc(p.challenge)
}

pub open spec fn enc_zkpok(p: BBSplusZKPoK) -> Seq<u8> {
    sc_enc(p.s_cap) + enc_scalars(p.m_cap@) + sc_enc(p.challenge)
}

pub open spec fn enc_commitment(c: BBSplusCommitment) -> Seq<u8> {
    g1_enc(c.commitment) + enc_zkpok(c.proof)
}

pub proof fn lemma_enc_scalars_len(s: Seq<Scalar>)
    ensures enc_scalars(s).len() == 32 * s.len(),
    decreases s.len(),
{
    broadcast use ax_sc_len;
    if s.len() > 0 {
        lemma_enc_scalars_len(s.drop_last());
    }
}

pub proof fn lemma_enc_scalars_push(s: Seq<Scalar>, x: Scalar)
    ensures enc_scalars(s.push(x)) == enc_scalars(s) + sc_enc(x),
{
    assert(s.push(x).drop_last() == s);
}
