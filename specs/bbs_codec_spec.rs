// Encoders of the BBS drafts (octet-string layout), written from
// draft-irtf-cfrg-bbs-signatures-08 section 4.2.4 (signature_to_octets, proof_to_octets) and
// draft-irtf-cfrg-bbs-blind-signatures-01 (commitment_with_proof).

pub open spec fn enc_scalars(s: Seq<Scalar>) -> Seq<u8>
    decreases s.len(),
{
    if s.len() == 0 { Seq::empty() } else { enc_scalars(s.drop_last()) + sc_enc(s.last()) }
}

pub open spec fn enc_sig(sig: BBSplusSignature) -> Seq<u8> {
    g1_enc(sig.A) + sc_enc(sig.e)
}

pub open spec fn enc_pk(pk: BBSplusPublicKey) -> Seq<u8> {
    g2_enc(pk.0)
}

pub open spec fn enc_proof(p: BBSplusPoKSignature) -> Seq<u8> {
    g1_enc(p.Abar) + g1_enc(p.Bbar) + g1_enc(p.D) + sc_enc(p.e_cap) + sc_enc(p.r1_cap) + sc_enc(p.r3_cap)
        + enc_scalars(p.m_cap@) + sc_enc(p.challenge)
}

pub open spec fn enc_zkpok(p: BBSplusZKPoK) -> Seq<u8> {
    sc_enc(p.s_cap) + enc_scalars(p.m_cap@) + sc_enc(p.challenge)
}

pub open spec fn enc_commitment(c: BBSplusCommitment) -> Seq<u8> {
    g1_enc(c.commitment) + enc_zkpok(c.proof)
}

pub proof fn lemma_enc_scalars_len(s: Seq<Scalar>)
    ensures enc_scalars(s).len() == 32 * s.len(),
    decreases s.len(),
{
    broadcast use ax_sc_len;
    if s.len() > 0 {
        lemma_enc_scalars_len(s.drop_last());
    }
}

pub proof fn lemma_enc_scalars_push(s: Seq<Scalar>, x: Scalar)
    ensures enc_scalars(s.push(x)) == enc_scalars(s) + sc_enc(x),
{
    assert(s.push(x).drop_last() == s);
}

// ---- decoding relations: "octet string b is the (strict) encoding of object x" -------------------
// Written from the drafts' octets_to_signature / octets_to_proof / octets_to_pubkey: exact length,
// valid subgroup points, canonical scalars, and the forbidden values (identity pk / A / Abar,Bbar,D;
// e = 0).  Decoders are verified against these relations; canonicity, round trip and injectivity
// are then lemmas over the relations (lemmas/C09_codec.rs).

pub open spec fn chunk32(b: Seq<u8>, j: int) -> Seq<u8> {
    b.subrange(32 * j, 32 * j + 32)
}

/// b (length 32*n) is the concatenation of the canonical encodings of s[0..n)
pub open spec fn scalars_decode(b: Seq<u8>, s: Seq<Scalar>) -> bool {
    &&& b.len() == 32 * s.len()
    &&& forall|j: int| 0 <= j < s.len() ==> sc_dec(#[trigger] chunk32(b, j)) == Some(s[j])
}

pub open spec fn pk_decodes(b: Seq<u8>, x: BBSplusPublicKey) -> bool {
    &&& b.len() == 96
    &&& g2_dec(b) == Some(x.0)
    &&& x.0 != g2_zero()
}

pub open spec fn pk_unc_decodes(b: Seq<u8>, x: BBSplusPublicKey) -> bool {
    &&& b.len() == 192
    &&& g2_dec_unc(b) == Some(x.0)
    &&& x.0 != g2_zero()
}

pub open spec fn sig_decodes(b: Seq<u8>, x: BBSplusSignature) -> bool {
    &&& b.len() == 80
    &&& g1_dec(b.subrange(0, 48)) == Some(x.A)
    &&& sc_dec(b.subrange(48, 80)) == Some(x.e)
    &&& x.A != g1_zero()
    &&& x.e != s_zero()
}

pub open spec fn proof_decodes(b: Seq<u8>, x: BBSplusPoKSignature) -> bool {
    &&& b.len() == 272 + 32 * x.m_cap@.len()
    &&& g1_dec(b.subrange(0, 48)) == Some(x.Abar)
    &&& g1_dec(b.subrange(48, 96)) == Some(x.Bbar)
    &&& g1_dec(b.subrange(96, 144)) == Some(x.D)
    &&& sc_dec(b.subrange(144, 176)) == Some(x.e_cap)
    &&& sc_dec(b.subrange(176, 208)) == Some(x.r1_cap)
    &&& sc_dec(b.subrange(208, 240)) == Some(x.r3_cap)
    &&& scalars_decode(b.subrange(240, b.len() as int), x.m_cap@.push(x.challenge))
    &&& x.Abar != g1_zero()
    &&& x.Bbar != g1_zero()
    &&& x.D != g1_zero()
}

pub open spec fn zkpok_decodes(b: Seq<u8>, x: BBSplusZKPoK) -> bool {
    &&& b.len() == 64 + 32 * x.m_cap@.len()
    &&& sc_dec(b.subrange(0, 32)) == Some(x.s_cap)
    &&& scalars_decode(b.subrange(32, b.len() as int), x.m_cap@.push(x.challenge))
}

pub open spec fn commitment_decodes(b: Seq<u8>, x: BBSplusCommitment) -> bool {
    &&& b.len() >= 48
    &&& g1_dec(b.subrange(0, 48)) == Some(x.commitment)
    &&& zkpok_decodes(b.subrange(48, b.len() as int), x.proof)
}
