// cl_algebra — congruences modulo n and the exponent algebra of Schnorr-style responses (used by the completeness
// contracts of the CL03 sigma protocols and of the Boudot range proof).  Everything is derived from the A-rug laws.
use vstd::arithmetic::div_mod::{lemma_mul_mod_noop_general, lemma_mod_twice};

/// x == y (mod n)
pub open spec fn cong(x: int, y: int, n: int) -> bool { x % n == y % n }

pub proof fn lemma_cong_mul(x: int, x2: int, y: int, y2: int, n: int)
    requires n > 0, cong(x, x2, n), cong(y, y2, n),
    ensures cong(x * y, x2 * y2, n),
{
    lemma_mul_mod_noop_general(x, y, n);
    lemma_mul_mod_noop_general(x2, y2, n);
}

pub proof fn lemma_cong_mod(x: int, n: int)
    requires n > 0,
    ensures cong(x % n, x, n),
{
    lemma_mod_twice(x, n);
}

pub proof fn lemma_cong_trans(x: int, y: int, z: int, n: int)
    requires cong(x, y, n), cong(y, z, n),
    ensures cong(x, z, n),
{}

/// g^(r + c*m) == g^r * (g^m)^c (mod n)   (exponents >= 0, or g invertible)
pub proof fn lemma_resp_pow(g: int, r: int, c: int, m: int, n: int)
    requires n > 0, (r >= 0 && c >= 0 && m >= 0) || invertible(g, n),
    ensures cong(pow_mod(g, r + c * m, n), pow_mod(g, r, n) * pow_mod(pow_mod(g, m, n), c, n), n),
{
    assert(c * m >= 0 || invertible(g, n)) by (nonlinear_arith) requires (c >= 0 && m >= 0) || invertible(g, n);
    ax_pow_mod_add(g, r, c * m, n);
    ax_pow_mod_mul(g, m, c, n);
    assert(m * c == c * m) by (nonlinear_arith);
    lemma_cong_mod(pow_mod(g, r, n) * pow_mod(g, c * m, n), n);
}

/// (a*b % n)^c == a^c * b^c (mod n)
pub proof fn lemma_pow_of_commit(a: int, b: int, c: int, n: int)
    requires n > 0, c >= 0 || (invertible(a, n) && invertible(b, n)),
    ensures cong(pow_mod((a * b) % n, c, n), pow_mod(a, c, n) * pow_mod(b, c, n), n),
{
    ax_pow_mod_base_mod(a * b, c, n);
    ax_pow_mod_prod(a, b, c, n);
    lemma_cong_mod(pow_mod(a, c, n) * pow_mod(b, c, n), n);
}

/// the two-secret Schnorr identity:  g^(r1 + c m) * h^(r2 + c r)  ==  (g^r1 h^r2 % n) * ((g^m h^r % n)^c)   (mod n)
pub proof fn lemma_two_secret_response(g: int, h: int, m: int, r: int, r1: int, r2: int, c: int, n: int)
    requires n > 0, (m >= 0 && r >= 0 && r1 >= 0 && r2 >= 0 && c >= 0) || (invertible(g, n) && invertible(h, n)),
    ensures
        cong(pow_mod(g, r1 + c * m, n) * pow_mod(h, r2 + c * r, n),
             ((pow_mod(g, r1, n) * pow_mod(h, r2, n)) % n) * pow_mod((pow_mod(g, m, n) * pow_mod(h, r, n)) % n, c, n), n),
{
    let (gr1, hr2, gm, hr) = (pow_mod(g, r1, n), pow_mod(h, r2, n), pow_mod(g, m, n), pow_mod(h, r, n));
    let (gmc, hrc) = (pow_mod(gm, c, n), pow_mod(hr, c, n));
    lemma_resp_pow(g, r1, c, m, n);
    lemma_resp_pow(h, r2, c, r, n);
    // lhs == (gr1 * gmc) * (hr2 * hrc)
    lemma_cong_mul(pow_mod(g, r1 + c * m, n), gr1 * gmc, pow_mod(h, r2 + c * r, n), hr2 * hrc, n);
    // C^c == gmc * hrc
    if !(c >= 0) {
        ax_gcd_pow_mod(g, m, n);
        ax_gcd_pow_mod(h, r, n);
    }
    lemma_pow_of_commit(gm, hr, c, n);
    lemma_cong_mod(gr1 * hr2, n);
    lemma_cong_mul((gr1 * hr2) % n, gr1 * hr2, pow_mod((gm * hr) % n, c, n), gmc * hrc, n);
    assert((gr1 * gmc) * (hr2 * hrc) == (gr1 * hr2) * (gmc * hrc)) by (nonlinear_arith);
}

/// multi-base responses:  prod a_{i_t}^{r1_t + c m_{i_t}}  ==  prod a_{i_t}^{r1_t} * (prod a_{i_t}^{m_{i_t}})^c   (mod n), c >= 0
pub proof fn lemma_multi_response(bases: Seq<Integer>, msgs: Seq<CL03Message>, idx: Seq<usize>, r1: Seq<Integer>, s1: Seq<Integer>, c: int, n: int, k: int)
    requires
        n > 0, c >= 0, 0 <= k <= idx.len(), k <= r1.len(), k <= s1.len(),
        forall|t: int| 0 <= t < k ==> (#[trigger] s1[t])@ == r1[t]@ + c * msgs[idx[t] as int].value@,
        forall|t: int| 0 <= t < k ==> r1[t]@ >= 0,
        forall|t: int| 0 <= t < k ==> (msgs[idx[t] as int].value@ >= 0 || invertible(#[trigger] bases[idx[t] as int]@, n)),
    ensures
        cong(resp_prod(bases, s1, idx, n, k), resp_prod(bases, r1, idx, n, k) * pow_mod(multi_prod(bases, msgs, idx, n, k), c, n), n),
    decreases k,
{
    if k <= 0 {
        lemma_one_pow(c, n);
        lemma_cong_mod(1, n);
        assert(resp_prod(bases, s1, idx, n, k) == 1);
        assert(resp_prod(bases, r1, idx, n, k) * pow_mod(multi_prod(bases, msgs, idx, n, k), c, n) == 1int % n);
    } else {
        lemma_multi_response(bases, msgs, idx, r1, s1, c, n, k - 1);
        let a = bases[idx[k - 1] as int]@;
        let m = msgs[idx[k - 1] as int].value@;
        let (ps, pr, mp) = (resp_prod(bases, s1, idx, n, k - 1), resp_prod(bases, r1, idx, n, k - 1), multi_prod(bases, msgs, idx, n, k - 1));
        let f = pow_mod(a, m, n);
        let (mpc, fc, ar, as_) = (pow_mod(mp, c, n), pow_mod(f, c, n), pow_mod(a, r1[k - 1]@, n), pow_mod(a, s1[k - 1]@, n));
        assert(s1[k - 1]@ == r1[k - 1]@ + c * m);
        assert(resp_prod(bases, s1, idx, n, k) == ps * as_);
        assert(resp_prod(bases, r1, idx, n, k) == pr * ar);
        assert(multi_prod(bases, msgs, idx, n, k) == mp * f);
        lemma_resp_pow(a, r1[k - 1]@, c, m, n);
        assert(cong(as_, ar * fc, n));
        lemma_cong_mul(ps, pr * mpc, as_, ar * fc, n);
        assert((pr * mpc) * (ar * fc) == (pr * ar) * (mpc * fc)) by (nonlinear_arith);
        ax_pow_mod_prod(mp, f, c, n);
        lemma_cong_mod(mpc * fc, n);
        assert(cong(mpc * fc, pow_mod(mp * f, c, n), n));
        lemma_cong_mul(pr * ar, pr * ar, mpc * fc, pow_mod(mp * f, c, n), n);
    }
}

/// 1^c == 1 (mod n)
pub proof fn lemma_one_pow(c: int, n: int)
    requires n > 0, c >= 0,
    ensures pow_mod(1, c, n) == 1int % n,
    decreases c,
{
    ax_pow_mod_one(1, n);
    if c > 0 {
        lemma_one_pow(c - 1, n);
        ax_pow_mod_add(1, c - 1, 1, n);
        lemma_mul_mod_noop_general(1, 1, n);
    }
}

/// multi-secret Schnorr identity: (prod a^{s1} * b^{s2})  ==  t * C^c  with t = prod a^{r1} * b^{r2} % n, C = prod a^{m} * b^{r} % n
pub proof fn lemma_multi_secret_response(bases: Seq<Integer>, msgs: Seq<CL03Message>, idx: Seq<usize>, r1: Seq<Integer>, s1: Seq<Integer>, b: int, r: int, r2: int, c: int, n: int)
    requires
        n > 0, c >= 0, r2 >= 0, r >= 0 || invertible(b, n), idx.len() == r1.len(), idx.len() == s1.len(),
        forall|t: int| 0 <= t < idx.len() ==> (#[trigger] s1[t])@ == r1[t]@ + c * msgs[idx[t] as int].value@,
        forall|t: int| 0 <= t < idx.len() ==> r1[t]@ >= 0,
        forall|t: int| 0 <= t < idx.len() ==> (msgs[idx[t] as int].value@ >= 0 || invertible(#[trigger] bases[idx[t] as int]@, n)),
    ensures ({
        let k = idx.len() as int;
        let t = (resp_prod(bases, r1, idx, n, k) * pow_mod(b, r2, n)) % n;
        let cv = (multi_prod(bases, msgs, idx, n, k) * pow_mod(b, r, n)) % n;
        cong(resp_prod(bases, s1, idx, n, k) * pow_mod(b, r2 + c * r, n), t * pow_mod(cv, c, n), n)
    }),
{
    let k = idx.len() as int;
    let (ps, pr, mp) = (resp_prod(bases, s1, idx, n, k), resp_prod(bases, r1, idx, n, k), multi_prod(bases, msgs, idx, n, k));
    let (br2, br) = (pow_mod(b, r2, n), pow_mod(b, r, n));
    let (mpc, brc) = (pow_mod(mp, c, n), pow_mod(br, c, n));
    lemma_multi_response(bases, msgs, idx, r1, s1, c, n, k);
    lemma_resp_pow(b, r2, c, r, n);
    lemma_cong_mul(ps, pr * mpc, pow_mod(b, r2 + c * r, n), br2 * brc, n);
    lemma_pow_of_commit(mp, br, c, n);
    lemma_cong_mod(pr * br2, n);
    lemma_cong_mul((pr * br2) % n, pr * br2, pow_mod((mp * br) % n, c, n), mpc * brc, n);
    assert((pr * mpc) * (br2 * brc) == (pr * br2) * (mpc * brc)) by (nonlinear_arith);
}

/// x^(-c) * x^c == 1 (mod n) for a unit x
pub proof fn lemma_inverse_cancel(x: int, c: int, n: int)
    requires invertible(x, n),
    ensures cong(pow_mod(x, -1 * c, n) * pow_mod(x, c, n), 1, n),
{
    ax_pow_mod_add(x, -1 * c, c, n);
    ax_pow_mod_one(x, n);
    lemma_cong_mod(pow_mod(x, -1 * c, n) * pow_mod(x, c, n), n);
    lemma_cong_mod(1, n);
}

/// verifier's recomputation in the "same secrets" protocols:  prod a^{d} * b^{mu + c r} * C^{-c}  ==  prod a^{omega} * b^{mu}  (mod n)
/// when C = prod a^{m} * b^{r} % n is a unit and d_t = omega_t + c m_t
pub proof fn lemma_same_secret_side(bases: Seq<Integer>, msgs: Seq<CL03Message>, idx: Seq<usize>, omega: Seq<Integer>, d: Seq<Integer>, b: int, r: int, mu: int, c: int, cv: int, n: int)
    requires
        n > 0, c >= 0, mu >= 0, r >= 0 || invertible(b, n), idx.len() == omega.len(), idx.len() == d.len(),
        forall|t: int| 0 <= t < idx.len() ==> (#[trigger] d[t])@ == omega[t]@ + c * msgs[idx[t] as int].value@,
        forall|t: int| 0 <= t < idx.len() ==> omega[t]@ >= 0,
        forall|t: int| 0 <= t < idx.len() ==> (msgs[idx[t] as int].value@ >= 0 || invertible(#[trigger] bases[idx[t] as int]@, n)),
        cv == (multi_prod(bases, msgs, idx, n, idx.len() as int) * pow_mod(b, r, n)) % n,
        invertible(cv, n),
    ensures
        ((resp_prod(bases, d, idx, n, idx.len() as int) * pow_mod(b, mu + c * r, n)) * pow_mod(cv, -1 * c, n)) % n
            == (resp_prod(bases, omega, idx, n, idx.len() as int) * pow_mod(b, mu, n)) % n,
{
    let k = idx.len() as int;
    let lhs0 = resp_prod(bases, d, idx, n, k) * pow_mod(b, mu + c * r, n);
    let w = (resp_prod(bases, omega, idx, n, k) * pow_mod(b, mu, n)) % n;
    let (cc, ci) = (pow_mod(cv, c, n), pow_mod(cv, -1 * c, n));
    lemma_multi_secret_response(bases, msgs, idx, omega, d, b, r, mu, c, n);
    assert(cong(lhs0, w * cc, n));
    lemma_cong_mul(lhs0, w * cc, ci, ci, n);
    lemma_inverse_cancel(cv, c, n);
    lemma_cong_mul(w, w, ci * cc, 1, n);
    assert((w * cc) * ci == w * (ci * cc)) by (nonlinear_arith);
    assert(w * 1 == w);
    lemma_cong_mod(resp_prod(bases, omega, idx, n, k) * pow_mod(b, mu, n), n);
}
