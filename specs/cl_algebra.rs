// cl_algebra — congruences modulo n and the exponent algebra of Schnorr-style responses (used by the completeness
// contracts of the CL03 sigma protocols and of the Boudot range proof).  Everything is derived from the A-rug laws.
use vstd::arithmetic::div_mod::{lemma_mul_mod_noop_general, lemma_mod_twice};

/// x == y (mod n)
pub open spec fn cong(x: int, y: int, n: int) -> bool { x % n == y % n }

pub proof fn lemma_cong_mul(x: int, x2: int, y: int, y2: int, n: int)
    requires n > 0, cong(x, x2, n), cong(y, y2, n),
    ensures cong(x * y, x2 * y2, n),
{
    lemma_mul_mod_noop_general(x, y, n);
    lemma_mul_mod_noop_general(x2, y2, n);
}

pub proof fn lemma_cong_mod(x: int, n: int)
    requires n > 0,
    ensures cong(x % n, x, n),
{
    lemma_mod_twice(x, n);
}

pub proof fn lemma_cong_trans(x: int, y: int, z: int, n: int)
    requires cong(x, y, n), cong(y, z, n),
    ensures cong(x, z, n),
{}

/// g^(r + c*m) == g^r * (g^m)^c (mod n)   (exponents >= 0, or g invertible)
pub proof fn lemma_resp_pow(g: int, r: int, c: int, m: int, n: int)
    requires n > 0, (r >= 0 && c >= 0 && m >= 0) || invertible(g, n),
    ensures cong(pow_mod(g, r + c * m, n), pow_mod(g, r, n) * pow_mod(pow_mod(g, m, n), c, n), n),
{
    assert(c * m >= 0 || invertible(g, n)) by (nonlinear_arith) requires (c >= 0 && m >= 0) || invertible(g, n);
    ax_pow_mod_add(g, r, c * m, n);
    ax_pow_mod_mul(g, m, c, n);
    assert(m * c == c * m) by (nonlinear_arith);
    lemma_cong_mod(pow_mod(g, r, n) * pow_mod(g, c * m, n), n);
}

/// (a*b % n)^c == a^c * b^c (mod n)
pub proof fn lemma_pow_of_commit(a: int, b: int, c: int, n: int)
    requires n > 0, c >= 0 || (invertible(a, n) && invertible(b, n)),
    ensures cong(pow_mod((a * b) % n, c, n), pow_mod(a, c, n) * pow_mod(b, c, n), n),
{
    ax_pow_mod_base_mod(a * b, c, n);
    ax_pow_mod_prod(a, b, c, n);
    lemma_cong_mod(pow_mod(a, c, n) * pow_mod(b, c, n), n);
}

/// the two-secret Schnorr identity:  g^(r1 + c m) * h^(r2 + c r)  ==  (g^r1 h^r2 % n) * ((g^m h^r % n)^c)   (mod n)
pub proof fn lemma_two_secret_response(g: int, h: int, m: int, r: int, r1: int, r2: int, c: int, n: int)
    requires n > 0, (m >= 0 && r >= 0 && r1 >= 0 && r2 >= 0 && c >= 0) || (invertible(g, n) && invertible(h, n)),
    ensures
        cong(pow_mod(g, r1 + c * m, n) * pow_mod(h, r2 + c * r, n),
             ((pow_mod(g, r1, n) * pow_mod(h, r2, n)) % n) * pow_mod((pow_mod(g, m, n) * pow_mod(h, r, n)) % n, c, n), n),
{
    let (gr1, hr2, gm, hr) = (pow_mod(g, r1, n), pow_mod(h, r2, n), pow_mod(g, m, n), pow_mod(h, r, n));
    let (gmc, hrc) = (pow_mod(gm, c, n), pow_mod(hr, c, n));
    lemma_resp_pow(g, r1, c, m, n);
    lemma_resp_pow(h, r2, c, r, n);
    // lhs == (gr1 * gmc) * (hr2 * hrc)
    lemma_cong_mul(pow_mod(g, r1 + c * m, n), gr1 * gmc, pow_mod(h, r2 + c * r, n), hr2 * hrc, n);
    // C^c == gmc * hrc
    if !(c >= 0) {
        ax_gcd_pow_mod(g, m, n);
        ax_gcd_pow_mod(h, r, n);
    }
    lemma_pow_of_commit(gm, hr, c, n);
    lemma_cong_mod(gr1 * hr2, n);
    lemma_cong_mul((gr1 * hr2) % n, gr1 * hr2, pow_mod((gm * hr) % n, c, n), gmc * hrc, n);
    assert((gr1 * gmc) * (hr2 * hrc) == (gr1 * hr2) * (gmc * hrc)) by (nonlinear_arith);
}

/// multi-base responses:  prod a_{i_t}^{r1_t + c m_{i_t}}  ==  prod a_{i_t}^{r1_t} * (prod a_{i_t}^{m_{i_t}})^c   (mod n), c >= 0
pub proof fn lemma_multi_response(bases: Seq<Integer>, msgs: Seq<CL03Message>, idx: Seq<usize>, r1: Seq<Integer>, s1: Seq<Integer>, c: int, n: int, k: int)
    requires
        n > 0, c >= 0, 0 <= k <= idx.len(), k <= r1.len(), k <= s1.len(),
        forall|t: int| 0 <= t < k ==> (#[trigger] s1[t])@ == r1[t]@ + c * msgs[idx[t] as int].value@,
        forall|t: int| 0 <= t < k ==> r1[t]@ >= 0,
        forall|t: int| 0 <= t < k ==> (msgs[idx[t] as int].value@ >= 0 || invertible(#[trigger] bases[idx[t] as int]@, n)),
    ensures
        cong(resp_prod(bases, s1, idx, n, k), resp_prod(bases, r1, idx, n, k) * pow_mod(multi_prod(bases, msgs, idx, n, k), c, n), n),
    decreases k,
{
    if k <= 0 {
        lemma_one_pow(c, n);
        lemma_cong_mod(1, n);
        assert(resp_prod(bases, s1, idx, n, k) == 1);
        assert(resp_prod(bases, r1, idx, n, k) * pow_mod(multi_prod(bases, msgs, idx, n, k), c, n) == 1int % n);
    } else {
        lemma_multi_response(bases, msgs, idx, r1, s1, c, n, k - 1);
        let a = bases[idx[k - 1] as int]@;
        let m = msgs[idx[k - 1] as int].value@;
        let (ps, pr, mp) = (resp_prod(bases, s1, idx, n, k - 1), resp_prod(bases, r1, idx, n, k - 1), multi_prod(bases, msgs, idx, n, k - 1));
        let f = pow_mod(a, m, n);
        let (mpc, fc, ar, as_) = (pow_mod(mp, c, n), pow_mod(f, c, n), pow_mod(a, r1[k - 1]@, n), pow_mod(a, s1[k - 1]@, n));
        assert(s1[k - 1]@ == r1[k - 1]@ + c * m);
        assert(resp_prod(bases, s1, idx, n, k) == ps * as_);
        assert(resp_prod(bases, r1, idx, n, k) == pr * ar);
        assert(multi_prod(bases, msgs, idx, n, k) == mp * f);
        lemma_resp_pow(a, r1[k - 1]@, c, m, n);
        assert(cong(as_, ar * fc, n));
        lemma_cong_mul(ps, pr * mpc, as_, ar * fc, n);
        assert((pr * mpc) * (ar * fc) == (pr * ar) * (mpc * fc)) by (nonlinear_arith);
        ax_pow_mod_prod(mp, f, c, n);
        lemma_cong_mod(mpc * fc, n);
        assert(cong(mpc * fc, pow_mod(mp * f, c, n), n));
        lemma_cong_mul(pr * ar, pr * ar, mpc * fc, pow_mod(mp * f, c, n), n);
    }
}

/// 1^c == 1 (mod n)
pub proof fn lemma_one_pow(c: int, n: int)
    requires n > 0, c >= 0,
    ensures pow_mod(1, c, n) == 1int % n,
    decreases c,
{
    ax_pow_mod_one(1, n);
    if c > 0 {
        lemma_one_pow(c - 1, n);
        ax_pow_mod_add(1, c - 1, 1, n);
        lemma_mul_mod_noop_general(1, 1, n);
    }
}

/// multi-secret Schnorr identity: (prod a^{s1} * b^{s2})  ==  t * C^c  with t = prod a^{r1} * b^{r2} % n, C = prod a^{m} * b^{r} % n
pub proof fn lemma_multi_secret_response(bases: Seq<Integer>, msgs: Seq<CL03Message>, idx: Seq<usize>, r1: Seq<Integer>, s1: Seq<Integer>, b: int, r: int, r2: int, c: int, n: int)
    requires
        n > 0, c >= 0, r2 >= 0, r >= 0 || invertible(b, n), idx.len() == r1.len(), idx.len() == s1.len(),
        forall|t: int| 0 <= t < idx.len() ==> (#[trigger] s1[t])@ == r1[t]@ + c * msgs[idx[t] as int].value@,
        forall|t: int| 0 <= t < idx.len() ==> r1[t]@ >= 0,
        forall|t: int| 0 <= t < idx.len() ==> (msgs[idx[t] as int].value@ >= 0 || invertible(#[trigger] bases[idx[t] as int]@, n)),
    ensures ({
        let k = idx.len() as int;
        let t = (resp_prod(bases, r1, idx, n, k) * pow_mod(b, r2, n)) % n;
        let cv = (multi_prod(bases, msgs, idx, n, k) * pow_mod(b, r, n)) % n;
        cong(resp_prod(bases, s1, idx, n, k) * pow_mod(b, r2 + c * r, n), t * pow_mod(cv, c, n), n)
    }),
{
    let k = idx.len() as int;
    let (ps, pr, mp) = (resp_prod(bases, s1, idx, n, k), resp_prod(bases, r1, idx, n, k), multi_prod(bases, msgs, idx, n, k));
    let (br2, br) = (pow_mod(b, r2, n), pow_mod(b, r, n));
    let (mpc, brc) = (pow_mod(mp, c, n), pow_mod(br, c, n));
    lemma_multi_response(bases, msgs, idx, r1, s1, c, n, k);
    lemma_resp_pow(b, r2, c, r, n);
    lemma_cong_mul(ps, pr * mpc, pow_mod(b, r2 + c * r, n), br2 * brc, n);
    lemma_pow_of_commit(mp, br, c, n);
    lemma_cong_mod(pr * br2, n);
    lemma_cong_mul((pr * br2) % n, pr * br2, pow_mod((mp * br) % n, c, n), mpc * brc, n);
    assert((pr * mpc) * (br2 * brc) == (pr * br2) * (mpc * brc)) by (nonlinear_arith);
}

/// x^(-c) * x^c == 1 (mod n) for a unit x
pub proof fn lemma_inverse_cancel(x: int, c: int, n: int)
    requires invertible(x, n),
    ensures cong(pow_mod(x, -1 * c, n) * pow_mod(x, c, n), 1, n),
{
    ax_pow_mod_add(x, -1 * c, c, n);
    ax_pow_mod_one(x, n);
    lemma_cong_mod(pow_mod(x, -1 * c, n) * pow_mod(x, c, n), n);
    lemma_cong_mod(1, n);
}

/// verifier's recomputation in the "same secrets" protocols:  prod a^{d} * b^{mu + c r} * C^{-c}  ==  prod a^{omega} * b^{mu}  (mod n)
/// when C = prod a^{m} * b^{r} % n is a unit and d_t = omega_t + c m_t
pub proof fn lemma_same_secret_side(bases: Seq<Integer>, msgs: Seq<CL03Message>, idx: Seq<usize>, omega: Seq<Integer>, d: Seq<Integer>, b: int, r: int, mu: int, c: int, cv: int, n: int)
    requires
        n > 0, c >= 0, mu >= 0, r >= 0 || invertible(b, n), idx.len() == omega.len(), idx.len() == d.len(),
        forall|t: int| 0 <= t < idx.len() ==> (#[trigger] d[t])@ == omega[t]@ + c * msgs[idx[t] as int].value@,
        forall|t: int| 0 <= t < idx.len() ==> omega[t]@ >= 0,
        forall|t: int| 0 <= t < idx.len() ==> (msgs[idx[t] as int].value@ >= 0 || invertible(#[trigger] bases[idx[t] as int]@, n)),
        cv == (multi_prod(bases, msgs, idx, n, idx.len() as int) * pow_mod(b, r, n)) % n,
        invertible(cv, n),
    ensures
        ((resp_prod(bases, d, idx, n, idx.len() as int) * pow_mod(b, mu + c * r, n)) * pow_mod(cv, -1 * c, n)) % n
            == (resp_prod(bases, omega, idx, n, idx.len() as int) * pow_mod(b, mu, n)) % n,
{
    let k = idx.len() as int;
    let lhs0 = resp_prod(bases, d, idx, n, k) * pow_mod(b, mu + c * r, n);
    let w = (resp_prod(bases, omega, idx, n, k) * pow_mod(b, mu, n)) % n;
    let (cc, ci) = (pow_mod(cv, c, n), pow_mod(cv, -1 * c, n));
    lemma_multi_secret_response(bases, msgs, idx, omega, d, b, r, mu, c, n);
    assert(cong(lhs0, w * cc, n));
    lemma_cong_mul(lhs0, w * cc, ci, ci, n);
    lemma_inverse_cancel(cv, c, n);
    lemma_cong_mul(w, w, ci * cc, 1, n);
    assert((w * cc) * ci == w * (ci * cc)) by (nonlinear_arith);
    assert(w * 1 == w);
    lemma_cong_mod(resp_prod(bases, omega, idx, n, k) * pow_mod(b, mu, n), n);
}

/// verifier's recomputation in the single-base "same secret" / "larger interval" protocols:
///   g^(omega + c x) * h^(mu + c r) * e^(-c)  ==  g^omega * h^mu   (mod n, both sides reduced)   when e == g^x h^r (mod n) is a unit
pub proof fn lemma_ss_side(g: int, h: int, x: int, r: int, omega: int, mu: int, c: int, e: int, n: int)
    requires
        n > 0, invertible(g, n), invertible(h, n), invertible(e, n),
        cong(e, pow_mod(g, x, n) * pow_mod(h, r, n), n),
    ensures
        (pow_mod(g, omega + c * x, n) * pow_mod(h, mu + c * r, n) * pow_mod(e, -1 * c, n)) % n == (pow_mod(g, omega, n) * pow_mod(h, mu, n)) % n,
{
    let cv = (pow_mod(g, x, n) * pow_mod(h, r, n)) % n;
    let w = (pow_mod(g, omega, n) * pow_mod(h, mu, n)) % n;
    let lhs0 = pow_mod(g, omega + c * x, n) * pow_mod(h, mu + c * r, n);
    assert(e % n == cv);
    ax_pow_mod_base_mod(e, -1 * c, n);
    lemma_mod_twice(pow_mod(g, x, n) * pow_mod(h, r, n), n);
    ax_pow_mod_base_mod(cv, -1 * c, n);
    assert(pow_mod(e, -1 * c, n) == pow_mod(cv, -1 * c, n));
    ax_gcd_mod(e, n);
    assert(invertible(cv, n));
    let (cc, ci) = (pow_mod(cv, c, n), pow_mod(cv, -1 * c, n));
    lemma_two_secret_response(g, h, x, r, omega, mu, c, n);
    assert(cong(lhs0, w * cc, n));
    lemma_cong_mul(lhs0, w * cc, ci, ci, n);
    lemma_inverse_cancel(cv, c, n);
    lemma_cong_mul(w, w, ci * cc, 1, n);
    assert((w * cc) * ci == w * (ci * cc)) by (nonlinear_arith);
    assert(w * 1 == w);
    lemma_cong_mod(pow_mod(g, omega, n) * pow_mod(h, mu, n), n);
    lemma_mod_twice(pow_mod(g, omega, n) * pow_mod(h, mu, n), n);
}

/// F = g^x h^{r2} % n;  F^x * h^(r1 - r2 x)  ==  g^(x x) * h^(r1)   (mod n)      (proof of square: E = F^x h^{r3})
pub proof fn lemma_square_commit(g: int, h: int, x: int, r1: int, r2: int, n: int)
    requires n > 0, invertible(g, n), invertible(h, n),
    ensures
        cong(pow_mod((pow_mod(g, x, n) * pow_mod(h, r2, n)) % n, x, n) * pow_mod(h, r1 - r2 * x, n), pow_mod(g, x * x, n) * pow_mod(h, r1, n), n),
{
    let (gx, hr2) = (pow_mod(g, x, n), pow_mod(h, r2, n));
    ax_gcd_pow_mod(g, x, n);
    ax_gcd_pow_mod(h, r2, n);
    lemma_pow_of_commit(gx, hr2, x, n);
    ax_pow_mod_mul(g, x, x, n);
    ax_pow_mod_mul(h, r2, x, n);
    // h^(r2 x) * h^(r1 - r2 x) == h^r1
    ax_pow_mod_add(h, r2 * x, r1 - r2 * x, n);
    assert(r2 * x + (r1 - r2 * x) == r1);
    let (gxx, hr2x, hr3, hr1) = (pow_mod(g, x * x, n), pow_mod(h, r2 * x, n), pow_mod(h, r1 - r2 * x, n), pow_mod(h, r1, n));
    lemma_cong_mod(hr2x * hr3, n);
    assert(cong(hr2x * hr3, hr1, n));
    // F^x * h^r3 == (gxx * hr2x) * hr3 == gxx * (hr2x * hr3) == gxx * hr1
    lemma_cong_mul(pow_mod((gx * hr2) % n, x, n), gxx * hr2x, hr3, hr3, n);
    assert((gxx * hr2x) * hr3 == gxx * (hr2x * hr3)) by (nonlinear_arith);
    lemma_cong_mul(gxx, gxx, hr2x * hr3, hr1, n);
}

/// a commitment g^x h^r % n with unit bases is a unit
pub proof fn lemma_commit_unit(g: int, h: int, x: int, r: int, n: int)
    requires n > 0, invertible(g, n), invertible(h, n),
    ensures invertible((pow_mod(g, x, n) * pow_mod(h, r, n)) % n, n),
{
    ax_gcd_pow_mod(g, x, n);
    ax_gcd_pow_mod(h, r, n);
    ax_gcd_mul(pow_mod(g, x, n), pow_mod(h, r, n), n);
    ax_gcd_mod(pow_mod(g, x, n) * pow_mod(h, r, n), n);
}

/// (g^x1 h^r1 % n) * (g^x2 h^r2 % n)  ==  g^(x1+x2) * h^(r1+r2)   (mod n)
pub proof fn lemma_commit_mul(g: int, h: int, x1: int, r1: int, x2: int, r2: int, n: int)
    requires n > 0, invertible(g, n), invertible(h, n),
    ensures cong(((pow_mod(g, x1, n) * pow_mod(h, r1, n)) % n) * ((pow_mod(g, x2, n) * pow_mod(h, r2, n)) % n), pow_mod(g, x1 + x2, n) * pow_mod(h, r1 + r2, n), n),
{
    let (a1, b1, a2, b2) = (pow_mod(g, x1, n), pow_mod(h, r1, n), pow_mod(g, x2, n), pow_mod(h, r2, n));
    lemma_cong_mod(a1 * b1, n);
    lemma_cong_mod(a2 * b2, n);
    lemma_cong_mul((a1 * b1) % n, a1 * b1, (a2 * b2) % n, a2 * b2, n);
    ax_pow_mod_add(g, x1, x2, n);
    ax_pow_mod_add(h, r1, r2, n);
    lemma_cong_mod(a1 * a2, n);
    lemma_cong_mod(b1 * b2, n);
    lemma_cong_mul(a1 * a2, pow_mod(g, x1 + x2, n), b1 * b2, pow_mod(h, r1 + r2, n), n);
    assert((a1 * b1) * (a2 * b2) == (a1 * a2) * (b1 * b2)) by (nonlinear_arith);
}

/// Boudot tolerance proof, side a:  with E_a_1 = g^{s} h^{ra1} % n, E_a_2 = g^{x2} h^{ra2} % n, s + x2 = x - aa, ra1 + ra2 = r and
/// e == g^x h^r (mod n):   E_a_2 == divm(divm(e, g^aa), E_a_1)
pub proof fn lemma_tol_side_a(g: int, h: int, x: int, r: int, aa: int, s: int, x2: int, ra1: int, ra2: int, e: int, n: int)
    requires
        n > 0, invertible(g, n), invertible(h, n), s + x2 == x - aa, ra1 + ra2 == r,
        cong(e, pow_mod(g, x, n) * pow_mod(h, r, n), n),
    ensures ({
        let e1 = (pow_mod(g, s, n) * pow_mod(h, ra1, n)) % n;
        let e2 = (pow_mod(g, x2, n) * pow_mod(h, ra2, n)) % n;
        e2 == divm_spec(divm_spec(e, pow_mod(g, aa, n), n), e1, n)
    }),
{
    let e1 = (pow_mod(g, s, n) * pow_mod(h, ra1, n)) % n;
    let e2 = (pow_mod(g, x2, n) * pow_mod(h, ra2, n)) % n;
    let pa = pow_mod(g, aa, n);
    let y = (e1 * e2) % n;
    ax_gcd_pow_mod(g, aa, n);
    lemma_commit_unit(g, h, s, ra1, n);
    // e1 * e2 == g^(x - aa) h^r ;  times g^aa == g^x h^r == e
    lemma_commit_mul(g, h, s, ra1, x2, ra2, n);
    let (gxa, hr) = (pow_mod(g, x - aa, n), pow_mod(h, r, n));
    lemma_cong_mod(e1 * e2, n);
    assert(cong(y, gxa * hr, n));
    lemma_cong_mul(y, gxa * hr, pa, pa, n);
    ax_pow_mod_add(g, x - aa, aa, n);
    assert((x - aa) + aa == x);
    lemma_cong_mod(gxa * pa, n);
    lemma_cong_mul(gxa * pa, pow_mod(g, x, n), hr, hr, n);
    assert((gxa * hr) * pa == (gxa * pa) * hr) by (nonlinear_arith);
    assert(cong(y * pa, e, n));
    ax_divm_unique(e, pa, n, y);
    // e2 * e1 == y == e_a (already reduced)
    let e_a = divm_spec(e, pa, n);
    assert((e2 * e1) % n == e_a % n) by {
        assert(e2 * e1 == e1 * e2) by (nonlinear_arith);
        lemma_mod_twice(e1 * e2, n);
    }
    ax_divm_unique(e_a, e1, n, e2);
}

/// side b:  E_b_1 = g^{s} h^{rb1} % n, E_b_2 = g^{x2} h^{rb2} % n, s + x2 = bb - x, rb1 + rb2 = -r:   E_b_2 == divm(divm(g^bb, e), E_b_1)
pub proof fn lemma_tol_side_b(g: int, h: int, x: int, r: int, bb: int, s: int, x2: int, rb1: int, rb2: int, e: int, n: int)
    requires
        n > 0, invertible(g, n), invertible(h, n), invertible(e, n), s + x2 == bb - x, rb1 + rb2 == -r,
        cong(e, pow_mod(g, x, n) * pow_mod(h, r, n), n),
    ensures ({
        let e1 = (pow_mod(g, s, n) * pow_mod(h, rb1, n)) % n;
        let e2 = (pow_mod(g, x2, n) * pow_mod(h, rb2, n)) % n;
        e2 == divm_spec(divm_spec(pow_mod(g, bb, n), e, n), e1, n)
    }),
{
    let e1 = (pow_mod(g, s, n) * pow_mod(h, rb1, n)) % n;
    let e2 = (pow_mod(g, x2, n) * pow_mod(h, rb2, n)) % n;
    let pb = pow_mod(g, bb, n);
    let y = (e1 * e2) % n;
    lemma_commit_unit(g, h, s, rb1, n);
    lemma_commit_mul(g, h, s, rb1, x2, rb2, n);
    let (gxb, hmr) = (pow_mod(g, bb - x, n), pow_mod(h, -r, n));
    lemma_cong_mod(e1 * e2, n);
    assert(cong(y, gxb * hmr, n));
    // y * e == g^(bb - x) h^(-r) * g^x h^r == g^bb
    let (gx, hr) = (pow_mod(g, x, n), pow_mod(h, r, n));
    lemma_cong_mul(y, gxb * hmr, e, gx * hr, n);
    ax_pow_mod_add(g, bb - x, x, n);
    assert((bb - x) + x == bb);
    ax_pow_mod_add(h, -r, r, n);
    assert(-r + r == 0);
    ax_pow_mod_one(h, n);
    lemma_cong_mod(gxb * gx, n);
    lemma_cong_mod(hmr * hr, n);
    lemma_cong_mod(1, n);
    lemma_cong_mul(gxb * gx, pb, hmr * hr, 1, n);
    assert((gxb * hmr) * (gx * hr) == (gxb * gx) * (hmr * hr)) by (nonlinear_arith);
    assert(pb * 1 == pb);
    assert(cong(y * e, pb, n));
    ax_divm_unique(pb, e, n, y);
    let e_b = divm_spec(pb, e, n);
    assert((e2 * e1) % n == e_b % n) by {
        assert(e2 * e1 == e1 * e2) by (nonlinear_arith);
        lemma_mod_twice(e1 * e2, n);
    }
    ax_divm_unique(e_b, e1, n, e2);
}

// ---- generic Schnorr completeness over a list of (base, rho, sigma) triples ---------------------------------------
/// prod_{j<k} B_j ^ x_j  (each factor reduced mod n, product not)
pub open spec fn pw_prod(bs: Seq<int>, xs: Seq<int>, n: int, k: int) -> int
    decreases k,
{
    if k <= 0 { 1 } else { pw_prod(bs, xs, n, k - 1) * pow_mod(bs[k - 1], xs[k - 1], n) }
}

/// prod B_j^(rho_j + c sigma_j)  ==  prod B_j^(rho_j) * (prod B_j^(sigma_j))^c   (mod n), all B_j units, c >= 0
pub proof fn lemma_pw_response(bs: Seq<int>, rho: Seq<int>, sigma: Seq<int>, xs: Seq<int>, c: int, n: int, k: int)
    requires
        n > 0, c >= 0, 0 <= k <= bs.len(), k <= rho.len(), k <= sigma.len(), k <= xs.len(),
        forall|j: int| 0 <= j < k ==> #[trigger] xs[j] == rho[j] + c * sigma[j],
        forall|j: int| 0 <= j < k ==> invertible(#[trigger] bs[j], n),
    ensures cong(pw_prod(bs, xs, n, k), pw_prod(bs, rho, n, k) * pow_mod(pw_prod(bs, sigma, n, k), c, n), n),
    decreases k,
{
    if k <= 0 {
        lemma_one_pow(c, n);
        lemma_cong_mod(1, n);
    } else {
        lemma_pw_response(bs, rho, sigma, xs, c, n, k - 1);
        let b = bs[k - 1];
        let (px, pr, ps) = (pw_prod(bs, xs, n, k - 1), pw_prod(bs, rho, n, k - 1), pw_prod(bs, sigma, n, k - 1));
        let f = pow_mod(b, sigma[k - 1], n);
        let (psc, fc, br, bx) = (pow_mod(ps, c, n), pow_mod(f, c, n), pow_mod(b, rho[k - 1], n), pow_mod(b, xs[k - 1], n));
        assert(xs[k - 1] == rho[k - 1] + c * sigma[k - 1]);
        lemma_resp_pow(b, rho[k - 1], c, sigma[k - 1], n);
        lemma_cong_mul(px, pr * psc, bx, br * fc, n);
        assert((pr * psc) * (br * fc) == (pr * br) * (psc * fc)) by (nonlinear_arith);
        ax_pow_mod_prod(ps, f, c, n);
        lemma_cong_mod(psc * fc, n);
        lemma_cong_mul(pr * br, pr * br, psc * fc, pow_mod(ps * f, c, n), n);
    }
}

/// a product of unit powers is a unit
pub proof fn lemma_pw_unit(bs: Seq<int>, xs: Seq<int>, n: int, k: int)
    requires n > 1, 0 <= k <= bs.len(), k <= xs.len(), forall|j: int| 0 <= j < k ==> invertible(#[trigger] bs[j], n),
    ensures igcd(pw_prod(bs, xs, n, k), n) == 1,
    decreases k,
{
    if k <= 0 {
        ax_gcd_one(n);
    } else {
        lemma_pw_unit(bs, xs, n, k - 1);
        ax_gcd_pow_mod(bs[k - 1], xs[k - 1], n);
        ax_gcd_mul(pw_prod(bs, xs, n, k - 1), pow_mod(bs[k - 1], xs[k - 1], n), n);
    }
}

/// verifier's recomputation, generic form:  (prod B_j^(rho_j + c sigma_j)) % n == (prod B_j^(rho_j)) % n   when prod B_j^(sigma_j) == 1 (mod n)
/// (a statement "y == prod B^sigma" is folded in as the extra triple (y, 0, -1))
pub proof fn lemma_pw_complete(bs: Seq<int>, rho: Seq<int>, sigma: Seq<int>, xs: Seq<int>, c: int, n: int)
    requires
        n > 0, c >= 0, bs.len() == rho.len(), bs.len() == sigma.len(), bs.len() == xs.len(),
        forall|j: int| 0 <= j < bs.len() ==> #[trigger] xs[j] == rho[j] + c * sigma[j],
        forall|j: int| 0 <= j < bs.len() ==> invertible(#[trigger] bs[j], n),
        cong(pw_prod(bs, sigma, n, bs.len() as int), 1, n),
    ensures pw_prod(bs, xs, n, bs.len() as int) % n == pw_prod(bs, rho, n, bs.len() as int) % n,
{
    let k = bs.len() as int;
    let (px, pr, ps) = (pw_prod(bs, xs, n, k), pw_prod(bs, rho, n, k), pw_prod(bs, sigma, n, k));
    lemma_pw_response(bs, rho, sigma, xs, c, n, k);
    // ps^c == (ps % n)^c == (1 % n)^c == 1^c == 1
    ax_pow_mod_base_mod(ps, c, n);
    ax_pow_mod_base_mod(1, c, n);
    lemma_one_pow(c, n);
    assert(pow_mod(ps, c, n) == 1int % n);
    lemma_cong_mod(1, n);
    lemma_cong_mul(pr, pr, pow_mod(ps, c, n), 1, n);
    assert(pr * 1 == pr);
}

/// int-sequence form of the "same secrets" side:  (prod B^(rs + c ms) * hb^(mu + c r)) * cv^(-c)  ==  prod B^(rs) * hb^(mu)   (mod n, reduced)
/// when cv == prod B^(ms) * hb^(r) % n is a unit
pub proof fn lemma_all_side(bs: Seq<int>, ms: Seq<int>, rs: Seq<int>, xs: Seq<int>, hb: int, r: int, mu: int, c: int, cv: int, n: int)
    requires
        n > 0, c >= 0, bs.len() == ms.len(), bs.len() == rs.len(), bs.len() == xs.len(),
        forall|j: int| 0 <= j < bs.len() ==> #[trigger] xs[j] == rs[j] + c * ms[j],
        forall|j: int| 0 <= j < bs.len() ==> invertible(#[trigger] bs[j], n),
        invertible(hb, n), invertible(cv, n),
        cv == (pw_prod(bs, ms, n, bs.len() as int) * pow_mod(hb, r, n)) % n,
    ensures
        ((pw_prod(bs, xs, n, bs.len() as int) * pow_mod(hb, mu + c * r, n)) * pow_mod(cv, -1 * c, n)) % n == (pw_prod(bs, rs, n, bs.len() as int) * pow_mod(hb, mu, n)) % n,
{
    let k = bs.len() as int;
    let (px, pr, pm) = (pw_prod(bs, xs, n, k), pw_prod(bs, rs, n, k), pw_prod(bs, ms, n, k));
    let (hmu, hr) = (pow_mod(hb, mu, n), pow_mod(hb, r, n));
    let (pmc, hrc) = (pow_mod(pm, c, n), pow_mod(hr, c, n));
    let (cc, ci) = (pow_mod(cv, c, n), pow_mod(cv, -1 * c, n));
    let w = (pr * hmu) % n;
    lemma_pw_response(bs, rs, ms, xs, c, n, k);
    lemma_resp_pow(hb, mu, c, r, n);
    lemma_cong_mul(px, pr * pmc, pow_mod(hb, mu + c * r, n), hmu * hrc, n);
    lemma_pow_of_commit(pm, hr, c, n);
    lemma_cong_mod(pr * hmu, n);
    lemma_cong_mul(w, pr * hmu, cc, pmc * hrc, n);
    assert((pr * pmc) * (hmu * hrc) == (pr * hmu) * (pmc * hrc)) by (nonlinear_arith);
    let lhs0 = px * pow_mod(hb, mu + c * r, n);
    assert(cong(lhs0, w * cc, n));
    lemma_cong_mul(lhs0, w * cc, ci, ci, n);
    lemma_inverse_cancel(cv, c, n);
    lemma_cong_mul(w, w, ci * cc, 1, n);
    assert((w * cc) * ci == w * (ci * cc)) by (nonlinear_arith);
    assert(w * 1 == w);
    lemma_mod_twice(pr * hmu, n);
}

/// the inverse computed by divm:  divm(1, x) == x^(-1), and its powers are negative powers of x
pub proof fn lemma_divm_inv(x: int, k: int, n: int)
    requires invertible(x, n),
    ensures divm_spec(1, x, n) == pow_mod(x, -1, n), pow_mod(divm_spec(1, x, n), k, n) == pow_mod(x, -1 * k, n),
{
    let y = pow_mod(x, -1, n);
    lemma_inverse_cancel(x, 1, n);
    ax_pow_mod_one(x, n);
    ax_pow_mod_range(x, -1, n);
    // y * x == y * (x % n) == 1 (mod n)
    lemma_mul_mod_noop_general(y, x, n);
    assert((y * x) % n == 1int % n);
    ax_divm_unique(1, x, n, y);
    ax_pow_mod_mul(x, -1, k, n);
}

/// signature proof, third commitment:  Cw^(r4 + c e) * g0^-(r8 + c w e) * h^-(r2 + c rw e)  ==  Cw^r4 * g0^-r8 * h^-r2   (mod n, reduced),  Cw = g0^w h^rw % n
pub proof fn lemma_n5_eq3(g0: int, h: int, w: int, rw: int, e: int, r4: int, r8: int, r2: int, c: int, n: int)
    requires n > 0, c >= 0, invertible(g0, n), invertible(h, n),
    ensures ({
        let cw = (pow_mod(g0, w, n) * pow_mod(h, rw, n)) % n;
        (pow_mod(cw, r4 + c * e, n) * pow_mod(g0, -1 * (r8 + c * (w * e)), n) * pow_mod(h, -1 * (r2 + c * (rw * e)), n)) % n
            == (pow_mod(cw, r4, n) * pow_mod(g0, -1 * r8, n) * pow_mod(h, -1 * r2, n)) % n
    }),
{
    let cw = (pow_mod(g0, w, n) * pow_mod(h, rw, n)) % n;
    lemma_commit_unit(g0, h, w, rw, n);
    let bs = seq![cw, g0, h];
    let xs = seq![r4 + c * e, -1 * (r8 + c * (w * e)), -1 * (r2 + c * (rw * e))];
    let rho = seq![r4, -1 * r8, -1 * r2];
    let sigma = seq![e, -1 * (w * e), -1 * (rw * e)];
    assert(-1 * (r8 + c * (w * e)) == -1 * r8 + c * (-1 * (w * e))) by (nonlinear_arith);
    assert(-1 * (r2 + c * (rw * e)) == -1 * r2 + c * (-1 * (rw * e))) by (nonlinear_arith);
    // statement: Cw^e * g0^(-we) * h^(-rw e) == 1
    let (gw, hrw) = (pow_mod(g0, w, n), pow_mod(h, rw, n));
    ax_gcd_pow_mod(g0, w, n);
    ax_gcd_pow_mod(h, rw, n);
    lemma_pow_of_commit(gw, hrw, e, n);
    ax_pow_mod_mul(g0, w, e, n);
    ax_pow_mod_mul(h, rw, e, n);
    let (gwe, hrwe, gm, hm) = (pow_mod(g0, w * e, n), pow_mod(h, rw * e, n), pow_mod(g0, -1 * (w * e), n), pow_mod(h, -1 * (rw * e), n));
    assert(cong(pow_mod(cw, e, n), gwe * hrwe, n));
    ax_pow_mod_add(g0, w * e, -1 * (w * e), n);
    ax_pow_mod_add(h, rw * e, -1 * (rw * e), n);
    ax_pow_mod_one(g0, n);
    ax_pow_mod_one(h, n);
    lemma_cong_mod(gwe * gm, n);
    lemma_cong_mod(hrwe * hm, n);
    lemma_cong_mod(1, n);
    assert(cong(gwe * gm, 1, n));
    assert(cong(hrwe * hm, 1, n));
    lemma_cong_mul(gwe * gm, 1, hrwe * hm, 1, n);
    lemma_cong_mul(pow_mod(cw, e, n), gwe * hrwe, gm * hm, gm * hm, n);
    assert((gwe * hrwe) * (gm * hm) == (gwe * gm) * (hrwe * hm)) by (nonlinear_arith);
    assert(pw_prod(bs, sigma, n, 3) == ((1 * pow_mod(cw, e, n)) * gm) * hm) by { reveal_with_fuel(pw_prod, 4); }
    assert(((1 * pow_mod(cw, e, n)) * gm) * hm == pow_mod(cw, e, n) * (gm * hm)) by (nonlinear_arith);
    assert(cong(pw_prod(bs, sigma, n, 3), 1, n));
    lemma_pw_complete(bs, rho, sigma, xs, c, n);
    assert(pw_prod(bs, xs, n, 3) == ((1 * pow_mod(cw, xs[0], n)) * pow_mod(g0, xs[1], n)) * pow_mod(h, xs[2], n)) by { reveal_with_fuel(pw_prod, 4); }
    assert(pw_prod(bs, rho, n, 3) == ((1 * pow_mod(cw, rho[0], n)) * pow_mod(g0, rho[1], n)) * pow_mod(h, rho[2], n)) by { reveal_with_fuel(pw_prod, 4); }
}

/// (a*b)*(c*d) == (a*c)*(b*d)
pub proof fn lemma_int_shuffle4(a: int, b: int, c: int, d: int)
    ensures (a * b) * (c * d) == (a * c) * (b * d),
{
    assert((a * b) * (c * d) == (a * c) * (b * d)) by (nonlinear_arith);
}

/// x * x^(-1) == 1 (mod n) and x^k * x^(-k) == 1 (mod n) for a unit x
pub proof fn lemma_unit_cancel(x: int, k: int, n: int)
    requires invertible(x, n),
    ensures cong(x * pow_mod(x, -1, n), 1, n), cong(pow_mod(x, k, n) * pow_mod(x, -1 * k, n), 1, n),
{
    lemma_inverse_cancel(x, 1, n);
    ax_pow_mod_one(x, n);
    lemma_cong_mod(x, n);
    lemma_cong_mul(pow_mod(x, -1, n), pow_mod(x, -1, n), pow_mod(x, 1, n), x, n);
    assert(pow_mod(x, -1, n) * x == x * pow_mod(x, -1, n)) by (nonlinear_arith);
    lemma_inverse_cancel(x, k, n);
    assert(pow_mod(x, -1 * k, n) * pow_mod(x, k, n) == pow_mod(x, k, n) * pow_mod(x, -1 * k, n)) by (nonlinear_arith);
}

/// signature proof, first commitment.  With Cv = v g0^w % n, a valid signature v^e == A b^s cpk (mod n), A = prod a_i^{m_i},
/// tx = prod a_i^{rs_i + c m_i} % n, tr = prod a_i^{rs_i} % n:
///   Cv^(r4 + c e) / tx / b^(r6 + c s) / g0^(r8 + c w e) * cpk^(-c)  ==  Cv^r4 / tr / b^r6 / g0^r8     (mod n, reduced; "/" as the code computes it with divm)
pub proof fn lemma_n5_eq1(as_: Seq<int>, ms: Seq<int>, rs: Seq<int>, xs: Seq<int>, b: int, g0: int, cpk: int, v: int, w: int, e: int, sv: int,
    r4: int, r6: int, r8: int, c: int, n: int)
    requires
        n > 1, c >= 0, as_.len() == ms.len(), as_.len() == rs.len(), as_.len() == xs.len(),
        forall|j: int| 0 <= j < as_.len() ==> #[trigger] xs[j] == rs[j] + c * ms[j],
        forall|j: int| 0 <= j < as_.len() ==> invertible(#[trigger] as_[j], n),
        invertible(b, n), invertible(g0, n), invertible(cpk, n), invertible(v, n),
        pow_mod(v, e, n) == (pw_prod(as_, ms, n, as_.len() as int) * pow_mod(b, sv, n) * cpk) % n,
    ensures ({
        let k = as_.len() as int;
        let cv = (v * pow_mod(g0, w, n)) % n;
        let tx = pw_prod(as_, xs, n, k) % n;
        let tr = pw_prod(as_, rs, n, k) % n;
        (pow_mod(cv, r4 + c * e, n) * divm_spec(1, tx, n) * pow_mod(divm_spec(1, b, n), r6 + c * sv, n) * pow_mod(divm_spec(1, g0, n), r8 + c * (w * e), n) * pow_mod(cpk, -1 * c, n)) % n
            == (pow_mod(cv, r4, n) * divm_spec(1, tr, n) * pow_mod(divm_spec(1, b, n), r6, n) * pow_mod(divm_spec(1, g0, n), r8, n)) % n
    }),
{
    let k = as_.len() as int;
    let (aa, px, pr) = (pw_prod(as_, ms, n, k), pw_prod(as_, xs, n, k), pw_prod(as_, rs, n, k));
    let (tx, tr) = (px % n, pr % n);
    let gw = pow_mod(g0, w, n);
    let cv = (v * gw) % n;
    let (s4, s6, s8) = (r4 + c * e, r6 + c * sv, r8 + c * (w * e));
    // units
    lemma_pw_unit(as_, ms, n, k); lemma_pw_unit(as_, xs, n, k); lemma_pw_unit(as_, rs, n, k);
    ax_gcd_mod(px, n); ax_gcd_mod(pr, n);
    ax_gcd_pow_mod(g0, w, n); ax_gcd_mul(v, gw, n); ax_gcd_mod(v * gw, n);
    // ---- (1) the statement: cv^e * A^-1 * b^-s * g0^-(we) * cpk^-1 == 1
    let (ve, gwe) = (pow_mod(v, e, n), pow_mod(g0, w * e, n));
    let (bs_, bms, gmwe, ai, ci) = (pow_mod(b, sv, n), pow_mod(b, -1 * sv, n), pow_mod(g0, -1 * (w * e), n), pow_mod(aa, -1, n), pow_mod(cpk, -1, n));
    lemma_pow_of_commit(v, gw, e, n);
    ax_pow_mod_mul(g0, w, e, n);
    assert(cong(pow_mod(cv, e, n), ve * gwe, n));
    lemma_cong_mod(aa * bs_ * cpk, n);
    assert(cong(ve, aa * bs_ * cpk, n));
    lemma_unit_cancel(aa, 1, n);
    lemma_unit_cancel(b, sv, n);
    lemma_unit_cancel(g0, w * e, n);
    lemma_unit_cancel(cpk, 1, n);
    lemma_cong_mul(ve, aa * bs_ * cpk, gwe, gwe, n);
    lemma_cong_mul(pow_mod(cv, e, n), (aa * bs_ * cpk) * gwe, ai * bms * gmwe * ci, ai * bms * gmwe * ci, n);
    assert(((aa * bs_ * cpk) * gwe) * (ai * bms * gmwe * ci) == ((aa * ai) * (bs_ * bms)) * ((gwe * gmwe) * (cpk * ci))) by {
        let (x1, x2, y1, y2) = (aa * bs_, gwe * cpk, ai * bms, gmwe * ci);
        assert((aa * bs_ * cpk) * gwe == x1 * x2) by (nonlinear_arith) requires x1 == aa * bs_, x2 == gwe * cpk;
        assert(ai * bms * gmwe * ci == y1 * y2) by (nonlinear_arith) requires y1 == ai * bms, y2 == gmwe * ci;
        lemma_int_shuffle4(x1, x2, y1, y2);
        lemma_int_shuffle4(aa, bs_, ai, bms);
        lemma_int_shuffle4(gwe, cpk, gmwe, ci);
    }
    lemma_cong_mul(aa * ai, 1, bs_ * bms, 1, n);
    lemma_cong_mul(gwe * gmwe, 1, cpk * ci, 1, n);
    lemma_cong_mul((aa * ai) * (bs_ * bms), 1, (gwe * gmwe) * (cpk * ci), 1, n);
    let stmt = pow_mod(cv, e, n) * (ai * bms * gmwe * ci);
    assert(cong(stmt, 1, n));
    // ---- (2) generic completeness over [cv, tr, A, b, g0, cpk]
    let bsq = seq![cv, tr, aa, b, g0, cpk];
    let xsq = seq![s4, -1int, -1 * c, -1 * s6, -1 * s8, -1 * c];
    let rho = seq![r4, -1int, 0int, -1 * r6, -1 * r8, 0int];
    let sig = seq![e, 0int, -1int, -1 * sv, -1 * (w * e), -1int];
    assert(-1 * s6 == -1 * r6 + c * (-1 * sv)) by (nonlinear_arith) requires s6 == r6 + c * sv;
    assert(-1 * s8 == -1 * r8 + c * (-1 * (w * e))) by (nonlinear_arith) requires s8 == r8 + c * (w * e);
    assert(-1 * c == 0 + c * (-1int)) by (nonlinear_arith);
    assert(-1int == -1int + c * 0int) by (nonlinear_arith);
    ax_pow_mod_one(tr, n);
    assert(pw_prod(bsq, sig, n, 6) == (((((1 * pow_mod(cv, e, n)) * pow_mod(tr, 0, n)) * ai) * bms) * gmwe) * ci) by { reveal_with_fuel(pw_prod, 7); }
    lemma_cong_mod(1, n);
    lemma_cong_mul(pow_mod(cv, e, n), pow_mod(cv, e, n), pow_mod(tr, 0, n), 1, n);
    lemma_cong_mul(pow_mod(cv, e, n) * pow_mod(tr, 0, n), pow_mod(cv, e, n) * 1, ai * bms * gmwe * ci, ai * bms * gmwe * ci, n);
    assert((((((1 * pow_mod(cv, e, n)) * pow_mod(tr, 0, n)) * ai) * bms) * gmwe) * ci == (pow_mod(cv, e, n) * pow_mod(tr, 0, n)) * (ai * bms * gmwe * ci)) by (nonlinear_arith);
    assert(pow_mod(cv, e, n) * 1 == pow_mod(cv, e, n));
    assert((pow_mod(cv, e, n) * 1) * (ai * bms * gmwe * ci) == stmt);
    assert(cong(pw_prod(bsq, sig, n, 6), 1, n));
    lemma_pw_complete(bsq, rho, sig, xsq, c, n);
    // ---- (3) the verifier's expression is pw_prod(bsq, xsq) modulo n
    let (cs4, tri, amc, bm6, gm8, cmc) = (pow_mod(cv, s4, n), pow_mod(tr, -1, n), pow_mod(aa, -1 * c, n), pow_mod(b, -1 * s6, n), pow_mod(g0, -1 * s8, n), pow_mod(cpk, -1 * c, n));
    assert(pw_prod(bsq, xsq, n, 6) == (((((1 * cs4) * tri) * amc) * bm6) * gm8) * cmc) by { reveal_with_fuel(pw_prod, 7); }
    // divm(1, tx) == (tr^-1 * A^-c) % n
    let y = (tri * amc) % n;
    lemma_pw_response(as_, rs, ms, xs, c, n, k);
    lemma_cong_mod(px, n); lemma_cong_mod(pr, n);
    let ac = pow_mod(aa, c, n);
    lemma_cong_mul(pr, tr, ac, ac, n);
    assert(cong(tx, tr * ac, n));
    lemma_unit_cancel(tr, 1, n);
    lemma_unit_cancel(aa, c, n);
    lemma_cong_mod(tri * amc, n);
    lemma_cong_mul(y, tri * amc, tx, tr * ac, n);
    assert((tri * amc) * (tr * ac) == (tr * tri) * (ac * amc)) by (nonlinear_arith);
    lemma_cong_mul(tr * tri, 1, ac * amc, 1, n);
    assert(cong(y * tx, 1, n));
    ax_divm_unique(1, tx, n, y);
    let d = divm_spec(1, tx, n);
    assert(d == y);
    lemma_divm_inv(b, s6, n); lemma_divm_inv(g0, s8, n);
    lemma_cong_mul(cs4, cs4, d, tri * amc, n);
    lemma_cong_mul(cs4 * d, cs4 * (tri * amc), bm6, bm6, n);
    lemma_cong_mul((cs4 * d) * bm6, (cs4 * (tri * amc)) * bm6, gm8, gm8, n);
    lemma_cong_mul(((cs4 * d) * bm6) * gm8, ((cs4 * (tri * amc)) * bm6) * gm8, cmc, cmc, n);
    assert((((cs4 * (tri * amc)) * bm6) * gm8) * cmc == (((((1 * cs4) * tri) * amc) * bm6) * gm8) * cmc) by (nonlinear_arith);
    // ---- (4) the prover's expression is pw_prod(bsq, rho) modulo n
    let (cr4, bm6r, gm8r) = (pow_mod(cv, r4, n), pow_mod(b, -1 * r6, n), pow_mod(g0, -1 * r8, n));
    ax_pow_mod_one(aa, n); ax_pow_mod_one(cpk, n);
    assert(pw_prod(bsq, rho, n, 6) == (((((1 * cr4) * tri) * pow_mod(aa, 0, n)) * bm6r) * gm8r) * pow_mod(cpk, 0, n)) by { reveal_with_fuel(pw_prod, 7); }
    lemma_divm_inv(tr, 1, n);
    lemma_divm_inv(b, r6, n); lemma_divm_inv(g0, r8, n);
    let rhs0 = ((cr4 * tri) * bm6r) * gm8r;
    lemma_cong_mul(cr4 * tri, cr4 * tri, pow_mod(aa, 0, n), 1, n);
    lemma_cong_mul((cr4 * tri) * pow_mod(aa, 0, n), (cr4 * tri) * 1, bm6r, bm6r, n);
    lemma_cong_mul(((cr4 * tri) * pow_mod(aa, 0, n)) * bm6r, ((cr4 * tri) * 1) * bm6r, gm8r, gm8r, n);
    lemma_cong_mul((((cr4 * tri) * pow_mod(aa, 0, n)) * bm6r) * gm8r, (((cr4 * tri) * 1) * bm6r) * gm8r, pow_mod(cpk, 0, n), 1, n);
    assert((cr4 * tri) * 1 == cr4 * tri);
    assert(((((cr4 * tri) * 1) * bm6r) * gm8r) * 1 == rhs0);
    assert(1 * cr4 == cr4);
}
