// cl_algebra — congruences modulo n and the exponent algebra of Schnorr-style responses (used by the completeness
// contracts of the CL03 sigma protocols and of the Boudot range proof).  Everything is derived from the A-rug laws.
use vstd::arithmetic::div_mod::{lemma_mul_mod_noop_general, lemma_mod_twice};

/// x == y (mod n)
pub open spec fn cong(x: int, y: int, n: int) -> bool { x % n == y % n }

pub proof fn lemma_cong_mul(x: int, x2: int, y: int, y2: int, n: int)
    requires n > 0, cong(x, x2, n), cong(y, y2, n),
    ensures cong(x * y, x2 * y2, n),
{
    lemma_mul_mod_noop_general(x, y, n);
    lemma_mul_mod_noop_general(x2, y2, n);
}

pub proof fn lemma_cong_mod(x: int, n: int)
    requires n > 0,
    ensures cong(x % n, x, n),
{
    lemma_mod_twice(x, n);
}

pub proof fn lemma_cong_trans(x: int, y: int, z: int, n: int)
    requires cong(x, y, n), cong(y, z, n),
    ensures cong(x, z, n),
{}

/// g^(r + c*m) == g^r * (g^m)^c (mod n)   (exponents >= 0, or g invertible)
pub proof fn lemma_resp_pow(g: int, r: int, c: int, m: int, n: int)
    requires n > 0, (r >= 0 && c >= 0 && m >= 0) || invertible(g, n),
    ensures cong(pow_mod(g, r + c * m, n), pow_mod(g, r, n) * pow_mod(pow_mod(g, m, n), c, n), n),
{
    assert(c * m >= 0 || invertible(g, n)) by (nonlinear_arith) requires (c >= 0 && m >= 0) || invertible(g, n);
    ax_pow_mod_add(g, r, c * m, n);
    ax_pow_mod_mul(g, m, c, n);
    assert(m * c == c * m) by (nonlinear_arith);
    lemma_cong_mod(pow_mod(g, r, n) * pow_mod(g, c * m, n), n);
}

/// (a*b % n)^c == a^c * b^c (mod n)
pub proof fn lemma_pow_of_commit(a: int, b: int, c: int, n: int)
    requires n > 0, c >= 0 || (invertible(a, n) && invertible(b, n)),
    ensures cong(pow_mod((a * b) % n, c, n), pow_mod(a, c, n) * pow_mod(b, c, n), n),
{
    ax_pow_mod_base_mod(a * b, c, n);
    ax_pow_mod_prod(a, b, c, n);
    lemma_cong_mod(pow_mod(a, c, n) * pow_mod(b, c, n), n);
}

/// the two-secret Schnorr identity:  g^(r1 + c m) * h^(r2 + c r)  ==  (g^r1 h^r2 % n) * ((g^m h^r % n)^c)   (mod n)
pub proof fn lemma_two_secret_response(g: int, h: int, m: int, r: int, r1: int, r2: int, c: int, n: int)
    requires n > 0, (m >= 0 && r >= 0 && r1 >= 0 && r2 >= 0 && c >= 0) || (invertible(g, n) && invertible(h, n)),
    ensures
        cong(pow_mod(g, r1 + c * m, n) * pow_mod(h, r2 + c * r, n),
             ((pow_mod(g, r1, n) * pow_mod(h, r2, n)) % n) * pow_mod((pow_mod(g, m, n) * pow_mod(h, r, n)) % n, c, n), n),
{
    let (gr1, hr2, gm, hr) = (pow_mod(g, r1, n), pow_mod(h, r2, n), pow_mod(g, m, n), pow_mod(h, r, n));
    let (gmc, hrc) = (pow_mod(gm, c, n), pow_mod(hr, c, n));
    lemma_resp_pow(g, r1, c, m, n);
    lemma_resp_pow(h, r2, c, r, n);
    // lhs == (gr1 * gmc) * (hr2 * hrc)
    lemma_cong_mul(pow_mod(g, r1 + c * m, n), gr1 * gmc, pow_mod(h, r2 + c * r, n), hr2 * hrc, n);
    // C^c == gmc * hrc
    if !(c >= 0) {
        ax_gcd_pow_mod(g, m, n);
        ax_gcd_pow_mod(h, r, n);
    }
    lemma_pow_of_commit(gm, hr, c, n);
    lemma_cong_mod(gr1 * hr2, n);
    lemma_cong_mul((gr1 * hr2) % n, gr1 * hr2, pow_mod((gm * hr) % n, c, n), gmc * hrc, n);
    assert((gr1 * gmc) * (hr2 * hrc) == (gr1 * hr2) * (gmc * hrc)) by (nonlinear_arith);
}

/// multi-base responses:  prod a_{i_t}^{r1_t + c m_{i_t}}  ==  prod a_{i_t}^{r1_t} * (prod a_{i_t}^{m_{i_t}})^c   (mod n), c >= 0
pub proof fn lemma_multi_response(bases: Seq<Integer>, msgs: Seq<CL03Message>, idx: Seq<usize>, r1: Seq<Integer>, s1: Seq<Integer>, c: int, n: int, k: int)
    requires
        n > 0, c >= 0, 0 <= k <= idx.len(), k <= r1.len(), k <= s1.len(),
        forall|t: int| 0 <= t < k ==> (#[trigger] s1[t])@ == r1[t]@ + c * msgs[idx[t] as int].value@,
        forall|t: int| 0 <= t < k ==> r1[t]@ >= 0,
        forall|t: int| 0 <= t < k ==> (msgs[idx[t] as int].value@ >= 0 || invertible(#[trigger] bases[idx[t] as int]@, n)),
    ensures
        cong(resp_prod(bases, s1, idx, n, k), resp_prod(bases, r1, idx, n, k) * pow_mod(multi_prod(bases, msgs, idx, n, k), c, n), n),
    decreases k,
{
    if k <= 0 {
        lemma_one_pow(c, n);
        lemma_cong_mod(1, n);
        assert(resp_prod(bases, s1, idx, n, k) == 1);
        assert(resp_prod(bases, r1, idx, n, k) * pow_mod(multi_prod(bases, msgs, idx, n, k), c, n) == 1int % n);
    } else {
        lemma_multi_response(bases, msgs, idx, r1, s1, c, n, k - 1);
        let a = bases[idx[k - 1] as int]@;
        let m = msgs[idx[k - 1] as int].value@;
        let (ps, pr, mp) = (resp_prod(bases, s1, idx, n, k - 1), resp_prod(bases, r1, idx, n, k - 1), multi_prod(bases, msgs, idx, n, k - 1));
        let f = pow_mod(a, m, n);
        let (mpc, fc, ar, as_) = (pow_mod(mp, c, n), pow_mod(f, c, n), pow_mod(a, r1[k - 1]@, n), pow_mod(a, s1[k - 1]@, n));
        assert(s1[k - 1]@ == r1[k - 1]@ + c * m);
        assert(resp_prod(bases, s1, idx, n, k) == ps * as_);
        assert(resp_prod(bases, r1, idx, n, k) == pr * ar);
        assert(multi_prod(bases, msgs, idx, n, k) == mp * f);
        lemma_resp_pow(a, r1[k - 1]@, c, m, n);
        assert(cong(as_, ar * fc, n));
        lemma_cong_mul(ps, pr * mpc, as_, ar * fc, n);
        assert((pr * mpc) * (ar * fc) == (pr * ar) * (mpc * fc)) by (nonlinear_arith);
        ax_pow_mod_prod(mp, f, c, n);
        lemma_cong_mod(mpc * fc, n);
        assert(cong(mpc * fc, pow_mod(mp * f, c, n), n));
        lemma_cong_mul(pr * ar, pr * ar, mpc * fc, pow_mod(mp * f, c, n), n);
    }
}

/// 1^c == 1 (mod n)
pub proof fn lemma_one_pow(c: int, n: int)
    requires n > 0, c >= 0,
    ensures pow_mod(1, c, n) == 1int % n,
    decreases c,
{
    ax_pow_mod_one(1, n);
    if c > 0 {
        lemma_one_pow(c - 1, n);
        ax_pow_mod_add(1, c - 1, 1, n);
        lemma_mul_mod_noop_general(1, 1, n);
    }
}

/// multi-secret Schnorr identity: (prod a^{s1} * b^{s2})  ==  t * C^c  with t = prod a^{r1} * b^{r2} % n, C = prod a^{m} * b^{r} % n
pub proof fn lemma_multi_secret_response(bases: Seq<Integer>, msgs: Seq<CL03Message>, idx: Seq<usize>, r1: Seq<Integer>, s1: Seq<Integer>, b: int, r: int, r2: int, c: int, n: int)
    requires
        n > 0, c >= 0, r2 >= 0, r >= 0 || invertible(b, n), idx.len() == r1.len(), idx.len() == s1.len(),
        forall|t: int| 0 <= t < idx.len() ==> (#[trigger] s1[t])@ == r1[t]@ + c * msgs[idx[t] as int].value@,
        forall|t: int| 0 <= t < idx.len() ==> r1[t]@ >= 0,
        forall|t: int| 0 <= t < idx.len() ==> (msgs[idx[t] as int].value@ >= 0 || invertible(#[trigger] bases[idx[t] as int]@, n)),
    ensures ({
        let k = idx.len() as int;
        let t = (resp_prod(bases, r1, idx, n, k) * pow_mod(b, r2, n)) % n;
        let cv = (multi_prod(bases, msgs, idx, n, k) * pow_mod(b, r, n)) % n;
        cong(resp_prod(bases, s1, idx, n, k) * pow_mod(b, r2 + c * r, n), t * pow_mod(cv, c, n), n)
    }),
{
    let k = idx.len() as int;
    let (ps, pr, mp) = (resp_prod(bases, s1, idx, n, k), resp_prod(bases, r1, idx, n, k), multi_prod(bases, msgs, idx, n, k));
    let (br2, br) = (pow_mod(b, r2, n), pow_mod(b, r, n));
    let (mpc, brc) = (pow_mod(mp, c, n), pow_mod(br, c, n));
    lemma_multi_response(bases, msgs, idx, r1, s1, c, n, k);
    lemma_resp_pow(b, r2, c, r, n);
    lemma_cong_mul(ps, pr * mpc, pow_mod(b, r2 + c * r, n), br2 * brc, n);
    lemma_pow_of_commit(mp, br, c, n);
    lemma_cong_mod(pr * br2, n);
    lemma_cong_mul((pr * br2) % n, pr * br2, pow_mod((mp * br) % n, c, n), mpc * brc, n);
    assert((pr * mpc) * (br2 * brc) == (pr * br2) * (mpc * brc)) by (nonlinear_arith);
}

/// x^(-c) * x^c == 1 (mod n) for a unit x
pub proof fn lemma_inverse_cancel(x: int, c: int, n: int)
    requires invertible(x, n),
    ensures cong(pow_mod(x, -1 * c, n) * pow_mod(x, c, n), 1, n),
{
    ax_pow_mod_add(x, -1 * c, c, n);
    ax_pow_mod_one(x, n);
    lemma_cong_mod(pow_mod(x, -1 * c, n) * pow_mod(x, c, n), n);
    lemma_cong_mod(1, n);
}

/// verifier's recomputation in the "same secrets" protocols:  prod a^{d} * b^{mu + c r} * C^{-c}  ==  prod a^{omega} * b^{mu}  (mod n)
/// when C = prod a^{m} * b^{r} % n is a unit and d_t = omega_t + c m_t
pub proof fn lemma_same_secret_side(bases: Seq<Integer>, msgs: Seq<CL03Message>, idx: Seq<usize>, omega: Seq<Integer>, d: Seq<Integer>, b: int, r: int, mu: int, c: int, cv: int, n: int)
    requires
        n > 0, c >= 0, mu >= 0, r >= 0 || invertible(b, n), idx.len() == omega.len(), idx.len() == d.len(),
        forall|t: int| 0 <= t < idx.len() ==> (#[trigger] d[t])@ == omega[t]@ + c * msgs[idx[t] as int].value@,
        forall|t: int| 0 <= t < idx.len() ==> omega[t]@ >= 0,
        forall|t: int| 0 <= t < idx.len() ==> (msgs[idx[t] as int].value@ >= 0 || invertible(#[trigger] bases[idx[t] as int]@, n)),
        cv == (multi_prod(bases, msgs, idx, n, idx.len() as int) * pow_mod(b, r, n)) % n,
        invertible(cv, n),
    ensures
        ((resp_prod(bases, d, idx, n, idx.len() as int) * pow_mod(b, mu + c * r, n)) * pow_mod(cv, -1 * c, n)) % n
            == (resp_prod(bases, omega, idx, n, idx.len() as int) * pow_mod(b, mu, n)) % n,
{
    let k = idx.len() as int;
    let lhs0 = resp_prod(bases, d, idx, n, k) * pow_mod(b, mu + c * r, n);
    let w = (resp_prod(bases, omega, idx, n, k) * pow_mod(b, mu, n)) % n;
    let (cc, ci) = (pow_mod(cv, c, n), pow_mod(cv, -1 * c, n));
    lemma_multi_secret_response(bases, msgs, idx, omega, d, b, r, mu, c, n);
    assert(cong(lhs0, w * cc, n));
    lemma_cong_mul(lhs0, w * cc, ci, ci, n);
    lemma_inverse_cancel(cv, c, n);
    lemma_cong_mul(w, w, ci * cc, 1, n);
    assert((w * cc) * ci == w * (ci * cc)) by (nonlinear_arith);
    assert(w * 1 == w);
    lemma_cong_mod(resp_prod(bases, omega, idx, n, k) * pow_mod(b, mu, n), n);
}

/// verifier's recomputation in the single-base "same secret" / "larger interval" protocols:
///   g^(omega + c x) * h^(mu + c r) * e^(-c)  ==  g^omega * h^mu   (mod n, both sides reduced)   when e == g^x h^r (mod n) is a unit
pub proof fn lemma_ss_side(g: int, h: int, x: int, r: int, omega: int, mu: int, c: int, e: int, n: int)
    requires
        n > 0, invertible(g, n), invertible(h, n), invertible(e, n),
        cong(e, pow_mod(g, x, n) * pow_mod(h, r, n), n),
    ensures
        (pow_mod(g, omega + c * x, n) * pow_mod(h, mu + c * r, n) * pow_mod(e, -1 * c, n)) % n == (pow_mod(g, omega, n) * pow_mod(h, mu, n)) % n,
{
    let cv = (pow_mod(g, x, n) * pow_mod(h, r, n)) % n;
    let w = (pow_mod(g, omega, n) * pow_mod(h, mu, n)) % n;
    let lhs0 = pow_mod(g, omega + c * x, n) * pow_mod(h, mu + c * r, n);
    assert(e % n == cv);
    ax_pow_mod_base_mod(e, -1 * c, n);
    lemma_mod_twice(pow_mod(g, x, n) * pow_mod(h, r, n), n);
    ax_pow_mod_base_mod(cv, -1 * c, n);
    assert(pow_mod(e, -1 * c, n) == pow_mod(cv, -1 * c, n));
    ax_gcd_mod(e, n);
    assert(invertible(cv, n));
    let (cc, ci) = (pow_mod(cv, c, n), pow_mod(cv, -1 * c, n));
    lemma_two_secret_response(g, h, x, r, omega, mu, c, n);
    assert(cong(lhs0, w * cc, n));
    lemma_cong_mul(lhs0, w * cc, ci, ci, n);
    lemma_inverse_cancel(cv, c, n);
    lemma_cong_mul(w, w, ci * cc, 1, n);
    assert((w * cc) * ci == w * (ci * cc)) by (nonlinear_arith);
    assert(w * 1 == w);
    lemma_cong_mod(pow_mod(g, omega, n) * pow_mod(h, mu, n), n);
    lemma_mod_twice(pow_mod(g, omega, n) * pow_mod(h, mu, n), n);
}

/// F = g^x h^{r2} % n;  F^x * h^(r1 - r2 x)  ==  g^(x x) * h^(r1)   (mod n)      (proof of square: E = F^x h^{r3})
pub proof fn lemma_square_commit(g: int, h: int, x: int, r1: int, r2: int, n: int)
    requires n > 0, invertible(g, n), invertible(h, n),
    ensures
        cong(pow_mod((pow_mod(g, x, n) * pow_mod(h, r2, n)) % n, x, n) * pow_mod(h, r1 - r2 * x, n), pow_mod(g, x * x, n) * pow_mod(h, r1, n), n),
{
    let (gx, hr2) = (pow_mod(g, x, n), pow_mod(h, r2, n));
    ax_gcd_pow_mod(g, x, n);
    ax_gcd_pow_mod(h, r2, n);
    lemma_pow_of_commit(gx, hr2, x, n);
    ax_pow_mod_mul(g, x, x, n);
    ax_pow_mod_mul(h, r2, x, n);
    // h^(r2 x) * h^(r1 - r2 x) == h^r1
    ax_pow_mod_add(h, r2 * x, r1 - r2 * x, n);
    assert(r2 * x + (r1 - r2 * x) == r1);
    let (gxx, hr2x, hr3, hr1) = (pow_mod(g, x * x, n), pow_mod(h, r2 * x, n), pow_mod(h, r1 - r2 * x, n), pow_mod(h, r1, n));
    lemma_cong_mod(hr2x * hr3, n);
    assert(cong(hr2x * hr3, hr1, n));
    // F^x * h^r3 == (gxx * hr2x) * hr3 == gxx * (hr2x * hr3) == gxx * hr1
    lemma_cong_mul(pow_mod((gx * hr2) % n, x, n), gxx * hr2x, hr3, hr3, n);
    assert((gxx * hr2x) * hr3 == gxx * (hr2x * hr3)) by (nonlinear_arith);
    lemma_cong_mul(gxx, gxx, hr2x * hr3, hr1, n);
}

/// a commitment g^x h^r % n with unit bases is a unit
pub proof fn lemma_commit_unit(g: int, h: int, x: int, r: int, n: int)
    requires n > 0, invertible(g, n), invertible(h, n),
    ensures invertible((pow_mod(g, x, n) * pow_mod(h, r, n)) % n, n),
{
    ax_gcd_pow_mod(g, x, n);
    ax_gcd_pow_mod(h, r, n);
    ax_gcd_mul(pow_mod(g, x, n), pow_mod(h, r, n), n);
    ax_gcd_mod(pow_mod(g, x, n) * pow_mod(h, r, n), n);
}

/// (g^x1 h^r1 % n) * (g^x2 h^r2 % n)  ==  g^(x1+x2) * h^(r1+r2)   (mod n)
pub proof fn lemma_commit_mul(g: int, h: int, x1: int, r1: int, x2: int, r2: int, n: int)
    requires n > 0, invertible(g, n), invertible(h, n),
    ensures cong(((pow_mod(g, x1, n) * pow_mod(h, r1, n)) % n) * ((pow_mod(g, x2, n) * pow_mod(h, r2, n)) % n), pow_mod(g, x1 + x2, n) * pow_mod(h, r1 + r2, n), n),
{
    let (a1, b1, a2, b2) = (pow_mod(g, x1, n), pow_mod(h, r1, n), pow_mod(g, x2, n), pow_mod(h, r2, n));
    lemma_cong_mod(a1 * b1, n);
    lemma_cong_mod(a2 * b2, n);
    lemma_cong_mul((a1 * b1) % n, a1 * b1, (a2 * b2) % n, a2 * b2, n);
    ax_pow_mod_add(g, x1, x2, n);
    ax_pow_mod_add(h, r1, r2, n);
    lemma_cong_mod(a1 * a2, n);
    lemma_cong_mod(b1 * b2, n);
    lemma_cong_mul(a1 * a2, pow_mod(g, x1 + x2, n), b1 * b2, pow_mod(h, r1 + r2, n), n);
    assert((a1 * b1) * (a2 * b2) == (a1 * a2) * (b1 * b2)) by (nonlinear_arith);
}

/// Boudot tolerance proof, side a:  with E_a_1 = g^{s} h^{ra1} % n, E_a_2 = g^{x2} h^{ra2} % n, s + x2 = x - aa, ra1 + ra2 = r and
/// e == g^x h^r (mod n):   E_a_2 == divm(divm(e, g^aa), E_a_1)
pub proof fn lemma_tol_side_a(g: int, h: int, x: int, r: int, aa: int, s: int, x2: int, ra1: int, ra2: int, e: int, n: int)
    requires
        n > 0, invertible(g, n), invertible(h, n), s + x2 == x - aa, ra1 + ra2 == r,
        cong(e, pow_mod(g, x, n) * pow_mod(h, r, n), n),
    ensures ({
        let e1 = (pow_mod(g, s, n) * pow_mod(h, ra1, n)) % n;
        let e2 = (pow_mod(g, x2, n) * pow_mod(h, ra2, n)) % n;
        e2 == divm_spec(divm_spec(e, pow_mod(g, aa, n), n), e1, n)
    }),
{
    let e1 = (pow_mod(g, s, n) * pow_mod(h, ra1, n)) % n;
    let e2 = (pow_mod(g, x2, n) * pow_mod(h, ra2, n)) % n;
    let pa = pow_mod(g, aa, n);
    let y = (e1 * e2) % n;
    ax_gcd_pow_mod(g, aa, n);
    lemma_commit_unit(g, h, s, ra1, n);
    // e1 * e2 == g^(x - aa) h^r ;  times g^aa == g^x h^r == e
    lemma_commit_mul(g, h, s, ra1, x2, ra2, n);
    let (gxa, hr) = (pow_mod(g, x - aa, n), pow_mod(h, r, n));
    lemma_cong_mod(e1 * e2, n);
    assert(cong(y, gxa * hr, n));
    lemma_cong_mul(y, gxa * hr, pa, pa, n);
    ax_pow_mod_add(g, x - aa, aa, n);
    assert((x - aa) + aa == x);
    lemma_cong_mod(gxa * pa, n);
    lemma_cong_mul(gxa * pa, pow_mod(g, x, n), hr, hr, n);
    assert((gxa * hr) * pa == (gxa * pa) * hr) by (nonlinear_arith);
    assert(cong(y * pa, e, n));
    ax_divm_unique(e, pa, n, y);
    // e2 * e1 == y == e_a (already reduced)
    let e_a = divm_spec(e, pa, n);
    assert((e2 * e1) % n == e_a % n) by {
        assert(e2 * e1 == e1 * e2) by (nonlinear_arith);
        lemma_mod_twice(e1 * e2, n);
    }
    ax_divm_unique(e_a, e1, n, e2);
}

/// side b:  E_b_1 = g^{s} h^{rb1} % n, E_b_2 = g^{x2} h^{rb2} % n, s + x2 = bb - x, rb1 + rb2 = -r:   E_b_2 == divm(divm(g^bb, e), E_b_1)
pub proof fn lemma_tol_side_b(g: int, h: int, x: int, r: int, bb: int, s: int, x2: int, rb1: int, rb2: int, e: int, n: int)
    requires
        n > 0, invertible(g, n), invertible(h, n), invertible(e, n), s + x2 == bb - x, rb1 + rb2 == -r,
        cong(e, pow_mod(g, x, n) * pow_mod(h, r, n), n),
    ensures ({
        let e1 = (pow_mod(g, s, n) * pow_mod(h, rb1, n)) % n;
        let e2 = (pow_mod(g, x2, n) * pow_mod(h, rb2, n)) % n;
        e2 == divm_spec(divm_spec(pow_mod(g, bb, n), e, n), e1, n)
    }),
{
    let e1 = (pow_mod(g, s, n) * pow_mod(h, rb1, n)) % n;
    let e2 = (pow_mod(g, x2, n) * pow_mod(h, rb2, n)) % n;
    let pb = pow_mod(g, bb, n);
    let y = (e1 * e2) % n;
    lemma_commit_unit(g, h, s, rb1, n);
    lemma_commit_mul(g, h, s, rb1, x2, rb2, n);
    let (gxb, hmr) = (pow_mod(g, bb - x, n), pow_mod(h, -r, n));
    lemma_cong_mod(e1 * e2, n);
    assert(cong(y, gxb * hmr, n));
    // y * e == g^(bb - x) h^(-r) * g^x h^r == g^bb
    let (gx, hr) = (pow_mod(g, x, n), pow_mod(h, r, n));
    lemma_cong_mul(y, gxb * hmr, e, gx * hr, n);
    ax_pow_mod_add(g, bb - x, x, n);
    assert((bb - x) + x == bb);
    ax_pow_mod_add(h, -r, r, n);
    assert(-r + r == 0);
    ax_pow_mod_one(h, n);
    lemma_cong_mod(gxb * gx, n);
    lemma_cong_mod(hmr * hr, n);
    lemma_cong_mod(1, n);
    lemma_cong_mul(gxb * gx, pb, hmr * hr, 1, n);
    assert((gxb * hmr) * (gx * hr) == (gxb * gx) * (hmr * hr)) by (nonlinear_arith);
    assert(pb * 1 == pb);
    assert(cong(y * e, pb, n));
    ax_divm_unique(pb, e, n, y);
    let e_b = divm_spec(pb, e, n);
    assert((e2 * e1) % n == e_b % n) by {
        assert(e2 * e1 == e1 * e2) by (nonlinear_arith);
        lemma_mod_twice(e1 * e2, n);
    }
    ax_divm_unique(e_b, e1, n, e2);
}
