// Lemmas about `complement` (the undisclosed index list) used inside function bodies.

pub proof fn lemma_complement_bounds(n: int, idx: Seq<usize>)
    requires n <= usize::MAX + 1,
    ensures
        complement(n, idx).len() <= (if n < 0 { 0 } else { n }),
        forall|j: int| 0 <= j < complement(n, idx).len() ==> (#[trigger] complement(n, idx)[j]) < n && !idx.contains(complement(n, idx)[j]),
        forall|i: int, j: int| 0 <= i < j < complement(n, idx).len() ==> complement(n, idx)[i] < complement(n, idx)[j],
    decreases n,
{
    if n > 0 {
        lemma_complement_bounds(n - 1, idx);
    }
}

pub proof fn lemma_complement_empty(n: int)
    requires 0 <= n <= usize::MAX + 1,
    ensures
        complement(n, Seq::<usize>::empty()).len() == n,
        forall|j: int| 0 <= j < n ==> (#[trigger] complement(n, Seq::<usize>::empty())[j]) == j,
    decreases n,
{
    if n > 0 {
        lemma_complement_empty(n - 1);
        assert(!Seq::<usize>::empty().contains((n - 1) as usize));
    }
}

/// adding one index removes at most one element, exactly one iff it is new and in range
pub proof fn lemma_complement_push(n: int, idx: Seq<usize>, x: usize)
    requires 0 <= n <= usize::MAX + 1,
    ensures
        complement(n, idx).len() - complement(n, idx.push(x)).len() == (if x < n && !idx.contains(x) { 1int } else { 0int }),
    decreases n,
{
    if n > 0 {
        lemma_complement_push(n - 1, idx, x);
        let k = (n - 1) as usize;
        let idx2 = idx.push(x);
        assert(idx2.contains(k) <==> (idx.contains(k) || x == k)) by {
            if idx.contains(k) {
                let j = choose|j: int| 0 <= j < idx.len() && idx[j] == k;
                assert(idx2[j] == k);
            }
            if x == k {
                assert(idx2[idx.len() as int] == k);
            }
            if idx2.contains(k) {
                let j = choose|j: int| 0 <= j < idx2.len() && idx2[j] == k;
                if j < idx.len() { assert(idx[j] == k); }
            }
        }
    }
}

/// pigeonhole: at least n - |idx| indexes remain
pub proof fn lemma_complement_len_ge(n: int, idx: Seq<usize>)
    requires 0 <= n <= usize::MAX + 1,
    ensures complement(n, idx).len() + idx.len() >= n,
    decreases idx.len(),
{
    if idx.len() == 0 {
        assert(idx =~= Seq::<usize>::empty());
        lemma_complement_empty(n);
    } else {
        let idx0 = idx.drop_last();
        lemma_complement_len_ge(n, idx0);
        lemma_complement_push(n, idx0, idx.last());
        assert(idx0.push(idx.last()) =~= idx);
    }
}

/// exactly n - |idx| remain when idx has no repetition and stays below n
pub proof fn lemma_complement_len_exact(n: int, idx: Seq<usize>)
    requires
        0 <= n <= usize::MAX + 1,
        forall|i: int| 0 <= i < idx.len() ==> idx[i] < n,
        forall|i: int, j: int| 0 <= i < j < idx.len() ==> idx[i] != idx[j],
    ensures complement(n, idx).len() + idx.len() == n,
    decreases idx.len(),
{
    if idx.len() == 0 {
        assert(idx =~= Seq::<usize>::empty());
        lemma_complement_empty(n);
    } else {
        let idx0 = idx.drop_last();
        lemma_complement_len_exact(n, idx0);
        lemma_complement_push(n, idx0, idx.last());
        assert(idx0.push(idx.last()) =~= idx);
        assert(!idx0.contains(idx.last())) by {
            if idx0.contains(idx.last()) {
                let j = choose|j: int| 0 <= j < idx0.len() && idx0[j] == idx.last();
                assert(idx[j] == idx[idx.len() - 1]);
            }
        }
    }
}
