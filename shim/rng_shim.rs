// rng_shim — the process CSPRNG as a ghost tape (A-rng).  TRUSTED model:
//   * one tape per thread of control; `pos` is the read cursor, `cells` the (unbounded) sequence of draws;
//   * `Scalar::random(thread_rng())` returns the scalar cell at `pos` and advances by one;
//   * `rng.fill_bytes(buf)` returns the next buf.len() byte cells and advances by buf.len().
// Idealisation used only to INTERPRET C07 (never as an SMT axiom): cells are independent uniform draws.
// The tape is threaded through the callers of the randomness source by extractor rule R10 (ghost,
// erased at run time).  Only `rand::thread_rng` is an approved source: any other source has no tape
// contract, so the freshness postconditions of its callers fail.
pub tracked struct RngTape {
    pub ghost cells: Seq<Scalar>,
    pub ghost bytes: Seq<u8>,
    pub ghost pos: nat,
    pub ghost bpos: nat,
}

impl RngTape {
    /// the k-th scalar drawn after the current position
    pub open spec fn cell(self, k: nat) -> Scalar { self.cells[(self.pos + k) as int] }
    /// scalars pos .. pos + n
    pub open spec fn window(self, n: nat) -> Seq<Scalar> { Seq::new(n, |k: int| self.cells[self.pos + k]) }
    pub open spec fn byte_window(self, n: nat) -> Seq<u8> { Seq::new(n, |k: int| self.bytes[self.bpos + k]) }
    /// same tape contents, cursor advanced by n scalars
    pub open spec fn advanced(self, other: RngTape, n: nat) -> bool {
        other.cells == self.cells && other.bytes == self.bytes && other.pos == self.pos + n && other.bpos == self.bpos
    }
    pub open spec fn advanced_bytes(self, other: RngTape, n: nat) -> bool {
        other.cells == self.cells && other.bytes == self.bytes && other.pos == self.pos && other.bpos == self.bpos + n
    }
}

#[verifier::external_body]
pub struct ThreadRng { _p: u8 }

#[verifier::external_body]
pub fn thread_rng() -> (r: ThreadRng) { unimplemented!() }

pub mod rand {
    pub use super::thread_rng;
}

impl ThreadRng {
    /// rand::RngCore::fill_bytes
    #[verifier::external_body]
    pub fn fill_bytes(&mut self, dest: &mut [u8], Tracked(tape): Tracked<&mut RngTape>)
        ensures
            final(dest)@ == old(tape).byte_window(old(dest)@.len()),
            old(tape).advanced_bytes(*final(tape), old(dest)@.len()),
    { unimplemented!() }
}

impl Scalar {
    /// ff::Field::random(rng)
    #[verifier::external_body]
    pub fn random(rng: ThreadRng, Tracked(tape): Tracked<&mut RngTape>) -> (r: Scalar)
        ensures
            r == old(tape).cell(0),
            old(tape).advanced(*final(tape), 1),
    { unimplemented!() }
}
