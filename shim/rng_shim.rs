// rng_shim (plain) — the process CSPRNG without a freshness model: values are arbitrary.
// Units that decide C07 use rng_tape_shim.rs (ghost tape) instead.
#[verifier::external_body]
pub struct ThreadRng { _p: u8 }

#[verifier::external_body]
pub fn thread_rng() -> (r: ThreadRng) { unimplemented!() }

pub mod rand {
    pub use super::thread_rng;
}

impl ThreadRng {
    /// rand::RngCore::fill_bytes
    #[verifier::external_body]
    pub fn fill_bytes(&mut self, dest: &mut [u8])
        ensures final(dest)@.len() == old(dest)@.len(),
    { unimplemented!() }
}

impl Scalar {
    /// ff::Field::random
    #[verifier::external_body]
    pub fn random(rng: ThreadRng) -> (r: Scalar) { unimplemented!() }
}
