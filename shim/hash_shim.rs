// hash_shim — hash primitives as uninterpreted, deterministic spec functions (A-hash).  TRUSTED.
// No collision-freeness is assumed anywhere; theorems that need it carry it as a hypothesis.

/// expand_message_{xmd,xof} of the ciphersuite CS applied to (msg, dst), `len` output octets.
pub uninterp spec fn expand_spec<CS>(msg: Seq<u8>, dst: Seq<u8>, len: nat) -> Seq<u8>;
/// hash_to_curve_g1 of the ciphersuite CS.
pub uninterp spec fn h2c_spec<CS>(msg: Seq<u8>, dst: Seq<u8>) -> G1Projective;

pub broadcast proof fn ax_expand_len<CS>(msg: Seq<u8>, dst: Seq<u8>, len: nat)
    ensures (#[trigger] expand_spec::<CS>(msg, dst, len)).len() == len,
{ admit(); }

#[derive(Debug)]
pub struct ExpandErr;

#[verifier::external_body]
pub struct ExpanderX { _p: u8 }

pub uninterp spec fn expander_out(e: ExpanderX) -> Seq<u8>;

impl ExpanderX {
    /// elliptic_curve::hash2curve::Expander::fill_bytes — writes okm.len() octets
    #[verifier::external_body]
    pub fn fill_bytes(&mut self, okm: &mut [u8])
        requires old(okm)@.len() <= expander_out(*old(self)).len(),
        ensures
            final(okm)@.len() == old(okm)@.len(),
            final(okm)@ == expander_out(*old(self)).subrange(0, old(okm)@.len() as int),
    { unimplemented!() }
}

/// `CS::Expander::expand_message(&[msg], &[dst], len)` (rule R3).  elliptic-curve 0.13.8 returns
/// Err only for an empty `dsts` list, len == 0 or len > 65535 / 255 blocks; an over-long DST is
/// hashed, not refused.
#[verifier::external_body]
pub fn expand_message<CS>(msgs: &[&[u8]], dsts: &[&[u8]], len: usize) -> (r: Result<ExpanderX, ExpandErr>)
    ensures
        (msgs@.len() == 1 && dsts@.len() == 1 && 0 < len <= 255) ==> r is Ok,
        (r is Ok && msgs@.len() == 1 && dsts@.len() == 1) ==> expander_out(r->Ok_0) == expand_spec::<CS>(msgs@[0]@, dsts@[0]@, len as nat),
{ unimplemented!() }

/// `G1Projective::hash::<CS::Expander>(msg, dst)` (rule R3)
#[verifier::external_body]
pub fn g1_hash<CS>(msg: &[u8], dst: &[u8]) -> (r: G1Projective)
    ensures r == h2c_spec::<CS>(msg@, dst@),
{ unimplemented!() }
