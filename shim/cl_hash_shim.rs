// cl_hash_shim — digest::Digest as an uninterpreted function of the hashed octets / characters, and
// String concatenation (the CL03 challenges are SHA-256 of concatenated decimal strings).  TRUSTED.
pub trait Digest {}

#[verifier::external_body]
pub struct HashOut { _p: u8 }

pub uninterp spec fn hash_out_view(h: HashOut) -> Seq<u8>;
/// hash of a character string / of an octet string under hash algorithm H (uninterpreted, deterministic)
pub uninterp spec fn hash_str<H>(s: Seq<char>) -> Seq<u8>;
pub uninterp spec fn hash_bytes<H>(s: Seq<u8>) -> Seq<u8>;

impl HashOut {
    #[verifier::external_body]
    pub fn as_slice(&self) -> (r: &[u8])
        ensures r@ == hash_out_view(*self),
    { unimplemented!() }
}

pub trait HashInput: Sized {
    spec fn hashed<H>(self) -> Seq<u8>;
}
impl HashInput for String {
    open spec fn hashed<H>(self) -> Seq<u8> { hash_str::<H>(self@) }
}
impl<'a> HashInput for &'a [u8] {
    open spec fn hashed<H>(self) -> Seq<u8> { hash_bytes::<H>(self@) }
}

/// `<H as Digest>::digest(data)` (rule R3)
#[verifier::external_body]
pub fn digest_shim<H, T: HashInput>(data: T) -> (r: HashOut)
    ensures hash_out_view(r) == data.hashed::<H>(),
{ unimplemented!() }

/// `String::from("literal")` (rule R9)
#[verifier::external_body]
pub fn string_from_lit(lit: &'static str) -> (r: String)
    ensures r@ == lit@,
{ unimplemented!() }

/// `String + &x.to_string()` (rule R9)
#[verifier::external_body]
pub fn str_cat(a: String, b: &String) -> (r: String)
    ensures r@ == a@ + b@,
{ unimplemented!() }
