// cl_rng_shim — rand / rand_chacha / rug::rand as opaque sources (values unconstrained).  TRUSTED.
#[verifier::external_body]
pub struct ThreadRng { _p: u8 }

pub mod rand {
    #[verifier::external_body]
    pub fn thread_rng() -> (r: super::ThreadRng) { unimplemented!() }
}

impl ThreadRng {
    /// rand::Rng::gen::<[u8; 32]>() (the seed type of ChaCha20Rng)
    #[verifier::external_body]
    pub fn gen(&mut self) -> (r: [u8; 32]) { unimplemented!() }
}

#[verifier::external_body]
pub struct ChaCha20Rng { _p: u8 }

impl ChaCha20Rng {
    #[verifier::external_body]
    pub fn from_seed(seed: [u8; 32]) -> (r: ChaCha20Rng) { unimplemented!() }
}

impl RandState {
    /// rug::rand::RandState::new_custom(&mut dyn RandGen)
    #[verifier::external_body]
    pub fn new_custom<T>(g: &mut T) -> (r: RandState) { unimplemented!() }
}
