// util_shim — assumed contracts for two zkryptium leaves that Verus cannot ingest; each is
// discharged (or cross-checked) on the REAL function by a Kani harness in /verif/kani.

/// utils::util::bbsplus_utils::i2osp::<N> — `to_be_bytes` + const-generic array arithmetic.
/// Contract proved on the real function by loop-free full-domain Kani harnesses for N = 2 and N = 8
/// (the only instantiations in the BBS code): kani/src/lib.rs i2osp8_spec, i2osp2_spec, i2osp2_panics.
#[verifier::external_body]
pub fn i2osp<const N: usize>(x: usize) -> (r: [u8; N])
    requires
        N >= 8 || x < pow256(N as nat),   // the real function asserts this ("i2osp overflow")
        N == 8 || N == 2,                  // instantiations covered by the leaf proofs
    ensures
        r@ == i2osp_spec(x as nat, N as nat),
{
    unimplemented!()
}

/// utils::util::bbsplus_utils::serialize::<Scalar> — TypeId/`dyn Any` dispatch; at T = Scalar it
/// concatenates the 32-octet big-endian encodings (bounded Kani cross-check: kani serialize_scalars).
#[verifier::external_body]
pub fn serialize(array: &[Scalar]) -> (r: Vec<u8>)
    ensures
        r@ == enc_scalars(array@),
{
    unimplemented!()
}

/// R8: `once(X).chain(Y.iter().map(|m| m.value)).chain(once(Z)).collect()`
#[verifier::external_body]
pub fn once_values_once(x: Scalar, y: &[BBSplusMessage], z: Scalar) -> (r: Vec<Scalar>)
    ensures
        r@ == seq![x] + msg_values(y@) + seq![z],
{
    unimplemented!()
}
