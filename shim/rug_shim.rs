// rug_shim — abstract model of rug::Integer (GMP) for the CL03 units (A-rug).  TRUSTED.
// `Integer` is an abstract sort with a mathematical view `int`; rug's lazily evaluated
// "incomplete" values (`&a - &b`, `x.pow_mod_ref(..)`, `x.gcd_ref(..)`, ..) are identified with the
// completed Integer (`Integer::from(incomplete)` / `.complete()` are the identity on the view).
// Modular exponentiation is an uninterpreted function with the usual laws as axioms.

#[verifier::external_body]
#[derive(Debug)]
pub struct Integer { _p: u64 }

pub uninterp spec fn int_view(i: Integer) -> int;

impl View for Integer {
    type V = int;
    open spec fn view(&self) -> int { int_view(*self) }
}

pub broadcast proof fn ax_integer_ext(a: Integer, b: Integer)
    requires #[trigger] int_view(a) == #[trigger] int_view(b),
    ensures a == b,
{ admit(); }

impl Clone for Integer {
    #[verifier::external_body]
    fn clone(&self) -> (r: Integer)
        ensures r@ == self@,
    { unimplemented!() }
}

// ---- arithmetic specs ------------------------------------------------------------------------------
pub open spec fn ipow(b: int, e: nat) -> int
    decreases e,
{
    if e == 0 { 1 } else { b * ipow(b, (e - 1) as nat) }
}

/// b^e mod n (e may be negative when b is invertible mod n); uninterpreted, laws below
pub uninterp spec fn pow_mod(b: int, e: int, n: int) -> int;
pub uninterp spec fn igcd(a: int, b: int) -> int;
pub uninterp spec fn inv_mod(a: int, n: int) -> int;
pub uninterp spec fn isqrt(a: int) -> int;
pub uninterp spec fn is_prime(a: int) -> bool;
pub uninterp spec fn bit_len(a: int) -> nat;
pub uninterp spec fn digits_be(a: int) -> Seq<u8>;
pub uninterp spec fn from_digits_be(b: Seq<u8>) -> int;
pub uninterp spec fn dec_string(a: int) -> Seq<char>;

pub open spec fn invertible(a: int, n: int) -> bool { n > 0 && igcd(a, n) == 1 }

pub open spec fn emod(a: int, n: int) -> int { a % n }

// ---- constructors / comparisons over "integer-like" values (rule R9, ops mode) ------------------------
/// values with an integer reading: Integer, &Integer, primitive integers, bool (0/1), Ordering (-1/0/1)
pub trait AsInt {
    spec fn as_int(&self) -> int;
}
impl AsInt for Integer { open spec fn as_int(&self) -> int { self@ } }
impl<'a> AsInt for &'a Integer { open spec fn as_int(&self) -> int { (**self)@ } }
impl AsInt for i32 { open spec fn as_int(&self) -> int { *self as int } }
impl AsInt for u32 { open spec fn as_int(&self) -> int { *self as int } }
impl AsInt for u64 { open spec fn as_int(&self) -> int { *self as int } }
impl AsInt for usize { open spec fn as_int(&self) -> int { *self as int } }
impl AsInt for u8 { open spec fn as_int(&self) -> int { *self as int } }
impl AsInt for bool { open spec fn as_int(&self) -> int { if *self { 1 } else { 0 } } }
impl AsInt for core::cmp::Ordering {
    open spec fn as_int(&self) -> int {
        match *self { core::cmp::Ordering::Less => -1, core::cmp::Ordering::Equal => 0, core::cmp::Ordering::Greater => 1 }
    }
}

impl AsInt for IsPrime {
    open spec fn as_int(&self) -> int { match *self { IsPrime::No => 0, IsPrime::Probably => 1, IsPrime::Yes => 2 } }
}

/// `Integer::from(x)` for a primitive, an Integer or one of rug's incomplete values (all Integer here)
#[verifier::external_body]
pub fn int_from<T: AsInt>(x: T) -> (r: Integer)
    ensures r@ == x.as_int(),
{ unimplemented!() }

#[verifier::external_body]
pub fn icmp_eq<A: AsInt, B: AsInt>(a: &A, b: &B) -> (r: bool) ensures r == (a.as_int() == b.as_int()) { unimplemented!() }
#[verifier::external_body]
pub fn icmp_ne<A: AsInt, B: AsInt>(a: &A, b: &B) -> (r: bool) ensures r == (a.as_int() != b.as_int()) { unimplemented!() }
#[verifier::external_body]
pub fn icmp_lt<A: AsInt, B: AsInt>(a: &A, b: &B) -> (r: bool) ensures r == (a.as_int() < b.as_int()) { unimplemented!() }
#[verifier::external_body]
pub fn icmp_le<A: AsInt, B: AsInt>(a: &A, b: &B) -> (r: bool) ensures r == (a.as_int() <= b.as_int()) { unimplemented!() }
#[verifier::external_body]
pub fn icmp_gt<A: AsInt, B: AsInt>(a: &A, b: &B) -> (r: bool) ensures r == (a.as_int() > b.as_int()) { unimplemented!() }
#[verifier::external_body]
pub fn icmp_ge<A: AsInt, B: AsInt>(a: &A, b: &B) -> (r: bool) ensures r == (a.as_int() >= b.as_int()) { unimplemented!() }

pub enum Order { MsfBe, LsfLe }

pub enum IsPrime { No, Probably, Yes }

#[verifier::external_body]
pub struct RandState { _p: u8 }

impl Integer {
    #[verifier::external_body]
    pub fn cmp(&self, o: &Integer) -> (r: core::cmp::Ordering)
        ensures r.as_int() == (if self@ < o@ { -1int } else if self@ == o@ { 0int } else { 1int }),
    { unimplemented!() }

    #[verifier::external_body]
    pub fn complete(self) -> (r: Integer)
        ensures r@ == self@,
    { unimplemented!() }

    /// rug::ops::Pow<u32>
    #[verifier::external_body]
    pub fn pow(self, e: u32) -> (r: Integer)
        ensures r@ == ipow(self@, e as nat),
    { unimplemented!() }

    /// rug::Integer::square
    #[verifier::external_body]
    pub fn square(self) -> (r: Integer)
        ensures r@ == self@ * self@, r@ == ipow(self@, 2),
    { unimplemented!() }

    /// None iff the exponent is negative and self is not invertible modulo n (or n == 0)
    #[verifier::external_body]
    pub fn pow_mod_ref(&self, e: &Integer, n: &Integer) -> (r: Option<Integer>)
        ensures
            (n@ > 0 && (e@ >= 0 || invertible(self@, n@))) ==> r is Some,
            r is Some ==> r->0@ == pow_mod(self@, e@, n@),
            r is Some ==> 0 <= r->0@ && (n@ > 0 ==> r->0@ < n@),
    { unimplemented!() }

    #[verifier::external_body]
    pub fn pow_mod(self, e: &Integer, n: &Integer) -> (r: Result<Integer, Integer>)
        ensures
            (n@ > 0 && (e@ >= 0 || invertible(self@, n@))) ==> r is Ok,
            r is Ok ==> r->Ok_0@ == pow_mod(self@, e@, n@),
    { unimplemented!() }

    /// panics unless e > 0 and n is odd
    #[verifier::external_body]
    pub fn secure_pow_mod(self, e: &Integer, n: &Integer) -> (r: Integer)
        requires e@ > 0, n@ % 2 == 1,
        ensures r@ == pow_mod(self@, e@, n@), 0 <= r@ < n@,
    { unimplemented!() }

    #[verifier::external_body]
    pub fn invert_ref(&self, n: &Integer) -> (r: Option<Integer>)
        ensures
            invertible(self@, n@) <==> r is Some,
            r is Some ==> r->0@ == inv_mod(self@, n@) && 0 <= r->0@ < n@ && (self@ * r->0@) % n@ == 1int % n@,
    { unimplemented!() }

    #[verifier::external_body]
    pub fn gcd_ref(&self, o: &Integer) -> (r: Integer)
        ensures r@ == igcd(self@, o@),
    { unimplemented!() }

    #[verifier::external_body]
    pub fn gcd_mut(&mut self, o: &Integer)
        ensures final(self)@ == igcd(old(self)@, o@),
    { unimplemented!() }

    /// exact division (rug: the result is unspecified unless d divides self; division by zero panics)
    #[verifier::external_body]
    pub fn div_exact_ref(&self, d: &Integer) -> (r: Integer)
        requires d@ != 0,
        ensures self@ % d@ == 0 ==> r@ * d@ == self@,
    { unimplemented!() }

    #[verifier::external_body]
    pub fn gcd(self, o: &Integer) -> (r: Integer)
        ensures r@ == igcd(self@, o@),
    { unimplemented!() }

    #[verifier::external_body]
    pub fn sqrt_ref(&self) -> (r: Integer)
        requires self@ >= 0,
        ensures r@ == isqrt(self@), r@ >= 0, r@ * r@ <= self@, self@ < (r@ + 1) * (r@ + 1),
    { unimplemented!() }

    /// idealised: the smallest prime greater than self
    #[verifier::external_body]
    pub fn next_prime(self) -> (r: Integer)
        ensures r@ > self@, is_prime(r@),
    { unimplemented!() }

    /// idealised as exact primality (A-rug): != No  <==>  prime
    #[verifier::external_body]
    pub fn is_probably_prime(&self, reps: u32) -> (r: IsPrime)
        ensures !(r is No) <==> is_prime(self@),
    { unimplemented!() }

    #[verifier::external_body]
    pub fn significant_bits(&self) -> (r: u32)
        ensures r as nat == bit_len(self@),
    { unimplemented!() }

    /// sets bit `i` to 1 (only used with val = true)
    #[verifier::external_body]
    pub fn set_bit(&mut self, i: u32, val: bool)
        requires val,
        ensures
            old(self)@ >= 0 ==> final(self)@ >= old(self)@,
            (0 <= old(self)@ < ipow(2, (i + 1) as nat)) ==> (ipow(2, i as nat) <= final(self)@ < ipow(2, (i + 1) as nat)),
    { unimplemented!() }

    #[verifier::external_body]
    pub fn random_bits(n: u32, rng: &mut RandState) -> (r: Integer)
        ensures 0 <= r@ < ipow(2, n as nat),
    { unimplemented!() }

    /// panics if self <= 0
    #[verifier::external_body]
    pub fn random_below(self, rng: &mut RandState) -> (r: Integer)
        requires self@ > 0,
        ensures 0 <= r@ < self@,
    { unimplemented!() }

    #[verifier::external_body]
    pub fn from_digits(d: &[u8], o: Order) -> (r: Integer)
        ensures r@ == from_digits_be(d@), r@ >= 0,
    { unimplemented!() }

    #[verifier::external_body]
    pub fn to_digits(&self, o: Order) -> (r: Vec<u8>)
        ensures r@ == digits_be(self@),
    { unimplemented!() }

    /// panics if the buffer is too small
    #[verifier::external_body]
    pub fn write_digits(&self, d: &mut [u8], o: Order)
        requires bit_len(self@) <= 8 * old(d)@.len(),
        ensures final(d)@.len() == old(d)@.len(), from_digits_be(final(d)@) == (if self@ >= 0 { self@ } else { -self@ }),
    { unimplemented!() }

    #[verifier::external_body]
    pub fn to_string(&self) -> (r: String)
        ensures r@ == dec_string(self@),
    { unimplemented!() }
}

// ---- operators: every owned/borrowed combination yields an Integer ---------------------------------
macro_rules! int_binop {
    ($tr:ident, $m:ident, $sp:ident, $obeys:ident, $req:ident, $spec:ident, $L:ty, $R:ty, |$a:ident, $b:ident| $body:expr) => {
        verus! {
        impl vstd::std_specs::ops::$sp<$R> for $L {
            open spec fn $obeys() -> bool { false }
            open spec fn $req(self, rhs: $R) -> bool { true }
            uninterp spec fn $spec(self, rhs: $R) -> Integer;
        }
        impl core::ops::$tr<$R> for $L {
            type Output = Integer;
            #[verifier::external_body]
            fn $m(self, rhs: $R) -> (r: Integer)
                ensures ({ let $a = self.as_int(); let $b = rhs.as_int(); r@ == $body }),
            { unimplemented!() }
        }
        }
    };
}
macro_rules! int_binop_all {
    ($tr:ident, $m:ident, $sp:ident, $obeys:ident, $req:ident, $spec:ident, |$a:ident, $b:ident| $body:expr) => {
        int_binop!($tr, $m, $sp, $obeys, $req, $spec, Integer, Integer, |$a, $b| $body);
        int_binop!($tr, $m, $sp, $obeys, $req, $spec, Integer, &Integer, |$a, $b| $body);
        int_binop!($tr, $m, $sp, $obeys, $req, $spec, &Integer, Integer, |$a, $b| $body);
        int_binop!($tr, $m, $sp, $obeys, $req, $spec, &Integer, &Integer, |$a, $b| $body);
        int_binop!($tr, $m, $sp, $obeys, $req, $spec, Integer, i32, |$a, $b| $body);
        int_binop!($tr, $m, $sp, $obeys, $req, $spec, &Integer, i32, |$a, $b| $body);
    };
}
int_binop_all!(Add, add, AddSpecImpl, obeys_add_spec, add_req, add_spec, |a, b| a + b);
int_binop_all!(Sub, sub, SubSpecImpl, obeys_sub_spec, sub_req, sub_spec, |a, b| a - b);
int_binop_all!(Mul, mul, MulSpecImpl, obeys_mul_spec, mul_req, mul_spec, |a, b| a * b);
int_binop_all!(Rem, rem, RemSpecImpl, obeys_rem_spec, rem_req, rem_spec, |a, b| a % b);

/// right-nested product -> left-nested (one direction only, so that it can be broadcast next to commutativity); proved, not assumed
pub broadcast proof fn lemma_mul_assoc_left(x: int, y: int, z: int)
    ensures #[trigger] (x * (y * z)) == (x * y) * z,
{ assert(x * (y * z) == (x * y) * z) by (nonlinear_arith); }

// ---- number-theory axioms (A-rug) -----------------------------------------------------------------------
/// RSA / Euler: for N = p*q (distinct primes), gcd(x, N) = 1 and d = e^{-1} mod (p-1)(q-1):  (x^d)^e = x (mod N)
pub proof fn ax_euler_rsa(x: int, e: int, p: int, q: int)
    requires
        is_prime(p), is_prime(q), p != q,
        igcd(x, p * q) == 1,
        invertible(e, (p - 1) * (q - 1)),
    ensures
        pow_mod(pow_mod(x, inv_mod(e, (p - 1) * (q - 1)), p * q), e, p * q) == x % (p * q),
{ admit(); }

/// exponent laws modulo n (n > 0; negative exponents when the base is invertible)
pub proof fn ax_pow_mod_add(b: int, e1: int, e2: int, n: int)
    requires n > 0, (e1 >= 0 && e2 >= 0) || invertible(b, n),
    ensures pow_mod(b, e1 + e2, n) == (pow_mod(b, e1, n) * pow_mod(b, e2, n)) % n,
{ admit(); }

pub proof fn ax_pow_mod_mul(b: int, e1: int, e2: int, n: int)
    requires n > 0, (e1 >= 0 && e2 >= 0) || invertible(b, n),
    ensures pow_mod(pow_mod(b, e1, n), e2, n) == pow_mod(b, e1 * e2, n),
{ admit(); }

/// power of a product
pub proof fn ax_pow_mod_prod(a: int, b: int, e: int, n: int)
    requires n > 0, e >= 0 || (invertible(a, n) && invertible(b, n)),
    ensures pow_mod(a * b, e, n) == (pow_mod(a, e, n) * pow_mod(b, e, n)) % n,
{ admit(); }

pub proof fn ax_pow_mod_base_mod(b: int, e: int, n: int)
    requires n > 0,
    ensures pow_mod(b % n, e, n) == pow_mod(b, e, n),
{ admit(); }

pub proof fn ax_pow_mod_one(b: int, n: int)
    requires n > 0,
    ensures pow_mod(b, 1, n) == b % n, pow_mod(b, 0, n) == 1int % n,
{ admit(); }

pub proof fn ax_pow_mod_range(b: int, e: int, n: int)
    requires n > 0,
    ensures 0 <= pow_mod(b, e, n) < n,
{ admit(); }

/// 2^k - 1 has exactly k significant bits
pub proof fn ax_bit_len_pow2m1(k: nat)
    ensures bit_len(ipow(2, k) - 1) == k,
{ admit(); }

pub proof fn ax_gcd_one(n: int)
    requires n > 0,
    ensures igcd(1, n) == 1,
{ admit(); }

/// (2^k - 1) - (2^(k-1) + 1) has fewer than 50000 significant bits for the exponent lengths in use (k < 49000)
pub proof fn ax_bit_len_e_range(k: nat)
    requires 2 <= k < 49000,
    ensures bit_len((ipow(2, k) - 1) - (ipow(2, (k - 1) as nat) + 1)) < 50000,
{ admit(); }

/// to_digits / from_digits round trip (most significant first, no leading zeros) for non-negative values
pub proof fn ax_digits_roundtrip(a: int)
    requires a >= 0,
    ensures from_digits_be(digits_be(a)) == a,
{ admit(); }

/// gcd depends on the residue only
pub proof fn ax_gcd_mod(a: int, n: int)
    requires n > 0,
    ensures igcd(a % n, n) == igcd(a, n),
{ admit(); }

/// a product of units is a unit
pub proof fn ax_gcd_mul(a: int, b: int, n: int)
    requires igcd(a, n) == 1, igcd(b, n) == 1,
    ensures igcd(a * b, n) == 1,
{ admit(); }

pub proof fn ax_gcd_pow_mod(b: int, e: int, n: int)
    requires n > 0, igcd(b, n) == 1,
    ensures igcd(pow_mod(b, e, n), n) == 1,
{ admit(); }

// ---- negation ---------------------------------------------------------------------------------------
impl vstd::std_specs::ops::NegSpecImpl for Integer {
    open spec fn obeys_neg_spec() -> bool { false }
    open spec fn neg_req(self) -> bool { true }
    uninterp spec fn neg_spec(self) -> Integer;
}
impl core::ops::Neg for Integer {
    type Output = Integer;
    #[verifier::external_body]
    fn neg(self) -> (r: Integer)
        ensures r@ == -self@,
    { unimplemented!() }
}

impl<'a> vstd::std_specs::ops::NegSpecImpl for &'a Integer {
    open spec fn obeys_neg_spec() -> bool { false }
    open spec fn neg_req(self) -> bool { true }
    uninterp spec fn neg_spec(self) -> Integer;
}
/// `-&a` (rug: an incomplete value, completed by Integer::from)
impl<'a> core::ops::Neg for &'a Integer {
    type Output = Integer;
    #[verifier::external_body]
    fn neg(self) -> (r: Integer)
        ensures r@ == -self@,
    { unimplemented!() }
}

// ---- rug::ops::DivRounding::div_floor on u32 -----------------------------------------------------------
pub mod rug {
    pub mod ops {
        use vstd::prelude::*;
        pub struct DivRounding;
        impl DivRounding {
            #[verifier::external_body]
            pub fn div_floor(a: u32, b: u32) -> (r: u32)
                requires b != 0,
                ensures r == a / b,
            { unimplemented!() }
        }
    }
}
