// bls_shim — abstract model of bls12_381_plus 0.8.18 (A-alg, A-codec).  TRUSTED.
//
// Group elements and scalars are abstract sorts; spec equality is *mathematical* equality of the
// element (projective representatives of the same point are identified; bls12_381_plus's
// PartialEq, arithmetic and encoders respect this).  The algebra is a set of uninterpreted spec
// functions; the laws of prime-order bilinear groups are `broadcast proof fn .. { admit(); }`
// axioms, grouped so each unit imports only what it needs.

#[verifier::external_body]
#[derive(Clone, Copy)]
pub struct Scalar { _p: [u8; 32] }

#[verifier::external_body]
#[derive(Clone, Copy)]
pub struct G1Projective { _p: [u8; 48] }

#[verifier::external_body]
#[derive(Clone, Copy)]
pub struct G1Affine { _p: [u8; 48] }

#[verifier::external_body]
#[derive(Clone, Copy)]
pub struct G2Projective { _p: [u8; 96] }

#[verifier::external_body]
#[derive(Clone, Copy)]
pub struct G2Affine { _p: [u8; 96] }

#[verifier::external_body]
pub struct G2Prepared { _p: [u8; 96] }

#[verifier::external_body]
#[derive(Clone, Copy)]
pub struct Gt { _p: [u8; 96] }

#[verifier::external_body]
pub struct MillerLoopResult { _p: [u8; 96] }

#[verifier::external_body]
#[derive(Clone, Copy)]
pub struct Choice { _p: u8 }

#[verifier::external_body]
#[verifier::reject_recursive_types(T)]
pub struct CtOption<T> { _p: core::marker::PhantomData<T> }

// ---- algebra (spec) ---------------------------------------------------------------------------
pub uninterp spec fn s_zero() -> Scalar;
pub uninterp spec fn s_one() -> Scalar;
pub uninterp spec fn s_add(a: Scalar, b: Scalar) -> Scalar;
pub uninterp spec fn s_mul(a: Scalar, b: Scalar) -> Scalar;
pub uninterp spec fn s_neg(a: Scalar) -> Scalar;
pub uninterp spec fn s_inv(a: Scalar) -> Scalar;
pub open spec fn s_sub(a: Scalar, b: Scalar) -> Scalar { s_add(a, s_neg(b)) }

pub uninterp spec fn g1_zero() -> G1Projective;
pub uninterp spec fn g1_gen() -> G1Projective;
pub uninterp spec fn g1_add(a: G1Projective, b: G1Projective) -> G1Projective;
pub uninterp spec fn g1_neg(a: G1Projective) -> G1Projective;
pub uninterp spec fn g1_mul(p: G1Projective, s: Scalar) -> G1Projective;
pub open spec fn g1_sub(a: G1Projective, b: G1Projective) -> G1Projective { g1_add(a, g1_neg(b)) }

pub uninterp spec fn g2_zero() -> G2Projective;
pub uninterp spec fn g2_gen() -> G2Projective;
pub uninterp spec fn g2_add(a: G2Projective, b: G2Projective) -> G2Projective;
pub uninterp spec fn g2_neg(a: G2Projective) -> G2Projective;
pub uninterp spec fn g2_mul(p: G2Projective, s: Scalar) -> G2Projective;

pub uninterp spec fn gt_one() -> Gt;
pub uninterp spec fn gt_mul(a: Gt, b: Gt) -> Gt;
pub uninterp spec fn pair(p: G1Projective, q: G2Projective) -> Gt;

// affine <-> projective: two exec types, one mathematical point
pub uninterp spec fn g1_of_aff(a: G1Affine) -> G1Projective;
pub uninterp spec fn g1_to_aff(p: G1Projective) -> G1Affine;
pub uninterp spec fn g2_of_aff(a: G2Affine) -> G2Projective;
pub uninterp spec fn g2_to_aff(p: G2Projective) -> G2Affine;
pub uninterp spec fn g2_of_prep(a: G2Prepared) -> G2Projective;
pub uninterp spec fn ml_value(m: MillerLoopResult) -> Gt;

// ---- codecs (spec) ----------------------------------------------------------------------------
pub uninterp spec fn sc_enc(s: Scalar) -> Seq<u8>;          // 32 octets, big endian, canonical
pub uninterp spec fn sc_dec(b: Seq<u8>) -> Option<Scalar>;
pub uninterp spec fn g1_enc(p: G1Projective) -> Seq<u8>;    // 48 octets, compressed
pub uninterp spec fn g1_dec(b: Seq<u8>) -> Option<G1Projective>;
pub uninterp spec fn g2_enc(p: G2Projective) -> Seq<u8>;    // 96 octets, compressed
pub uninterp spec fn g2_dec(b: Seq<u8>) -> Option<G2Projective>;
pub uninterp spec fn g2_enc_unc(p: G2Projective) -> Seq<u8>; // 192 octets, uncompressed
pub uninterp spec fn g2_dec_unc(b: Seq<u8>) -> Option<G2Projective>;
pub uninterp spec fn g1_from_hex(s: Seq<char>) -> Option<G1Projective>;
pub uninterp spec fn okm_to_scalar(b: Seq<u8>) -> Scalar;   // OS2IP(48 octets) mod r

pub uninterp spec fn choice_view(c: Choice) -> bool;
pub uninterp spec fn ct_view<T>(c: CtOption<T>) -> Option<T>;

impl Choice {
    pub open spec fn view(self) -> bool { choice_view(self) }
}

impl<T> CtOption<T> {
    pub open spec fn view(self) -> Option<T> { ct_view(self) }

    #[verifier::external_body]
    pub fn is_none(&self) -> (r: Choice)
        ensures r@ == (self@ is None),
    { unimplemented!() }

    #[verifier::external_body]
    pub fn is_some(&self) -> (r: Choice)
        ensures r@ == (self@ is Some),
    { unimplemented!() }

    /// panics on None (subtle: assert_eq!(is_some, 1))
    #[verifier::external_body]
    pub fn unwrap(self) -> (r: T)
        requires self@ is Some,
        ensures r == self@->0,
    { unimplemented!() }

    #[verifier::external_body]
    pub fn map<U, F: FnOnce(T) -> U>(self, f: F) -> (r: CtOption<U>)
        requires
            self@ is Some ==> f.requires((self@->0,)),
        ensures
            self@ is None ==> r@ is None,
            self@ is Some ==> r@ is Some && f.ensures((self@->0,), r@->0),
    { unimplemented!() }
}

impl vstd::std_specs::convert::FromSpecImpl<Choice> for bool {
    open spec fn obeys_from_spec() -> bool { true }
    open spec fn from_spec(c: Choice) -> bool { c@ }
}
impl From<Choice> for bool {
    #[verifier::external_body]
    fn from(c: Choice) -> (r: bool) { unimplemented!() }
}

impl<T> vstd::std_specs::convert::FromSpecImpl<CtOption<T>> for Option<T> {
    open spec fn obeys_from_spec() -> bool { true }
    open spec fn from_spec(c: CtOption<T>) -> Option<T> { c@ }
}
impl<T> From<CtOption<T>> for Option<T> {
    #[verifier::external_body]
    fn from(c: CtOption<T>) -> (r: Option<T>) { unimplemented!() }
}

// ---- Scalar -------------------------------------------------------------------------------------
impl Scalar {
    pub const BYTES: usize = 32;

    pub exec const ZERO: Scalar
        ensures Self::ZERO == s_zero(),
    { scalar_zero_() }

    pub exec const ONE: Scalar
        ensures Self::ONE == s_one(),
    { scalar_one_() }

    #[verifier::external_body]
    pub fn to_be_bytes(&self) -> (r: [u8; 32])
        ensures r@ == sc_enc(*self),
    { unimplemented!() }

    #[verifier::external_body]
    pub fn from_be_bytes(b: &[u8; 32]) -> (r: CtOption<Scalar>)
        ensures r@ == sc_dec(b@),
    { unimplemented!() }

    #[verifier::external_body]
    pub fn from_okm(b: &[u8; 48]) -> (r: Scalar)
        ensures r == okm_to_scalar(b@),
    { unimplemented!() }

    #[verifier::external_body]
    pub fn invert(&self) -> (r: CtOption<Scalar>)
        ensures
            *self == s_zero() ==> r@ is None,
            *self != s_zero() ==> r@ == Some(s_inv(*self)),
    { unimplemented!() }
}

#[verifier::external_body]
const fn scalar_zero_() -> (r: Scalar) ensures r == s_zero() { Scalar { _p: [0u8; 32] } }
#[verifier::external_body]
const fn scalar_one_() -> (r: Scalar) ensures r == s_one() { Scalar { _p: [1u8; 32] } }
#[verifier::external_body]
const fn g1_identity_() -> (r: G1Projective) ensures r == g1_zero() { G1Projective { _p: [0u8; 48] } }
#[verifier::external_body]
const fn g1_generator_() -> (r: G1Projective) ensures r == g1_gen() { G1Projective { _p: [1u8; 48] } }
#[verifier::external_body]
const fn g2_generator_() -> (r: G2Projective) ensures r == g2_gen() { G2Projective { _p: [1u8; 96] } }
#[verifier::external_body]
const fn gt_identity_() -> (r: Gt) ensures r == gt_one() { Gt { _p: [0u8; 96] } }

// Operators.  `a op b` on owned operands; the spec result is the uninterpreted algebra function.
impl vstd::std_specs::ops::AddSpecImpl<Scalar> for Scalar {
    open spec fn obeys_add_spec() -> bool { true }
    open spec fn add_req(self, rhs: Scalar) -> bool { true }
    open spec fn add_spec(self, rhs: Scalar) -> Scalar { s_add(self, rhs) }
}
impl core::ops::Add<Scalar> for Scalar {
    type Output = Scalar;
    #[verifier::external_body]
    fn add(self, rhs: Scalar) -> (r: Scalar) { unimplemented!() }
}
impl vstd::std_specs::ops::SubSpecImpl<Scalar> for Scalar {
    open spec fn obeys_sub_spec() -> bool { true }
    open spec fn sub_req(self, rhs: Scalar) -> bool { true }
    open spec fn sub_spec(self, rhs: Scalar) -> Scalar { s_sub(self, rhs) }
}
impl core::ops::Sub<Scalar> for Scalar {
    type Output = Scalar;
    #[verifier::external_body]
    fn sub(self, rhs: Scalar) -> (r: Scalar) { unimplemented!() }
}
impl vstd::std_specs::ops::MulSpecImpl<Scalar> for Scalar {
    open spec fn obeys_mul_spec() -> bool { true }
    open spec fn mul_req(self, rhs: Scalar) -> bool { true }
    open spec fn mul_spec(self, rhs: Scalar) -> Scalar { s_mul(self, rhs) }
}
impl core::ops::Mul<Scalar> for Scalar {
    type Output = Scalar;
    #[verifier::external_body]
    fn mul(self, rhs: Scalar) -> (r: Scalar) { unimplemented!() }
}
impl vstd::std_specs::ops::NegSpecImpl for Scalar {
    open spec fn obeys_neg_spec() -> bool { true }
    open spec fn neg_req(self) -> bool { true }
    open spec fn neg_spec(self) -> Scalar { s_neg(self) }
}
impl core::ops::Neg for Scalar {
    type Output = Scalar;
    #[verifier::external_body]
    fn neg(self) -> (r: Scalar) { unimplemented!() }
}
impl vstd::std_specs::ops::AddAssignSpecImpl<Scalar> for Scalar {
    open spec fn obeys_add_assign_spec() -> bool { true }
    open spec fn add_assign_req(&self, rhs: Scalar) -> bool { true }
    open spec fn add_assign_spec(&self, rhs: Scalar) -> &Scalar { &s_add(*self, rhs) }
}
impl core::ops::AddAssign<Scalar> for Scalar {
    #[verifier::external_body]
    fn add_assign(&mut self, rhs: Scalar)
    { unimplemented!() }
}
impl vstd::std_specs::ops::SubAssignSpecImpl<Scalar> for Scalar {
    open spec fn obeys_sub_assign_spec() -> bool { true }
    open spec fn sub_assign_req(&self, rhs: Scalar) -> bool { true }
    open spec fn sub_assign_spec(&self, rhs: Scalar) -> &Scalar { &s_sub(*self, rhs) }
}
impl core::ops::SubAssign<Scalar> for Scalar {
    #[verifier::external_body]
    fn sub_assign(&mut self, rhs: Scalar)
    { unimplemented!() }
}
impl vstd::std_specs::ops::MulAssignSpecImpl<Scalar> for Scalar {
    open spec fn obeys_mul_assign_spec() -> bool { true }
    open spec fn mul_assign_req(&self, rhs: Scalar) -> bool { true }
    open spec fn mul_assign_spec(&self, rhs: Scalar) -> &Scalar { &s_mul(*self, rhs) }
}
impl core::ops::MulAssign<Scalar> for Scalar {
    #[verifier::external_body]
    fn mul_assign(&mut self, rhs: Scalar)
    { unimplemented!() }
}
impl vstd::std_specs::cmp::PartialEqSpecImpl for Scalar {
    open spec fn obeys_eq_spec() -> bool { true }
    open spec fn eq_spec(&self, other: &Scalar) -> bool { *self == *other }
}
impl core::cmp::PartialEq for Scalar {
    #[verifier::external_body]
    fn eq(&self, other: &Scalar) -> (r: bool) { unimplemented!() }
}

// ---- G1 -----------------------------------------------------------------------------------------
impl G1Projective {
    pub const COMPRESSED_BYTES: usize = 48;

    pub exec const IDENTITY: G1Projective
        ensures Self::IDENTITY == g1_zero(),
    { g1_identity_() }

    pub exec const GENERATOR: G1Projective
        ensures Self::GENERATOR == g1_gen(),
    { g1_generator_() }

    #[verifier::external_body]
    pub fn to_affine(&self) -> (r: G1Affine)
        ensures r == g1_to_aff(*self),
    { unimplemented!() }

    #[verifier::external_body]
    pub fn is_identity(&self) -> (r: Choice)
        ensures r@ == (*self == g1_zero()),
    { unimplemented!() }

    #[verifier::external_body]
    pub fn from_compressed_hex(hex: &str) -> (r: CtOption<G1Projective>)
        ensures r@ == g1_from_hex(hex@),
    { unimplemented!() }
}

impl G1Affine {
    pub const COMPRESSED_BYTES: usize = 48;

    #[verifier::external_body]
    pub fn from_compressed(b: &[u8; 48]) -> (r: CtOption<G1Affine>)
        ensures
            g1_dec(b@) is None ==> r@ is None,
            g1_dec(b@) is Some ==> r@ == Some(g1_to_aff(g1_dec(b@)->0)),
    { unimplemented!() }

    #[verifier::external_body]
    pub fn to_compressed(&self) -> (r: [u8; 48])
        ensures r@ == g1_enc(g1_of_aff(*self)),
    { unimplemented!() }
}

impl vstd::std_specs::convert::FromSpecImpl<G1Affine> for G1Projective {
    open spec fn obeys_from_spec() -> bool { true }
    open spec fn from_spec(a: G1Affine) -> G1Projective { g1_of_aff(a) }
}
impl From<G1Affine> for G1Projective {
    #[verifier::external_body]
    fn from(a: G1Affine) -> (r: G1Projective) { unimplemented!() }
}

impl vstd::std_specs::ops::AddSpecImpl<G1Projective> for G1Projective {
    open spec fn obeys_add_spec() -> bool { true }
    open spec fn add_req(self, rhs: G1Projective) -> bool { true }
    open spec fn add_spec(self, rhs: G1Projective) -> G1Projective { g1_add(self, rhs) }
}
impl core::ops::Add<G1Projective> for G1Projective {
    type Output = G1Projective;
    #[verifier::external_body]
    fn add(self, rhs: G1Projective) -> (r: G1Projective) { unimplemented!() }
}
impl vstd::std_specs::ops::SubSpecImpl<G1Projective> for G1Projective {
    open spec fn obeys_sub_spec() -> bool { true }
    open spec fn sub_req(self, rhs: G1Projective) -> bool { true }
    open spec fn sub_spec(self, rhs: G1Projective) -> G1Projective { g1_sub(self, rhs) }
}
impl core::ops::Sub<G1Projective> for G1Projective {
    type Output = G1Projective;
    #[verifier::external_body]
    fn sub(self, rhs: G1Projective) -> (r: G1Projective) { unimplemented!() }
}
impl vstd::std_specs::ops::MulSpecImpl<Scalar> for G1Projective {
    open spec fn obeys_mul_spec() -> bool { true }
    open spec fn mul_req(self, rhs: Scalar) -> bool { true }
    open spec fn mul_spec(self, rhs: Scalar) -> G1Projective { g1_mul(self, rhs) }
}
impl core::ops::Mul<Scalar> for G1Projective {
    type Output = G1Projective;
    #[verifier::external_body]
    fn mul(self, rhs: Scalar) -> (r: G1Projective) { unimplemented!() }
}
impl vstd::std_specs::ops::NegSpecImpl for G1Projective {
    open spec fn obeys_neg_spec() -> bool { true }
    open spec fn neg_req(self) -> bool { true }
    open spec fn neg_spec(self) -> G1Projective { g1_neg(self) }
}
impl core::ops::Neg for G1Projective {
    type Output = G1Projective;
    #[verifier::external_body]
    fn neg(self) -> (r: G1Projective) { unimplemented!() }
}
impl vstd::std_specs::ops::AddAssignSpecImpl<G1Projective> for G1Projective {
    open spec fn obeys_add_assign_spec() -> bool { true }
    open spec fn add_assign_req(&self, rhs: G1Projective) -> bool { true }
    open spec fn add_assign_spec(&self, rhs: G1Projective) -> &G1Projective { &g1_add(*self, rhs) }
}
impl core::ops::AddAssign<G1Projective> for G1Projective {
    #[verifier::external_body]
    fn add_assign(&mut self, rhs: G1Projective)
    { unimplemented!() }
}
impl vstd::std_specs::ops::SubAssignSpecImpl<G1Projective> for G1Projective {
    open spec fn obeys_sub_assign_spec() -> bool { true }
    open spec fn sub_assign_req(&self, rhs: G1Projective) -> bool { true }
    open spec fn sub_assign_spec(&self, rhs: G1Projective) -> &G1Projective { &g1_sub(*self, rhs) }
}
impl core::ops::SubAssign<G1Projective> for G1Projective {
    #[verifier::external_body]
    fn sub_assign(&mut self, rhs: G1Projective)
    { unimplemented!() }
}
impl vstd::std_specs::cmp::PartialEqSpecImpl for G1Projective {
    open spec fn obeys_eq_spec() -> bool { true }
    open spec fn eq_spec(&self, other: &G1Projective) -> bool { *self == *other }
}
impl core::cmp::PartialEq for G1Projective {
    #[verifier::external_body]
    fn eq(&self, other: &G1Projective) -> (r: bool) { unimplemented!() }
}

// ---- G2 -----------------------------------------------------------------------------------------
impl G2Projective {
    pub exec const GENERATOR: G2Projective
        ensures Self::GENERATOR == g2_gen(),
    { g2_generator_() }

    #[verifier::external_body]
    pub fn to_affine(&self) -> (r: G2Affine)
        ensures r == g2_to_aff(*self),
    { unimplemented!() }

    #[verifier::external_body]
    pub fn is_identity(&self) -> (r: Choice)
        ensures r@ == (*self == g2_zero()),
    { unimplemented!() }
}

impl G2Affine {
    pub const COMPRESSED_BYTES: usize = 96;
    pub const UNCOMPRESSED_BYTES: usize = 192;

    #[verifier::external_body]
    pub fn generator() -> (r: G2Affine)
        ensures r == g2_to_aff(g2_gen()),
    { unimplemented!() }

    #[verifier::external_body]
    pub fn from_compressed(b: &[u8; 96]) -> (r: CtOption<G2Affine>)
        ensures
            g2_dec(b@) is None ==> r@ is None,
            g2_dec(b@) is Some ==> r@ == Some(g2_to_aff(g2_dec(b@)->0)),
    { unimplemented!() }

    #[verifier::external_body]
    pub fn from_uncompressed(b: &[u8; 192]) -> (r: CtOption<G2Affine>)
        ensures
            g2_dec_unc(b@) is None ==> r@ is None,
            g2_dec_unc(b@) is Some ==> r@ == Some(g2_to_aff(g2_dec_unc(b@)->0)),
    { unimplemented!() }

    #[verifier::external_body]
    pub fn to_compressed(&self) -> (r: [u8; 96])
        ensures r@ == g2_enc(g2_of_aff(*self)),
    { unimplemented!() }

    #[verifier::external_body]
    pub fn to_uncompressed(&self) -> (r: [u8; 192])
        ensures r@ == g2_enc_unc(g2_of_aff(*self)),
    { unimplemented!() }
}

impl vstd::std_specs::convert::FromSpecImpl<G2Affine> for G2Projective {
    open spec fn obeys_from_spec() -> bool { true }
    open spec fn from_spec(a: G2Affine) -> G2Projective { g2_of_aff(a) }
}
impl From<G2Affine> for G2Projective {
    #[verifier::external_body]
    fn from(a: G2Affine) -> (r: G2Projective) { unimplemented!() }
}
impl vstd::std_specs::convert::FromSpecImpl<G2Affine> for G2Prepared {
    open spec fn obeys_from_spec() -> bool { true }
    open spec fn from_spec(a: G2Affine) -> G2Prepared { g2_prep_of(a) }
}
pub uninterp spec fn g2_prep_of(a: G2Affine) -> G2Prepared;
impl From<G2Affine> for G2Prepared {
    #[verifier::external_body]
    fn from(a: G2Affine) -> (r: G2Prepared) { unimplemented!() }
}

impl vstd::std_specs::ops::AddSpecImpl<G2Projective> for G2Projective {
    open spec fn obeys_add_spec() -> bool { true }
    open spec fn add_req(self, rhs: G2Projective) -> bool { true }
    open spec fn add_spec(self, rhs: G2Projective) -> G2Projective { g2_add(self, rhs) }
}
impl core::ops::Add<G2Projective> for G2Projective {
    type Output = G2Projective;
    #[verifier::external_body]
    fn add(self, rhs: G2Projective) -> (r: G2Projective) { unimplemented!() }
}
impl vstd::std_specs::ops::MulSpecImpl<Scalar> for G2Projective {
    open spec fn obeys_mul_spec() -> bool { true }
    open spec fn mul_req(self, rhs: Scalar) -> bool { true }
    open spec fn mul_spec(self, rhs: Scalar) -> G2Projective { g2_mul(self, rhs) }
}
impl core::ops::Mul<Scalar> for G2Projective {
    type Output = G2Projective;
    #[verifier::external_body]
    fn mul(self, rhs: Scalar) -> (r: G2Projective) { unimplemented!() }
}
impl vstd::std_specs::ops::MulSpecImpl<Scalar> for G2Affine {
    open spec fn obeys_mul_spec() -> bool { true }
    open spec fn mul_req(self, rhs: Scalar) -> bool { true }
    open spec fn mul_spec(self, rhs: Scalar) -> G2Projective { g2_mul(g2_of_aff(self), rhs) }
}
impl core::ops::Mul<Scalar> for G2Affine {
    type Output = G2Projective;
    #[verifier::external_body]
    fn mul(self, rhs: Scalar) -> (r: G2Projective) { unimplemented!() }
}
impl vstd::std_specs::ops::NegSpecImpl for G2Affine {
    open spec fn obeys_neg_spec() -> bool { true }
    open spec fn neg_req(self) -> bool { true }
    open spec fn neg_spec(self) -> G2Affine { g2_to_aff(g2_neg(g2_of_aff(self))) }
}
impl core::ops::Neg for G2Affine {
    type Output = G2Affine;
    #[verifier::external_body]
    fn neg(self) -> (r: G2Affine) { unimplemented!() }
}
impl vstd::std_specs::cmp::PartialEqSpecImpl for G2Projective {
    open spec fn obeys_eq_spec() -> bool { true }
    open spec fn eq_spec(&self, other: &G2Projective) -> bool { *self == *other }
}
impl core::cmp::PartialEq for G2Projective {
    #[verifier::external_body]
    fn eq(&self, other: &G2Projective) -> (r: bool) { unimplemented!() }
}

// ---- pairing ------------------------------------------------------------------------------------
pub open spec fn ml_prod(terms: Seq<(&G1Affine, &G2Prepared)>, n: int) -> Gt
    decreases n,
{
    if n <= 0 {
        gt_one()
    } else {
        gt_mul(ml_prod(terms, n - 1), pair(g1_of_aff(*terms[n - 1].0), g2_of_prep(*terms[n - 1].1)))
    }
}

#[verifier::external_body]
pub fn multi_miller_loop(terms: &[(&G1Affine, &G2Prepared)]) -> (r: MillerLoopResult)
    ensures ml_value(r) == ml_prod(terms@, terms@.len() as int),
{ unimplemented!() }

impl MillerLoopResult {
    #[verifier::external_body]
    pub fn final_exponentiation(&self) -> (r: Gt)
        ensures r == ml_value(*self),
    { unimplemented!() }
}

impl Gt {
    pub exec const IDENTITY: Gt
        ensures Self::IDENTITY == gt_one(),
    { gt_identity_() }

    #[verifier::external_body]
    pub fn is_identity(&self) -> (r: Choice)
        ensures r@ == (*self == gt_one()),
    { unimplemented!() }
}
impl vstd::std_specs::cmp::PartialEqSpecImpl for Gt {
    open spec fn obeys_eq_spec() -> bool { true }
    open spec fn eq_spec(&self, other: &Gt) -> bool { *self == *other }
}
impl core::cmp::PartialEq for Gt {
    #[verifier::external_body]
    fn eq(&self, other: &Gt) -> (r: bool) { unimplemented!() }
}

// ---- axioms: representation -------------------------------------------------------------------
pub broadcast proof fn ax_g1_aff_roundtrip(p: G1Projective)
    ensures #[trigger] g1_of_aff(g1_to_aff(p)) == p,
{ admit(); }
pub broadcast proof fn ax_g1_aff_roundtrip2(a: G1Affine)
    ensures #[trigger] g1_to_aff(g1_of_aff(a)) == a,
{ admit(); }
pub broadcast proof fn ax_g2_aff_roundtrip(p: G2Projective)
    ensures #[trigger] g2_of_aff(g2_to_aff(p)) == p,
{ admit(); }
pub broadcast proof fn ax_g2_aff_roundtrip2(a: G2Affine)
    ensures #[trigger] g2_to_aff(g2_of_aff(a)) == a,
{ admit(); }
pub broadcast proof fn ax_g2_prep(a: G2Affine)
    ensures #[trigger] g2_of_prep(g2_prep_of(a)) == g2_of_aff(a),
{ admit(); }

pub broadcast group ax_repr {
    ax_g1_aff_roundtrip,
    ax_g1_aff_roundtrip2,
    ax_g2_aff_roundtrip,
    ax_g2_aff_roundtrip2,
    ax_g2_prep,
}

// ---- axioms: codecs (A-codec) -------------------------------------------------------------------
pub broadcast proof fn ax_sc_len(s: Scalar)
    ensures (#[trigger] sc_enc(s)).len() == 32,
{ admit(); }
pub broadcast proof fn ax_sc_rt(s: Scalar)
    ensures sc_dec(#[trigger] sc_enc(s)) == Some(s),
{ admit(); }
pub broadcast proof fn ax_sc_canon(b: Seq<u8>)
    requires (#[trigger] sc_dec(b)) is Some,
    ensures sc_enc(sc_dec(b)->0) == b,
{ admit(); }
pub broadcast proof fn ax_g1_len(p: G1Projective)
    ensures (#[trigger] g1_enc(p)).len() == 48,
{ admit(); }
pub broadcast proof fn ax_g1_rt(p: G1Projective)
    ensures g1_dec(#[trigger] g1_enc(p)) == Some(p),
{ admit(); }
pub broadcast proof fn ax_g1_canon(b: Seq<u8>)
    requires (#[trigger] g1_dec(b)) is Some,
    ensures g1_enc(g1_dec(b)->0) == b,
{ admit(); }
pub broadcast proof fn ax_g2_len(p: G2Projective)
    ensures (#[trigger] g2_enc(p)).len() == 96,
{ admit(); }
pub broadcast proof fn ax_g2_rt(p: G2Projective)
    ensures g2_dec(#[trigger] g2_enc(p)) == Some(p),
{ admit(); }
pub broadcast proof fn ax_g2_canon(b: Seq<u8>)
    requires (#[trigger] g2_dec(b)) is Some,
    ensures g2_enc(g2_dec(b)->0) == b,
{ admit(); }
pub broadcast proof fn ax_g2u_len(p: G2Projective)
    ensures (#[trigger] g2_enc_unc(p)).len() == 192,
{ admit(); }
pub broadcast proof fn ax_g2u_rt(p: G2Projective)
    ensures g2_dec_unc(#[trigger] g2_enc_unc(p)) == Some(p),
{ admit(); }
pub broadcast proof fn ax_g2u_canon(b: Seq<u8>)
    requires (#[trigger] g2_dec_unc(b)) is Some,
    ensures g2_enc_unc(g2_dec_unc(b)->0) == b,
{ admit(); }

pub broadcast group ax_codec {
    ax_sc_len, ax_sc_rt, ax_sc_canon,
    ax_g1_len, ax_g1_rt, ax_g1_canon,
    ax_g2_len, ax_g2_rt, ax_g2_canon,
    ax_g2u_len, ax_g2u_rt, ax_g2u_canon,
}

// ---- axioms: algebra (A-alg) -- NOT broadcast as a group by default; lemmas pick what they use ---
pub broadcast proof fn ax_s_add_comm(a: Scalar, b: Scalar)
    ensures #[trigger] s_add(a, b) == s_add(b, a),
{ admit(); }
pub broadcast proof fn ax_s_add_assoc(a: Scalar, b: Scalar, c: Scalar)
    ensures #[trigger] s_add(s_add(a, b), c) == s_add(a, s_add(b, c)),
{ admit(); }
pub broadcast proof fn ax_s_add_zero(a: Scalar)
    ensures #[trigger] s_add(a, s_zero()) == a,
{ admit(); }
pub broadcast proof fn ax_s_add_neg(a: Scalar)
    ensures #[trigger] s_add(a, s_neg(a)) == s_zero(),
{ admit(); }
pub broadcast proof fn ax_s_mul_comm(a: Scalar, b: Scalar)
    ensures #[trigger] s_mul(a, b) == s_mul(b, a),
{ admit(); }
pub broadcast proof fn ax_s_mul_assoc(a: Scalar, b: Scalar, c: Scalar)
    ensures #[trigger] s_mul(s_mul(a, b), c) == s_mul(a, s_mul(b, c)),
{ admit(); }
pub broadcast proof fn ax_s_mul_one(a: Scalar)
    ensures #[trigger] s_mul(a, s_one()) == a,
{ admit(); }
pub broadcast proof fn ax_s_mul_zero(a: Scalar)
    ensures #[trigger] s_mul(a, s_zero()) == s_zero(),
{ admit(); }
pub broadcast proof fn ax_s_distrib(a: Scalar, b: Scalar, c: Scalar)
    ensures #[trigger] s_mul(a, s_add(b, c)) == s_add(s_mul(a, b), s_mul(a, c)),
{ admit(); }
pub broadcast proof fn ax_s_mul_neg(a: Scalar, b: Scalar)
    ensures #[trigger] s_mul(a, s_neg(b)) == s_neg(s_mul(a, b)),
{ admit(); }
pub broadcast proof fn ax_s_inv(a: Scalar)
    requires a != s_zero(),
    ensures s_mul(a, #[trigger] s_inv(a)) == s_one(),
{ admit(); }
pub proof fn ax_s_one_ne_zero()
    ensures s_one() != s_zero(),
{ admit(); }
/// a field has no zero divisors
pub proof fn ax_s_integral(a: Scalar, b: Scalar)
    requires s_mul(a, b) == s_zero(),
    ensures a == s_zero() || b == s_zero(),
{ admit(); }

pub broadcast proof fn ax_g1_add_comm(a: G1Projective, b: G1Projective)
    ensures #[trigger] g1_add(a, b) == g1_add(b, a),
{ admit(); }
pub broadcast proof fn ax_g1_add_assoc(a: G1Projective, b: G1Projective, c: G1Projective)
    ensures #[trigger] g1_add(g1_add(a, b), c) == g1_add(a, g1_add(b, c)),
{ admit(); }
pub broadcast proof fn ax_g1_add_zero(a: G1Projective)
    ensures #[trigger] g1_add(a, g1_zero()) == a,
{ admit(); }
pub broadcast proof fn ax_g1_add_neg(a: G1Projective)
    ensures #[trigger] g1_add(a, g1_neg(a)) == g1_zero(),
{ admit(); }
pub broadcast proof fn ax_g1_mul_mul(p: G1Projective, a: Scalar, b: Scalar)
    ensures #[trigger] g1_mul(g1_mul(p, a), b) == g1_mul(p, s_mul(a, b)),
{ admit(); }
pub broadcast proof fn ax_g1_mul_sadd(p: G1Projective, a: Scalar, b: Scalar)
    ensures #[trigger] g1_mul(p, s_add(a, b)) == g1_add(g1_mul(p, a), g1_mul(p, b)),
{ admit(); }
pub broadcast proof fn ax_g1_mul_padd(p: G1Projective, q: G1Projective, a: Scalar)
    ensures #[trigger] g1_mul(g1_add(p, q), a) == g1_add(g1_mul(p, a), g1_mul(q, a)),
{ admit(); }
pub broadcast proof fn ax_g1_mul_pneg(p: G1Projective, a: Scalar)
    ensures #[trigger] g1_mul(g1_neg(p), a) == g1_neg(g1_mul(p, a)),
{ admit(); }
pub broadcast proof fn ax_g1_mul_sneg(p: G1Projective, a: Scalar)
    ensures #[trigger] g1_mul(p, s_neg(a)) == g1_neg(g1_mul(p, a)),
{ admit(); }
pub broadcast proof fn ax_g1_mul_one(p: G1Projective)
    ensures #[trigger] g1_mul(p, s_one()) == p,
{ admit(); }
pub broadcast proof fn ax_g1_mul_zero(p: G1Projective)
    ensures #[trigger] g1_mul(p, s_zero()) == g1_zero(),
{ admit(); }
pub broadcast proof fn ax_g1_zero_mul(a: Scalar)
    ensures #[trigger] g1_mul(g1_zero(), a) == g1_zero(),
{ admit(); }
/// prime order: P*a = 0 ==> a = 0 or P = 0
pub proof fn ax_g1_prime_order(p: G1Projective, a: Scalar)
    requires g1_mul(p, a) == g1_zero(),
    ensures a == s_zero() || p == g1_zero(),
{ admit(); }

pub broadcast proof fn ax_g2_add_comm(a: G2Projective, b: G2Projective)
    ensures #[trigger] g2_add(a, b) == g2_add(b, a),
{ admit(); }
pub broadcast proof fn ax_g2_mul_mul(p: G2Projective, a: Scalar, b: Scalar)
    ensures #[trigger] g2_mul(g2_mul(p, a), b) == g2_mul(p, s_mul(a, b)),
{ admit(); }
pub broadcast proof fn ax_g2_mul_sadd(p: G2Projective, a: Scalar, b: Scalar)
    ensures #[trigger] g2_mul(p, s_add(a, b)) == g2_add(g2_mul(p, a), g2_mul(p, b)),
{ admit(); }
pub proof fn ax_g2_gen_nonzero()
    ensures g2_gen() != g2_zero(),
{ admit(); }
/// G2 is cyclic of prime order generated by BP2
pub proof fn ax_g2_cyclic(q: G2Projective) -> (w: Scalar)
    ensures q == g2_mul(g2_gen(), w),
{ admit(); s_zero() }
pub proof fn ax_g2_mul_inj(a: Scalar, b: Scalar)
    requires g2_mul(g2_gen(), a) == g2_mul(g2_gen(), b),
    ensures a == b,
{ admit(); }

// bilinearity, expressed through exponents on the G1 side:  e(P, BP2*w) = e(P*w, BP2)
pub proof fn ax_pair_move(p: G1Projective, w: Scalar)
    ensures pair(p, g2_mul(g2_gen(), w)) == pair(g1_mul(p, w), g2_gen()),
{ admit(); }
/// e(P, -Q) * e(P', Q) = 1  <==>  P = P'   (for Q = BP2; non-degeneracy + bilinearity)
pub proof fn ax_pair_eq(p: G1Projective, p2: G1Projective)
    ensures (gt_mul(pair(p, g2_gen()), pair(p2, g2_neg(g2_gen()))) == gt_one()) <==> (p == p2),
{ admit(); }
pub broadcast proof fn ax_gt_one_mul(a: Gt)
    ensures #[trigger] gt_mul(gt_one(), a) == a,
{ admit(); }
