// std_shim — assumed contracts (A-std) for std items the extracted code uses and vstd does not
// cover, plus the helper functions the extractor's rewrite rules target.  Everything here is
// TRUSTED; the assumption scan lists each `external_body` / `assume_specification`.

// ---- R5: macros -------------------------------------------------------------------------------
/// `panic!(..)`: reaching it is an obligation (requires false).
#[verifier::external_body]
pub fn vpanic() -> !
    requires false,
{
    panic!()
}

/// CL03: a panic that the property counts as a refusal (allowed divergence, no obligation).
#[verifier::external_body]
pub fn vrefuse() -> !
{
    panic!()
}

/// the same panic inside a function whose contract says `@norefuse`: reaching it is an obligation.
#[verifier::external_body]
pub fn vrefuse_strict() -> !
    requires false,
{
    panic!()
}

/// `assert!(c, ..)`: the condition is an obligation.
pub fn vassert(c: bool)
    requires c,
{
}

/// `format!(..)`: an arbitrary string; arguments dropped (assumed side-effect free).
#[verifier::external_body]
pub fn vformat() -> (r: String) {
    String::new()
}

// ---- R12: array conversions -------------------------------------------------------------------
#[derive(Debug)]
pub struct TfsErr;

/// `<[u8; N]>::try_from(slice)`
#[verifier::external_body]
pub fn arr_try_from<const N: usize>(s: &[u8]) -> (r: Result<[u8; N], TfsErr>)
    ensures
        r is Ok <==> s@.len() == N,
        r is Ok ==> r->Ok_0@ == s@,
{
    <[u8; N]>::try_from(s).map_err(|_| TfsErr)
}

/// `slice.try_into()` with an array (by value or by reference) as target type.
pub trait TryIntoArr<T>: Sized {
    spec fn conv_ok(self, r: Result<T, TfsErr>) -> bool;

    fn try_into_arr(self) -> (r: Result<T, TfsErr>)
        ensures
            self.conv_ok(r),
    ;
}

impl<'a, const N: usize> TryIntoArr<[u8; N]> for &'a [u8] {
    open spec fn conv_ok(self, r: Result<[u8; N], TfsErr>) -> bool {
        &&& (r is Ok <==> self@.len() == N)
        &&& (r is Ok ==> r->Ok_0@ == self@)
    }

    #[verifier::external_body]
    fn try_into_arr(self) -> (r: Result<[u8; N], TfsErr>) {
        <[u8; N]>::try_from(self).map_err(|_| TfsErr)
    }
}

impl<'a, const N: usize> TryIntoArr<&'a [u8; N]> for &'a [u8] {
    open spec fn conv_ok(self, r: Result<&'a [u8; N], TfsErr>) -> bool {
        &&& (r is Ok <==> self@.len() == N)
        &&& (r is Ok ==> r->Ok_0@ == self@)
    }

    #[verifier::external_body]
    fn try_into_arr(self) -> (r: Result<&'a [u8; N], TfsErr>) {
        <&[u8; N]>::try_from(self).map_err(|_| TfsErr)
    }
}

/// reflexive conversion `(a, b).try_into()` (core: `impl<T> TryFrom<T> for T`, infallible)
impl<'a> TryIntoArr<(&'a [u8], &'a [u8])> for (&'a [u8], &'a [u8]) {
    open spec fn conv_ok(self, r: Result<(&'a [u8], &'a [u8]), TfsErr>) -> bool {
        r is Ok && r->Ok_0 == self
    }

    #[verifier::external_body]
    fn try_into_arr(self) -> (r: Result<(&'a [u8], &'a [u8]), TfsErr>) {
        Ok(self)
    }
}

// ---- R6: [a, b].concat() ----------------------------------------------------------------------
#[verifier::external_body]
pub fn concat2<T: Copy>(a: &[T], b: &[T]) -> (r: Vec<T>)
    ensures
        r@ == a@ + b@,
{
    [a, b].concat()
}

#[verifier::external_body]
pub fn concat3<T: Copy>(a: &[T], b: &[T], c: &[T]) -> (r: Vec<T>)
    ensures
        r@ == a@ + b@ + c@,
{
    [a, b, c].concat()
}

// ---- R8: collect chains -----------------------------------------------------------------------
/// `A.iter().copied().chain(B.iter().map(|j| j + x + y)).collect::<Vec<_>>()`
/// The closure's additions are kept as an obligation: `(j + x) + y` must not overflow for any j in B.
#[verifier::external_body]
pub fn chain_offset(a: &[usize], b: &[usize], x: usize, y: usize) -> (r: Vec<usize>)
    requires
        forall|k: int| 0 <= k < b@.len() ==> b@[k] + x + y <= usize::MAX,
    ensures
        r@.len() == a@.len() + b@.len(),
        forall|k: int| 0 <= k < a@.len() ==> r@[k] == a@[k],
        forall|k: int| 0 <= k < b@.len() ==> r@[a@.len() + k] == b@[k] + x + y,
{
    a.iter().copied().chain(b.iter().map(|j| j + x + y)).collect::<Vec<_>>()
}

// ---- slice / Vec methods without a vstd specification ------------------------------------------
pub open spec fn strictly_sorted(s: Seq<usize>) -> bool {
    forall|i: int, j: int| 0 <= i < j < s.len() ==> s[i] < s[j]
}

pub open spec fn sorted_le(s: Seq<usize>) -> bool {
    forall|i: int, j: int| 0 <= i <= j < s.len() ==> s[i] <= s[j]
}

pub open spec fn same_set(a: Seq<usize>, b: Seq<usize>) -> bool {
    forall|x: usize| a.contains(x) <==> b.contains(x)
}

// Generic std methods get an uninterpreted post-relation; its meaning is given (assumed) only at the
// element types the extracted code uses them with (usize, Vec<T> as the extending iterator).
pub uninterp spec fn sort_post<T>(old: Seq<T>, new: Seq<T>) -> bool;
pub uninterp spec fn dedup_post<T>(old: Seq<T>, new: Seq<T>) -> bool;
pub uninterp spec fn contains_post<T>(s: Seq<T>, x: T, r: bool) -> bool;
pub uninterp spec fn extend_post<T, I>(old: Seq<T>, it: I, new: Seq<T>) -> bool;

/// R16: `(a..b).collect::<Vec<usize>>()` — the integers a, a+1, .., b-1 in order
#[verifier::external_body]
pub fn range_collect(a: usize, b: usize) -> (r: Vec<usize>)
    ensures
        r@.len() == (if b >= a { b - a } else { 0 }),
        forall|i: int| 0 <= i < r@.len() ==> #[trigger] r@[i] == a + i,
{
    (a..b).collect()
}

/// `<[T]>::to_vec` — assumes element `clone` is the identity (used at usize and G1Projective only).
pub assume_specification<T: Clone>[ <[T]>::to_vec ](s: &[T]) -> (r: Vec<T>)
    ensures
        r@ == s@,
;

pub assume_specification<T: Ord>[ <[T]>::sort ](s: &mut [T])
    ensures
        sort_post::<T>(old(s)@, final(s)@),
;

pub assume_specification<T: PartialEq, A: core::alloc::Allocator>[ Vec::<T, A>::dedup ](v: &mut Vec<T, A>)
    ensures
        dedup_post::<T>(old(v)@, final(v)@),
;

pub assume_specification<T: PartialEq>[ <[T]>::contains ](s: &[T], x: &T) -> (r: bool)
    ensures
        contains_post::<T>(s@, *x, r),
;

pub assume_specification<T>[ core::slice::from_ref ](x: &T) -> (r: &[T])
    ensures
        r@ == seq![*x],
;

pub assume_specification<T, A: core::alloc::Allocator, I: IntoIterator<Item = T>>[ <Vec<T, A> as Extend<T>>::extend::<I> ](v: &mut Vec<T, A>, it: I)
    ensures
        extend_post::<T, I>(old(v)@, it, final(v)@),
;

pub broadcast proof fn ax_sort_usize(o: Seq<usize>, n: Seq<usize>)
    requires
        #[trigger] sort_post::<usize>(o, n),
    ensures
        sorted_le(n),
        n.len() == o.len(),
        same_set(o, n),
        sorted_le(o) ==> n == o,
{
    admit();
}

/// dedup removes *consecutive* duplicates; on a sorted input the result is strictly sorted.
pub broadcast proof fn ax_dedup_usize(o: Seq<usize>, n: Seq<usize>)
    requires
        #[trigger] dedup_post::<usize>(o, n),
    ensures
        n.len() <= o.len(),
        same_set(o, n),
        sorted_le(o) ==> strictly_sorted(n),
        strictly_sorted(o) ==> n == o,
{
    admit();
}

pub broadcast proof fn ax_contains_usize(s: Seq<usize>, x: usize, r: bool)
    requires
        #[trigger] contains_post::<usize>(s, x, r),
    ensures
        r == s.contains(x),
{
    admit();
}

pub broadcast proof fn ax_extend_vec<T>(o: Seq<T>, it: Vec<T>, n: Seq<T>)
    requires
        #[trigger] extend_post::<T, Vec<T>>(o, it, n),
    ensures
        n == o + it@,
{
    admit();
}

pub broadcast group std_shim_axioms {
    ax_sort_usize,
    ax_dedup_usize,
    ax_contains_usize,
    ax_extend_vec,
}

// ---- R13: byte-string literals ---------------------------------------------------------------------
/// `b"..."`: Verus knows a literal's length but not its contents; the extractor passes the literal and
/// the sequence of its bytes (computed from the literal itself).
#[verifier::external_body]
pub fn blit<const N: usize>(s: &'static [u8; N], Ghost(v): Ghost<Seq<u8>>) -> (r: &'static [u8; N])
    ensures
        r@ == v,
{
    s
}

/// R8: `X.get(a..b).unwrap_or_default()` on a slice: the sub-slice if `a <= b <= len`, else empty
/// (core: `<[T]>::get` returns None for a decreasing or out-of-range range; `<&[T]>::default()` is `&[]`).
#[verifier::external_body]
pub fn slice_get_or_empty<'a, T>(s: &'a [T], a: usize, b: usize) -> (r: &'a [T])
    ensures
        (a <= b && b <= s@.len()) ==> r@ == s@.subrange(a as int, b as int),
        !(a <= b && b <= s@.len()) ==> r@ == Seq::<T>::empty(),
{
    s.get(a..b).unwrap_or_default()
}

/// CL03 (ops mode): `.unwrap()` / `.expect(..)` whose failure is a panic = refusal (allowed divergence):
/// no precondition, returns only in the Some / Ok case.
pub trait Refuse<T>: Sized {
    spec fn refuse_ok(self, r: T) -> bool;

    spec fn can_unwrap(self) -> bool;

    fn unwrap_refuse(self) -> (r: T)
        ensures self.refuse_ok(r),
    ;

    /// `@norefuse` functions: the unwrap must succeed
    fn unwrap_strict(self) -> (r: T)
        requires self.can_unwrap(),
        ensures self.refuse_ok(r),
    ;

    fn expect_strict(self, msg: &str) -> (r: T)
        requires self.can_unwrap(),
        ensures self.refuse_ok(r),
    ;

    fn expect_refuse(self, msg: &str) -> (r: T)
        ensures self.refuse_ok(r),
    ;
}

impl<T> Refuse<T> for Option<T> {
    open spec fn refuse_ok(self, r: T) -> bool { self is Some && r == self->0 }

    open spec fn can_unwrap(self) -> bool { self is Some }

    #[verifier::external_body]
    fn unwrap_strict(self) -> (r: T) { self.unwrap() }

    #[verifier::external_body]
    fn expect_strict(self, msg: &str) -> (r: T) { self.expect(msg) }

    #[verifier::external_body]
    fn unwrap_refuse(self) -> (r: T) { self.unwrap() }

    #[verifier::external_body]
    fn expect_refuse(self, msg: &str) -> (r: T) { self.expect(msg) }
}

impl<T, E> Refuse<T> for Result<T, E> {
    open spec fn refuse_ok(self, r: T) -> bool { self is Ok && r == self->Ok_0 }

    open spec fn can_unwrap(self) -> bool { self is Ok }

    #[verifier::external_body]
    fn unwrap_strict(self) -> (r: T) { unimplemented!() }

    #[verifier::external_body]
    fn expect_strict(self, msg: &str) -> (r: T) { unimplemented!() }

    #[verifier::external_body]
    fn unwrap_refuse(self) -> (r: T) { unimplemented!() }

    #[verifier::external_body]
    fn expect_refuse(self, msg: &str) -> (r: T) { unimplemented!() }
}
