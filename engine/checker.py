#!/usr/bin/env python3
"""Property checker: runs the units of a property's dependency cone, classifies failures against
the property's deciding labels and the known-findings file, drives the replay search and writes
evidence."""
import concurrent.futures as cf
import fnmatch, hashlib, json, os, re, subprocess, sys, time, traceback

sys.path.insert(0, os.path.dirname(os.path.abspath(__file__)))
from assemble import Undecided, VERIF, REPO, BUILD, run_extractor
import run as runner

try:
    import tomllib
except ImportError:  # pragma: no cover
    tomllib = None

EVID = os.path.join(VERIF, "evidence")
REPLAY_DIR = os.path.join(EVID, "replay")


def load_props():
    with open(os.path.join(VERIF, "units", "properties.toml"), "rb") as f:
        return tomllib.load(f)


def load_known():
    p = os.path.join(VERIF, "known_findings.json")
    if not os.path.exists(p):
        return {"findings": [], "fixed": []}
    with open(p) as f:
        return json.load(f)


def norm_text(t):
    return re.sub(r"\s+", " ", t or "").strip()


def finding_matches(kf, prop, f):
    if kf.get("property") != prop:
        return False
    if kf.get("label") != f["label"]:
        return False
    if kf.get("fn") and kf["fn"] != (f.get("fn") or ""):
        return False
    if kf.get("site_text") and norm_text(kf["site_text"]) not in norm_text(f.get("text", "")):
        return False
    return True


def label_matches(label, pats):
    return any(fnmatch.fnmatchcase(label, p) for p in pats)


def git_head(path):
    try:
        return subprocess.run(["git", "-C", path, "rev-parse", "--short", "HEAD"], capture_output=True, text=True).stdout.strip()
    except Exception:
        return "?"


def verus_version():
    try:
        o = subprocess.run(["verus", "--version"], capture_output=True, text=True).stdout
        m = re.search(r"Version:\s*(\S+)", o)
        return m.group(1) if m else "?"
    except Exception:
        return "?"


# ------------------------------------------------------------------------------------------------
def run_units(units, seed, twin=False):
    """-> {unit: result or Undecided}"""
    results = {}
    fam_items = {}

    def first(u):
        try:
            return runner.verify_unit(u, seed=seed)
        except Undecided as e:
            if e.reason != "rlimit":
                raise
            # a resource-out says nothing about the code: one more attempt with twice the budget (same seed) before giving up
            from assemble import load_unit
            base = load_unit(u).get("rlimit") or 30
            return runner.verify_unit(u, seed=seed, rlimit=2 * base)

    def one(u):
        r = first(u)
        if r["failures"] and not twin:
            from assemble import load_unit
            cfg = load_unit(u)
            wide_fns = sorted({f["fn"] for f in r["failures"] if f.get("fn")})
            if wide_fns and all(f.get("fn") for f in r["failures"]):
                # An obligation failed with the everyday axiom set.  Before calling that a failure, the same text is verified once
                # more with the unit's wider algebra axioms in scope inside the functions that failed: code that re-associates a
                # product or writes `a - b` as `a + (-b)` computes the same value, and only this second stage can see it.  A
                # complete second-stage proof IS a proof (all of these axioms are listed assumptions either way); anything else
                # leaves the first verdict standing.
                bw = cfg.get("broadcast_wide") or []
                stages = len(bw) if bw and isinstance(bw[0], list) else 1
                for k in range(1, stages + 1):
                    try:
                        r2 = runner.verify_unit(u, seed=seed, wide=k, wide_fns=wide_fns)
                        if not r2["failures"]:
                            r2["notes"] = list(r2.get("notes", [])) + [{"wide_axioms_used": k, "in_functions": wide_fns, "first_stage_failed": sorted({f["label"] for f in r["failures"]})}]
                            r2["wide"] = k
                            return r2
                    except Undecided:
                        pass
        return r

    with cf.ThreadPoolExecutor(max_workers=min(16, max(1, len(units)))) as ex:
        futs = {ex.submit(one, u): u for u in units}
        for fu in cf.as_completed(futs):
            u = futs[fu]
            try:
                results[u] = fu.result()
            except Undecided as e:
                results[u] = e
            except Exception as e:  # engine bug: never an alarm
                results[u] = Undecided("tool-error", f"engine exception in unit {u}: {e!r}\n{traceback.format_exc()[-1500:]}")
    return results


def global_verify_map():
    """function path -> units (of units/*.toml) whose verify list contains it"""
    import glob
    from assemble import load_unit
    m = {}
    for f in sorted(glob.glob(os.path.join(VERIF, "units", "*.toml"))):
        n = os.path.basename(f)[:-5]
        if n == "properties":
            continue
        try:
            u = load_unit(n)
        except Exception:
            continue
        for p in u.get("verify", []):
            m.setdefault(p, []).append(n)
    return m


def contract_labels_of(fnp):
    import glob
    from assemble import parse_vc
    labs = []
    for cf in sorted(glob.glob(os.path.join(VERIF, "contracts", "*.vc"))):
        try:
            cs = parse_vc(cf)
        except Exception:
            continue
        c = cs.get(fnp)
        if c:
            for t, l in c.spec:
                if l and l not in labs:
                    labs.append(l)
    return labs


def replay_search(prop, failure, tier):
    """Run the witness family of the failed label on the real crate. -> (found: bool, record)"""
    drv = os.path.join(VERIF, "replay", "run_replay.py")
    rec = {"searched": False}
    if not os.path.exists(drv):
        return False, rec
    try:
        p = subprocess.run([sys.executable, drv, "--label", failure["label"], "--fn", failure.get("fn") or "", "--tier", tier, "--prop", prop],
                           capture_output=True, text=True, timeout=900)
        rec["searched"] = True
        rec["driver_exit"] = p.returncode
        try:
            out = json.loads(p.stdout)
        except Exception:
            out = {"error": (p.stdout[-1000:] + p.stderr[-1000:])}
        rec.update(out)
        # probes that a recorded finding lists are not witnesses of a NEW violation
        kfs0 = [k for k in load_known().get("findings", []) if k.get("property") == prop and k.get("probe")]
        if out.get("failing_inputs") and kfs0:
            out["failing_inputs"] = [x for x in out["failing_inputs"] if not any(re.search(k["probe"], x["id"]) for k in kfs0)]
            rec["failing_inputs"] = out["failing_inputs"]
            rec["failing_count"] = len(out["failing_inputs"])
        if not out.get("failing_inputs"):
            # nothing in the label's own family: sweep the property's families (an implicit obligation inside f undermines
            # every clause of f, so any probe of the property that the real code gets wrong is a witness)
            fams = load_props().get(prop, {}).get("families", [])
            if fams:
                p2 = subprocess.run([sys.executable, drv, "--sweep", ",".join(fams), "--tier", tier, "--prop", prop], capture_output=True, text=True, timeout=3000)
                try:
                    out2 = json.loads(p2.stdout)
                except Exception:
                    out2 = {}
                kfs = [k for k in load_known().get("findings", []) if k.get("property") == prop and k.get("probe")]
                fi = [x for x in out2.get("failing_inputs", []) if not any(re.search(k["probe"], x["id"]) for k in kfs)]
                rec["property_sweep"] = {"families": fams, "tried": out2.get("tried", 0), "failing_count": len(fi)}
                if fi:
                    rec["failing_inputs"] = fi[:12]
                    rec["failing_count"] = len(fi)
                    rec["tried"] = rec.get("tried", 0) + out2.get("tried", 0)
                    return True, rec
        return bool(out.get("failing_inputs")), rec
    except Exception as e:
        rec["error"] = repr(e)
        return False, rec


def write_replay(prop, failure, unit_res, found, rec):
    os.makedirs(REPLAY_DIR, exist_ok=True)
    key = re.sub(r"[^A-Za-z0-9_.-]", "_", f"{prop}-{failure['label']}")
    path = os.path.join(REPLAY_DIR, key + ".json")
    doc = {
        "property": prop,
        "failed_obligation": failure["label"],
        "function": failure.get("fn"),
        "site": failure.get("site"),
        "statement": failure.get("text"),
        "verifier_message": failure.get("message"),
        "clause_source": failure.get("clause_src"),
        "unit": unit_res["unit"],
        "checker_cmd": unit_res["cmd"],
        "repo_head": git_head(REPO),
        "failing_input_found": found,
        "replay": rec,
        "how_to_replay": f"./check --replay {os.path.relpath(path, VERIF)}",
    }
    with open(path, "w") as f:
        json.dump(doc, f, indent=1)
    return path


def sample_obligations(results, pats, n=6):
    samples = []
    for u, r in results.items():
        if isinstance(r, Undecided):
            continue
        out = r["out"]
        for i, m in enumerate(out.meta):
            l = m.get("label")
            if l and label_matches(l, pats) and not m.get("region_only"):
                samples.append({"label": l, "unit": u, "fn": m.get("fn"), "clause": out.lines[i].strip()[:200]})
                if len(samples) >= n:
                    return samples
    return samples


def check_property(prop, tier, seed):
    t0 = time.time()
    props = load_props()
    if prop not in props:
        print(f"UNDECIDED property={prop} reason=tool-error no check defined for {prop}")
        return 2
    cfg = props[prop]
    units = list(cfg["units"])
    pats = list(cfg["labels"])
    if tier == "thorough":
        for u in cfg.get("thorough_units", []):
            if u not in units:
                units.append(u)
    known = load_known()
    results = run_units(units, seed)
    undecided = [(u, r) for u, r in results.items() if isinstance(r, Undecided)]
    deciding, foreign = [], []
    seen = set()
    for u, r in results.items():
        if isinstance(r, Undecided):
            continue
        for f in r["failures"]:
            key = (f["label"], f.get("fn"), norm_text(f.get("text")), f["message"])
            if key in seen:
                continue
            seen.add(key)
            f = dict(f)
            f["unit"] = u
            is_dec = label_matches(f["label"], pats) or (f.get("implicit") and any(label_matches(l, pats) for l in f.get("fn_labels", [])))
            (deciding if is_dec else foreign).append(f)
    # known findings
    kf_lines, new = [], []
    for f in deciding:
        kfs = [k for k in known.get("findings", []) if finding_matches(k, prop, f)]
        if kfs:
            kf_lines.append((kfs[0], f))
        else:
            new.append(f)
    # waived clauses (dropped by the assembler): print their finding once per run
    waived_seen = set()
    for u, r in results.items():
        if isinstance(r, Undecided):
            continue
        for fnp, lab in r.get("waived", []):
            for k in known.get("findings", []):
                if k.get("property") == prop and k.get("fn") == fnp and k.get("label") == lab and (fnp, lab) not in waived_seen:
                    waived_seen.add((fnp, lab))
                    kf_lines.append((k, {"label": lab, "fn": fnp, "site": fnp}))
    # vacuity twins + second seed (thorough)
    vac_notes = []
    if tier == "thorough" and not undecided:
        tw = run_twins(units, seed)
        vac_notes = tw
    # kani leaves
    leaf = run_leaves(cfg, tier)
    # thorough: bounded witness sweep of the property's families on the real crate (honest runs must be
    # accepted, single edits refused, nothing panics) - a cross-check of the spec functions against the code
    sweep = run_sweep(prop, cfg, tier) if (tier == "thorough" or cfg.get("sweep_quick")) else {"families": [], "probes": 0, "bad": [], "known": []}
    if sweep.get("error"):
        undecided.append(("witness-sweep", Undecided("tool-error", "witness sweep failed: " + sweep["error"][:600])))
    seen_k = set()
    for k, fi in sweep["known"]:
        if id(k) not in seen_k:
            seen_k.add(id(k))
            n = sum(1 for k2, _ in sweep["known"] if k2 is k)
            note = f"{n} probe(s) on the real crate, e.g. {fi['id']} -> {fi['outcome'][:40]}"
            prev = next((f0 for k0, f0 in kf_lines if k0.get("what") == k.get("what")), None)
            if prev is not None:
                prev["site"] = f"{prev.get('site')}; {note}"
            else:
                kf_lines.append((k, {"label": k.get("label") or "witness sweep", "fn": k.get("fn") or fi["call"], "site": note}))
    # ---- evidence
    nfun = sum(len(r["functions"]) for r in results.values() if not isinstance(r, Undecided))
    verified = sum(r["verified"] for r in results.values() if not isinstance(r, Undecided))
    errors = sum(r["errors"] for r in results.values() if not isinstance(r, Undecided))
    labels_total = {}
    for r in results.values():
        if isinstance(r, Undecided):
            continue
        for l, c in r["labels"].items():
            if label_matches(l, pats):
                labels_total[l] = labels_total.get(l, 0) + c
    failed_labels = sorted({f["label"] for f in deciding})
    waived = sorted({f["label"] for _, f in kf_lines})
    assumptions = list(cfg.get("assumptions", []))
    scan = {}
    for r in results.values():
        if isinstance(r, Undecided):
            continue
        for k, c in r["assumptions"].items():
            scan[k] = scan.get(k, 0) + c
    assumptions.append("assumption scan of the assembled files (counts over all units of this run): " + json.dumps(scan, sort_keys=True))
    rewrites = []
    for r in results.values():
        if isinstance(r, Undecided):
            continue
        rewrites.extend(r["rewrites"])
    fn_under_contract = sorted({p for r in results.values() if not isinstance(r, Undecided) for p in r["verify_list"]})
    fn_assumed = sorted({p for r in results.values() if not isinstance(r, Undecided) for p in r["assume_list"]} - set(fn_under_contract))
    # audit of the assumed contracts of this run against ALL units: verified elsewhere (named) or verified nowhere (a genuinely trusted contract)
    verified_in = global_verify_map()
    fn_assumed_elsewhere = {p: verified_in[p] for p in fn_assumed if p in verified_in}
    fn_assumed_nowhere = [p for p in fn_assumed if p not in verified_in]
    if fn_assumed_nowhere:
        assumptions.append("contracts assumed in this run and verified in NO unit (trusted): " + ", ".join(fn_assumed_nowhere))
    smt_ms = sum(f["ms"] for r in results.values() if not isinstance(r, Undecided) for f in r["functions"])
    slow = sorted([f for r in results.values() if not isinstance(r, Undecided) for f in r["functions"]], key=lambda x: -x["ms"])[:8]
    # obligations of THIS property: every Verus function-level query that verified, plus the queries with a
    # deciding failure; queries whose only failures are non-deciding (foreign labels, waived known findings,
    # implicit obligations in units that do not decide them) are listed separately and not counted
    deciding_fail_fns = {(f.get("unit"), f.get("fn")) for f in new}
    obligations = verified + len(deciding_fail_fns) + leaf["obligations"]
    discharged = verified + leaf["discharged"]
    # known-finding failures are not counted as obligations of this run (they are waived and listed)
    waived_queries = len({(f.get("fn")) for _, f in kf_lines})
    evidence = {
        "property_id": prop,
        "tier": tier,
        "seed": int(seed),
        "level": "proof",
        "coverage": {
            "obligations": obligations,
            "queries_with_only_nondeciding_failures": max(0, errors - len(deciding_fail_fns)),
            "discharged": discharged,
            "checker_cmd": "; ".join(r["cmd"] for r in results.values() if not isinstance(r, Undecided)) + ("; " + leaf["cmd"] if leaf["cmd"] else ""),
            "trusted_base": cfg.get("trusted_base", []) + ["Verus " + verus_version() + " / Z3", "rustc front end", "extractor rewrite rules R1-R12 (engine/extract)"],
            "explanation": cfg.get("explanation", ""),
            "units": {u: ("UNDECIDED " + r.reason if isinstance(r, Undecided) else {"verified": r["verified"], "errors": r["errors"], "wall_s": round(r["wall_s"], 2), **({"second_stage": [n for n in r.get("notes", []) if isinstance(n, dict) and "wide_axioms_used" in n]} if r.get("wide") else {})}) for u, r in results.items()},
            "deciding_label_patterns": pats,
            "deciding_labels_present": len(labels_total),
            "deciding_clauses_present": sum(labels_total.values()),
            "deciding_labels_failed": failed_labels,
            "deciding_labels_waived_known_findings": waived,
            "functions_under_contract_verified_bodies": fn_under_contract,
            "functions_with_assumed_contract_in_this_run": fn_assumed,
            "assumed_here_but_body_verified_in_unit": fn_assumed_elsewhere,
            "assumed_and_verified_in_no_unit": fn_assumed_nowhere,
            "verus_function_queries": nfun,
            "smt_time_ms_total": smt_ms,
            "slowest_functions": [{"function": s["function"], "ms": s["ms"], "rlimit": s["rlimit"]} for s in slow],
            "leaf_proofs": leaf["detail"],
            "rewrites_applied": rewrites[:400],
            "non_deciding_failures_seen": [{"label": f["label"], "fn": f.get("fn"), "site": f.get("site")} for f in foreign][:50],
            "known_findings_printed": [k.get("what") for k, _ in kf_lines],
            "vacuity": vac_notes,
            "bounded_witness_sweep": {"families": sweep["families"], "probes_run_on_real_crate": sweep["probes"], "contradictions": len(sweep["bad"]), "contradictions_listed_as_known_findings": len(sweep["known"])},
            "samples": sample_obligations(results, pats),
            "repo_head": git_head(REPO),
        },
        "assumptions": assumptions,
        "wall_s": round(time.time() - t0, 2),
        "violations": len(new),
    }
    os.makedirs(EVID, exist_ok=True)
    # ---- verdict
    rc = 0
    lines = []
    # a function outside the verifier's reach (dialect, lost anchor): its contract cannot be discharged.
    # Bounded stand-in: run the witness families of that function's labelled clauses on the REAL code; a
    # concrete failing input is a violation (it is a counterexample on the real crate), none found = undecided.
    fallback_notes = []
    fallback_done = set()
    for u, e in undecided:
        fnp = getattr(e, "fn", None)
        if not fnp or e.reason not in ("unsupported", "lost-anchor"):
            continue
        labs = contract_labels_of(fnp)
        labs = [l for l in labs if label_matches(l, pats)]
        if fnp in fallback_done:   # the same function in a twin unit: one search, one report
            continue
        fallback_done.add(fnp)
        tried = set()
        for lab in labs:
            f = {"label": lab, "fn": fnp, "message": f"function outside the verifier's reach ({e.reason}); bounded witness search on the real code", "site": fnp, "text": e.detail[:200], "unit": u}
            found, rec = replay_search(prop, f, tier)
            fams = tuple(rec.get("families", []))
            if fams in tried and not found:
                continue
            tried.add(fams)
            fallback_notes.append({"label": lab, "fn": fnp, "families": list(fams), "tried": rec.get("tried"), "failing": rec.get("failing_count", 0)})
            if found:
                stub = {"unit": u, "cmd": "witness families only (function not ingestible): " + e.detail[:200]}
                path = write_replay(prop, f, stub, True, rec)
                lines.append(f"VIOLATION property={prop} replay={os.path.relpath(path, VERIF)}")
                lines.append(f"  obligation {lab} of {fnp}: not dischargeable ({e.reason}); BOUNDED witness search found a failing input on the real code: {rec['failing_inputs'][0]['id']}")
                rc = 1
                evidence["violations"] += 1
                break
    evidence["coverage"]["bounded_fallback_for_uningestible_functions"] = fallback_notes
    if undecided and not new and rc == 0:
        for u, e in undecided:
            lines.append(f"UNDECIDED property={prop} reason={e.reason} unit={u} {e.detail[:600]}")
        rc = 2
    # an obligation of a function in this property's cone failed but its label is not one that decides THIS property (it
    # decides another one): the proof this check relies on did not go through as a whole, so the verdict is undecided
    # rather than OK (seeded change C11-4 passed as OK this way before the cone was widened)
    foreign_new = [f for f in foreign if not any(finding_matches(k, k.get("property"), f) for k in known.get("findings", []))]
    if foreign_new and not new and rc == 0:
        for f in foreign_new[:6]:
            lines.append(f"UNDECIDED property={prop} reason=obligation-of-another-property-failed unit={f.get('unit')} label={f['label']} fn={f.get('fn')} {f.get('message', '')[:120]} @ {f.get('site')}")
        rc = 2
    if leaf.get("undecided") and not new and rc == 0:
        lines.append(f"UNDECIDED property={prop} reason=tool-error leaf: {leaf['undecided'][:600]}")
        rc = 2
    for k, f in kf_lines:
        lines.append(f"KNOWN-FINDING: property={prop} {k.get('what')} [{f['label']} @ {f.get('site')}]")
    if new:
        rc = 1
        by_label = {}
        for f in new:
            by_label.setdefault(f["label"], []).append(f)
        for label, fs in by_label.items():
            f = fs[0]
            found, rec = replay_search(prop, f, tier)
            path = write_replay(prop, f, results[f["unit"]], found, rec)
            rel = os.path.relpath(path, VERIF)
            extra = "" if found else " no-failing-input-found"
            lines.append(f"VIOLATION property={prop} replay={rel}{extra}")
            lines.append(f"  obligation {label} failed: {f['message']} at {f.get('site')}: {f.get('text')}")
    if sweep["bad"]:
        rc = 1
        os.makedirs(REPLAY_DIR, exist_ok=True)
        path = os.path.join(REPLAY_DIR, f"{prop}-witness-sweep.json")
        with open(path, "w") as fjs:
            json.dump({"property": prop, "failed_obligation": "bounded witness sweep (thorough tier)", "failing_input_found": True,
                       "replay": {"failing_inputs": sweep["bad"][:12]}, "how_to_replay": f"./check --replay {os.path.relpath(path, VERIF)}"}, fjs, indent=1)
        lines.append(f"VIOLATION property={prop} replay={os.path.relpath(path, VERIF)}")
        lines.append(f"  witness sweep on the real crate: {sweep['bad'][0]['id']} -> {sweep['bad'][0]['outcome'][:100]}")
        evidence["violations"] += 1
    for lf in leaf.get("failures", []):
        rc = 1
        os.makedirs(REPLAY_DIR, exist_ok=True)
        path = os.path.join(REPLAY_DIR, re.sub(r"[^A-Za-z0-9_.-]", "_", f"{prop}-{lf['label']}") + ".json")
        with open(path, "w") as fjs:
            json.dump({"property": prop, "failed_obligation": lf["label"], "verifier_output": lf.get("output", "")[-4000:], "failing_input_found": bool(lf.get("concrete")), "concrete": lf.get("concrete")}, fjs, indent=1)
        extra = "" if lf.get("concrete") else " no-failing-input-found"
        lines.append(f"VIOLATION property={prop} replay={os.path.relpath(path, VERIF)}{extra}")
        evidence["violations"] += 1
    if tier == "thorough" and vac_notes and any(v.get("vacuous") for v in vac_notes) and rc == 0:
        for v in vac_notes:
            if v.get("vacuous"):
                lines.append(f"UNDECIDED property={prop} reason=vacuous unit={v['unit']} not refuted: {v['vacuous'][:8]}")
        rc = 2
    if rc == 2:
        evidence["coverage"]["undecided"] = [l for l in lines if l.startswith("UNDECIDED")]
    with open(os.path.join(EVID, prop + ".json"), "w") as f:
        json.dump(evidence, f, indent=1)
    for l in lines:
        print(l)
    if rc == 0:
        print(f"OK property={prop} tier={tier} units={len(units)} verus_queries={verified}/{verified + errors} leaf={leaf['discharged']}/{leaf['obligations']} known_findings={len(kf_lines)} wall={time.time() - t0:.1f}s")
    return rc


def run_twins(units, seed):
    notes = []
    for u in units:
        try:
            r = runner.verify_unit(u, seed=seed, twin=True)
        except Undecided as e:
            notes.append({"unit": u, "error": f"{e.reason}: {e.detail[:300]}"})
            continue
        expected = r["twin_expected"]
        got = {f["label"] for f in r["failures"] if f["label"].startswith("VACUITY.")}
        missing = sorted(set(expected) - got)
        notes.append({"unit": u, "reachability_asserts": len(expected), "refuted_as_required": len(expected) - len(missing), "vacuous": missing})
    return notes


def run_sweep(prop, cfg, tier):
    """Bounded witness sweep of the property's families on the real crate.  Failing probes that a recorded finding lists
    (known_findings.json: findings[].probe, a regex over probe ids) are reported as known, the rest as violations."""
    fams = cfg.get("families", [])
    res = {"families": fams, "probes": 0, "bad": [], "known": []}
    if not fams:
        return res
    drv = os.path.join(VERIF, "replay", "run_replay.py")
    try:
        p = subprocess.run([sys.executable, drv, "--sweep", ",".join(fams), "--tier", tier, "--prop", prop], capture_output=True, text=True, timeout=6000)
        out = json.loads(p.stdout)
    except Exception as e:
        res["error"] = repr(e)
        return res
    if out.get("error"):
        res["error"] = out["error"]
        return res
    res["probes"] = out.get("tried", 0)
    kfs = [k for k in load_known().get("findings", []) if k.get("property") == prop and k.get("probe")]
    for fi in out.get("failing_inputs", []):
        hit = next((k for k in kfs if re.search(k["probe"], fi["id"])), None)
        if hit:
            res["known"].append((hit, fi))
        else:
            res["bad"].append(fi)
    return res


def run_leaves(cfg, tier):
    """Kani / native leaf proofs listed for the property."""
    res = {"obligations": 0, "discharged": 0, "detail": [], "cmd": "", "failures": []}
    leaves = cfg.get("leaves", [])
    if not leaves:
        return res
    drv = os.path.join(VERIF, "kani", "run_leaves.py")
    try:
        p = subprocess.run([sys.executable, drv, "--tier", tier] + leaves, capture_output=True, text=True, timeout=3000)
        out = json.loads(p.stdout)
    except Exception as e:
        res["undecided"] = f"leaf driver failed: {e!r}"
        return res
    res["cmd"] = out.get("cmd", "")
    for h in out.get("harnesses", []):
        res["obligations"] += 1
        res["detail"].append({k: h.get(k) for k in ("name", "label", "status", "kind", "wall_s", "bound")})
        if h["status"] == "ok":
            res["discharged"] += 1
        elif h["status"] == "failed":
            res["failures"].append({"label": h["label"], "output": h.get("output", ""), "concrete": h.get("concrete")})
        else:
            res["undecided"] = f"{h['name']}: {h.get('output', '')[-400:]}"
    return res


def do_replay(path):
    p = path if os.path.isabs(path) else os.path.join(VERIF, path)
    with open(p) as f:
        doc = json.load(f)
    drv = os.path.join(VERIF, "replay", "run_replay.py")
    ins = (doc.get("replay") or {}).get("failing_inputs") or []
    if not ins:
        print(f"replay file names obligation {doc.get('failed_obligation')} at {doc.get('site')}; no concrete input recorded (no-failing-input-found)")
        print("verifier message:", doc.get("verifier_message"))
        return 0
    q = subprocess.run([sys.executable, drv, "--rerun", p], capture_output=True, text=True)
    print(q.stdout.strip())
    return q.returncode


def main(argv):
    if len(argv) >= 2 and argv[0] == "--replay":
        return do_replay(argv[1])
    if not argv:
        print(__doc__)
        return 2
    prop = argv[0]
    tier = os.environ.get("VERIF_TIER", "quick")
    if "--tier" in argv:
        tier = argv[argv.index("--tier") + 1]
    seed = int(os.environ.get("VERIF_SEED", "0") or 0)
    try:
        return check_property(prop, tier, seed)
    except Undecided as e:
        print(f"UNDECIDED property={prop} reason={e.reason} {e.detail[:800]}")
        write_undecided_evidence(prop, tier, seed, e)
        return 2
    except Exception as e:
        print(f"UNDECIDED property={prop} reason=tool-error engine exception {e!r}")
        traceback.print_exc()
        return 2


def write_undecided_evidence(prop, tier, seed, e):
    os.makedirs(EVID, exist_ok=True)
    with open(os.path.join(EVID, prop + ".json"), "w") as f:
        json.dump({"property_id": prop, "tier": tier, "seed": int(seed), "level": "other",
                   "coverage": {"explanation": f"UNDECIDED: {e.reason}: {e.detail[:800]}"}, "wall_s": 0.0, "violations": 0}, f, indent=1)
