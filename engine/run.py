#!/usr/bin/env python3
"""Runner: assemble a unit, run Verus on it, map every diagnostic to a label.

A *failure record* is {label, fn, message, site (repo file:line or contract/lemma src), asm_line}.
Tool problems (rustc errors, unsupported constructs, rlimit) raise Undecided -> exit 2 upstream.
"""
import json, os, re, subprocess, sys, time

sys.path.insert(0, os.path.dirname(os.path.abspath(__file__)))
from assemble import Undecided, assemble, load_unit, BUILD, VERIF, REPO, run_extractor

VERUS = os.environ.get("VERUS", "verus")


def short_fn(path):
    """bbsplus::proof::PoKSignature<BBSplus<CS>>::proof_verify -> PoKSignature.proof_verify"""
    parts = path.split("::")
    name = parts[-1]
    owner = parts[-2] if len(parts) >= 2 else ""
    owner = re.sub(r"<.*$", "", owner)
    owner = owner.split("@")[0]
    if owner and owner[0].isupper():
        return f"{owner}.{name}"
    return name


def implicit_label(fn, unit):
    over = unit.get("total_labels", {})
    if fn in over:
        return over[fn]
    return f"C08.{short_fn(fn)}.total"


def run_verus(src_path, rlimit=None, seed=None, extra=None, timeout=1800):
    cmd = [VERUS, src_path, "--output-json", "--time", "--error-format=json", "--multiple-errors", "30"]
    if rlimit:
        cmd += ["--rlimit", str(rlimit)]
    if seed is not None and int(seed) != 0:
        cmd += ["--smt-option", f"smt.random_seed={int(seed) % 100000}"]
    if extra:
        cmd += extra
    t0 = time.time()
    # own process group, so that a timeout takes the solver children (z3) down with the driver
    proc = subprocess.Popen(cmd, stdout=subprocess.PIPE, stderr=subprocess.PIPE, text=True, cwd=os.path.dirname(src_path), start_new_session=True)
    try:
        so, se = proc.communicate(timeout=timeout)
    except subprocess.TimeoutExpired:
        try:
            os.killpg(proc.pid, 9)
        except OSError:
            pass
        proc.communicate()
        raise Undecided("timeout", f"verus timed out after {timeout}s on {src_path}")
    p = subprocess.CompletedProcess(cmd, proc.returncode, so, se)
    wall = time.time() - t0
    try:
        res = json.loads(p.stdout)
    except Exception:
        res = None
    diags = []
    for line in p.stderr.splitlines():
        line = line.strip()
        if not line.startswith("{"):
            continue
        try:
            d = json.loads(line)
        except Exception:
            continue
        if d.get("$message_type") == "diagnostic":
            diags.append(d)
    return res, diags, wall, p.returncode, p.stderr, " ".join(cmd)


TOOL_ERR_PATTERNS = [
    r"is not supported",
    r"not supported",
    r"unsupported",
    r"The verifier does not yet support",
    r"cannot find",
    r"mismatched types",
    r"unresolved",
    r"expected .* found",
    r"internal error",
    r"loop must have a decreases clause",
    r"trigger",
    r"assume_specification",
]


def classify(unit, out, res, diags, stderr):
    """-> (failures, notes). Raises Undecided for tool-level problems."""
    base = os.path.basename
    failures = []
    notes = []
    # labels of the contract clauses attached to each function: an implicit obligation (loop invariant,
    # index, overflow, callee precondition) failing inside f undermines every labelled clause of f
    fn_labels = {}
    for m in out.meta:
        if m.get("fn") and m.get("label") and m.get("kind") == "contract":
            fn_labels.setdefault(m["fn"], set()).add(m["label"])
    smt_kinds = (
        "postcondition not satisfied",
        "precondition not satisfied",
        "assertion failed",
        "invariant not satisfied",
        "possible arithmetic underflow/overflow",
        "possible division by zero",
        "decreases not satisfied",
        "possible bit shift underflow/overflow",
        "recommendation not met",
        "cannot show invariant holds",
        "unreachable",
        "constructed value may fail to meet its declared type invariant",
    )
    if res is None:
        raise Undecided("tool-error", "verus produced no JSON result: " + stderr[-1500:])
    vr = res.get("verification-results", {})
    if vr.get("encountered-vir-error"):
        msgs = [d["message"] for d in diags if d.get("level") == "error"]
        raise Undecided("unsupported", "VIR error: " + " | ".join(msgs)[:1500])
    for d in diags:
        if d.get("level") != "error":
            continue
        msg = d.get("message", "")
        if msg.startswith("aborting due to"):
            continue
        if "Resource limit (rlimit) exceeded" in msg or "rlimit" in msg.lower() and "exceeded" in msg.lower():
            raise Undecided("rlimit", msg + " @ " + span_site(d, out), fn=span_fn(d, out))
        if not any(msg.startswith(k) or k in msg for k in smt_kinds) and not vr.get("errors", 0) > 0:
            # rustc / mode / lifetime / unsupported-construct errors are tool-level (they abort before
            # the SMT stage, so verification-results.errors == 0); once Verus reports verification
            # errors, every error diagnostic is a failed obligation
            raise Undecided("unsupported", f"{msg[:300]} @ {span_site(d, out)}", fn=span_fn(d, out))
        spans = [s for s in d.get("spans", []) if base(s.get("file_name", "")).endswith(".rs") and "/" not in s.get("file_name", "x/").replace(os.path.dirname(s.get("file_name", "")) + "/", "")]
        label = None
        fn = None
        site = None
        asm_line = None
        contract_src = None
        # spans in the assembled file only
        own = [s for s in d.get("spans", []) if not s["file_name"].startswith("std_specs") and not s["file_name"].startswith("/rustc") and "vstd" not in s["file_name"]]
        # prefer a labelled span; primary first
        own.sort(key=lambda s: (not s.get("is_primary", False)))
        for s in own:
            ln = s["line_start"] - 1
            if 0 <= ln < len(out.meta):
                m = out.meta[ln]
                if m.get("label") and not m.get("region_only") and label is None:
                    label = m["label"]
                    contract_src = m.get("src") or (f"{m.get('file')}:{m.get('line')}" if m.get("file") else None)
        for s in own:
            ln = s["line_start"] - 1
            if 0 <= ln < len(out.meta):
                m = out.meta[ln]
                if fn is None and m.get("fn"):
                    fn = m["fn"]
                if s.get("is_primary") and asm_line is None:
                    asm_line = s["line_start"]
                    if m.get("file"):
                        site = f"{m['file']}:{m.get('line')}"
                    elif m.get("src"):
                        site = m["src"]
                if label is None and m.get("label") and m.get("region_only"):
                    label = m["label"]
        if label is None and fn is not None:
            label = implicit_label(fn, unit)
        if label is None:
            # a failure in shim/spec/lemma text without a label: proof-engineering problem, not the code
            raise Undecided("tool-error", f"unlabelled failure: {msg} @ {span_site(d, out)}")
        text = ""
        if asm_line and 0 < asm_line <= len(out.lines):
            text = out.lines[asm_line - 1].strip()[:160]
        implicit = bool(fn) and label == implicit_label(fn, unit)
        norefuse = False
        # a failed precondition of a PROOF function (lemma_ / ax_ / thm_ call in a proof block) is a hole in the proof, not a panic
        proof_call = bool(re.search(r"\b(lemma_|ax_|thm_)\w*\s*(::<[^>]*>)?\(", text or ""))
        panic_kind = (msg.startswith("precondition not satisfied") and not proof_call) or msg.startswith("precondition not met") or "arithmetic underflow/overflow" in msg or "division by zero" in msg or "bit shift" in msg
        if implicit and panic_kind and fn in getattr(out, "norefuse", {}):
            # the function's contract says @norefuse: a possible panic under its preconditions is a failure of that label (and of
            # that label only: Verus assumes the call returned, so the other clauses are proved for the runs that do not panic)
            label = out.norefuse[fn]
            implicit = False
            norefuse = True
        if implicit and not norefuse and unit.get("implicit") == "nondeciding" and panic_kind:
            # CL03 units: a panic is a refusal and no property speaks about panic freedom, so unlabelled callee / index /
            # overflow preconditions do not decide.  Failed loop invariants, assertions and postconditions DO: they carry
            # the proof of the labelled clauses (a clause "proved" from a failed invariant is not proved).
            notes.append({"nondeciding_implicit": label, "site": site, "message": msg})
            continue
        failures.append({"label": label, "fn": fn, "message": msg, "site": site, "asm_line": asm_line, "text": text, "clause_src": contract_src,
                         "implicit": implicit, "fn_labels": sorted(fn_labels.get(fn, [])) if fn else []})
    if vr.get("errors", 0) > 0 and not failures and not notes:
        raise Undecided("tool-error", "verus reports errors but no diagnostic was parsed: " + stderr[-1500:])
    if not vr.get("success", False) and not failures and vr.get("errors", 0) == 0:
        # compile (erasure) error after successful verification etc.
        msgs = [d["message"] for d in diags if d.get("level") == "error"]
        if msgs:
            raise Undecided("unsupported", " | ".join(msgs)[:1500])
    return failures, notes


def span_fn(d, out):
    for s in d.get("spans", []):
        if s.get("is_primary"):
            ln = s["line_start"] - 1
            if 0 <= ln < len(out.meta):
                return out.meta[ln].get("fn")
    return None


def span_site(d, out):
    for s in d.get("spans", []):
        if s.get("is_primary"):
            ln = s["line_start"] - 1
            if 0 <= ln < len(out.meta):
                m = out.meta[ln]
                where = m.get("src") or (f"{m.get('file')}:{m.get('line')}" if m.get("file") else m.get("kind"))
                return f"{where} (asm {s['line_start']}: {out.lines[ln].strip()[:100]})"
            return f"{s['file_name']}:{s['line_start']}"
    return "?"


def function_stats(res):
    stats = []
    try:
        for mod in res["times-ms"]["smt"]["smt-run-module-times"]:
            for f in mod.get("function-breakdown", []):
                stats.append({"function": f["function"], "ms": f["time"], "rlimit": f.get("rlimit"), "success": f["success"], "mode": f.get("mode:")})
    except Exception:
        pass
    return stats


def scan_assumptions(out):
    counts = {}
    pats = {
        "admit()": r"\badmit\(\)",
        "assume(": r"\bassume\(",
        "external_body": r"verifier::external_body",
        "assume_specification": r"\bassume_specification\b",
        "exec_allows_no_decreases_clause": r"exec_allows_no_decreases_clause",
        "external_type_specification": r"external_type_specification",
    }
    items = []
    for i, l in enumerate(out.lines):
        code = l.split("//")[0]
        for k, p in pats.items():
            if re.search(p, code):
                counts[k] = counts.get(k, 0) + 1
    return counts


def labels_in(out):
    labs = {}
    for m in out.meta:
        l = m.get("label")
        if l:
            labs[l] = labs.get(l, 0) + 1
    return labs


def verify_unit(name, seed=None, rlimit=None, items=None, mutate=None, keep=True, twin=False, wide=False, wide_fns=()):
    unit = load_unit(name)
    if wide:
        # second stage (see checker.run_units): the same extracted code and contracts, with the unit's further algebra axioms
        # (associativity, sign laws ...) in scope inside the bodies of the functions whose obligations failed in the first stage,
        # and nowhere else; bounded in wall-clock time because AC axioms can make Z3 diverge
        unit = dict(unit)
        bw = unit.get("broadcast_wide", [])
        if bw and isinstance(bw[0], list):
            # alternatives, narrowest first (wide = 1, 2, ...)
            bw = bw[min(int(wide), len(bw)) - 1]
        unit["_wide"] = {fn: list(bw) for fn in wide_fns}
        unit["timeout"] = unit.get("wide_timeout", 120)
    out, info = assemble(unit, items=items, twin=twin)
    if mutate:
        mutate(out)
    os.makedirs(BUILD, exist_ok=True)
    suffix = "_twin" if twin else ("" if mutate is None else f"_mut{os.getpid()}")
    if wide:
        suffix += f"_wide{int(wide)}"
    keep_file = os.environ.get("VERIF_KEEP") == "1" or __name__ == "__main__"
    src = os.path.join(BUILD, f"{name}{suffix}.rs" if keep_file else f"{name}{suffix}_{os.getpid()}.rs")
    with open(src, "w") as f:
        f.write(out.text())
    # Z3's resource count for one query varies severalfold from run to run (functions share solver processes, scheduling
    # differs), so the budget is three times Verus' default unless the unit sets its own
    rl = rlimit or unit.get("rlimit") or 30
    try:
        res, diags, wall, rc, stderr, cmd = run_verus(src, rlimit=rl, seed=seed, timeout=unit.get("timeout", 900))
        failures, notes = classify(unit, out, res, diags, stderr)
        vr = res["verification-results"]
    finally:
        if not keep or not keep_file:
            try:
                os.remove(src)
            except OSError:
                pass
    return {
        "unit": name,
        "failures": failures,
        "notes": notes,
        "verified": vr.get("verified", 0),
        "errors": vr.get("errors", 0),
        "wall_s": wall,
        "cmd": cmd,
        "functions": function_stats(res),
        "assumptions": scan_assumptions(out),
        "labels": labels_in(out),
        "rewrites": info["rewrites"],
        "verify_list": unit.get("verify", []),
        "assume_list": unit.get("assume", []),
        "out": out,
        "unit_cfg": unit,
        "twin_expected": info.get("twin_expected", []),
        "waived": list(out.waived),
    }


if __name__ == "__main__":
    name = sys.argv[1]
    try:
        r = verify_unit(name, seed=os.environ.get("VERIF_SEED"))
    except Undecided as e:
        print("UNDECIDED", e.reason, e.detail)
        sys.exit(2)
    print(f"unit {name}: verified={r['verified']} errors={r['errors']} wall={r['wall_s']:.1f}s")
    seen = set()
    for f in r["failures"]:
        key = (f["label"], f["site"], f["message"])
        if key in seen:
            continue
        seen.add(key)
        print(f"  FAIL {f['label']:45s} {f['message'][:40]:40s} {f['site']}  | {f['text'][:90]}")
    for n in r["notes"]:
        print(f"  note (non-deciding: a possible panic, which is a refusal in this unit) {n.get('site')} | {n.get('message')[:60]}")
    slow = sorted(r["functions"], key=lambda x: -x["ms"])[:5]
    print("  slowest:", [(s["function"].split("::")[-1], s["ms"]) for s in slow])
