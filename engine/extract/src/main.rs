// vx — span-based extractor for the zkryptium contract verification engine.
//
// Reads Rust source files of /repo (current working tree), walks the AST with `syn`, and emits
// every item (functions, methods, type definitions, consts, traits) as *verbatim source text cut
// by span* with a fixed, enumerated set of local rewrites applied as (span -> replacement) edits.
// Every edit is logged with its rule id and /repo line. Markers are inserted where the assembler
// splices contracts:
//     /*@RET<*/ T /*@>RET*/      around the return type     -> "(name: T)"
//     /*@SIG*/                   just before the body '{'     -> requires/ensures
//     /*@LOOP:n*/                just before a loop body '{'  -> invariant/decreases
//
// Rules (DESIGN.md section 3): R1 attrs/docs/visibility, R2 cfg, R3 hash primitives, R4 patterns
// Verus rejects / slice iteration by index, R5 macros, R6 concat, R7 iterator idioms -> loops,
// R8 collect-chains -> shim functions, R9 deref after get / operator normalisation (ops mode),
// R12 array try_from/try_into -> shim.
use proc_macro2::Span;
use serde_json::{json, Value};
use std::collections::HashSet;
use syn::punctuated::Punctuated;
use syn::spanned::Spanned;
use syn::visit::{self, Visit};
use syn::*;

#[derive(Clone, Debug)]
struct Edit {
    lo: usize,
    hi: usize,
    text: String,
    rule: &'static str,
    seq: usize,
    close: bool,
}

struct FileCtx<'a> {
    src: &'a str,
    path: String,
    features: HashSet<String>,
    ops: bool,
    deref_lets: HashSet<String>,
    tape_fns: HashSet<String>,
    decl_types: std::collections::HashMap<String, String>,
    line_starts: Vec<usize>,
}

impl<'a> FileCtx<'a> {
    fn line_of(&self, off: usize) -> usize {
        match self.line_starts.binary_search(&off) {
            Ok(i) => i + 1,
            Err(i) => i,
        }
    }
    fn text(&self, sp: Span) -> &'a str {
        let r = sp.byte_range();
        &self.src[r.start..r.end]
    }
    fn rng(&self, sp: Span) -> (usize, usize) {
        let r = sp.byte_range();
        (r.start, r.end)
    }
}

// ---------------------------------------------------------------------------------------------
// cfg evaluation
fn cfg_eval(meta: &Meta, feats: &HashSet<String>) -> Option<bool> {
    // returns Some(b) for a cfg predicate we understand
    match meta {
        Meta::Path(p) => {
            if p.is_ident("test") || p.is_ident("kani") || p.is_ident("debug_assertions") {
                Some(p.is_ident("debug_assertions"))
            } else {
                None
            }
        }
        Meta::NameValue(nv) => {
            if nv.path.is_ident("feature") {
                if let Expr::Lit(ExprLit { lit: Lit::Str(s), .. }) = &nv.value {
                    return Some(feats.contains(&s.value()));
                }
            }
            None
        }
        Meta::List(l) => {
            let name = l.path.get_ident().map(|i| i.to_string()).unwrap_or_default();
            let inner: Punctuated<Meta, Token![,]> =
                l.parse_args_with(Punctuated::parse_terminated).ok()?;
            match name.as_str() {
                "not" => inner.first().and_then(|m| cfg_eval(m, feats)).map(|b| !b),
                "all" => {
                    let mut r = true;
                    for m in inner.iter() {
                        r &= cfg_eval(m, feats)?;
                    }
                    Some(r)
                }
                "any" => {
                    let mut r = false;
                    for m in inner.iter() {
                        r |= cfg_eval(m, feats)?;
                    }
                    Some(r)
                }
                _ => None,
            }
        }
    }
}

/// None = no cfg attr; Some(true/false) = enabled/disabled.
fn attrs_cfg(attrs: &[Attribute], feats: &HashSet<String>) -> Option<bool> {
    let mut res: Option<bool> = None;
    for a in attrs {
        if a.path().is_ident("cfg") {
            if let Meta::List(l) = &a.meta {
                let inner: std::result::Result<Meta, _> = l.parse_args();
                if let Ok(m) = inner {
                    let b = cfg_eval(&m, feats).unwrap_or(true);
                    res = Some(res.unwrap_or(true) && b);
                }
            }
        }
    }
    res
}

// ---------------------------------------------------------------------------------------------
struct Rewriter<'a, 'b> {
    fx: &'b FileCtx<'a>,
    edits: Vec<Edit>,
    errors: Vec<String>,
    loops: Vec<Value>,
    log: Vec<Value>,
    seq: usize,
    tmp: usize,
    in_trait_impl: bool,
    rename_self: bool,
    rng_idents: HashSet<String>,
    ref_idents: HashSet<String>,
    /// locals declared `let x: Vec<INT> = ..` (owned vector of a primitive Copy integer): `for i in x` binds i by value
    owned_int_vecs: HashSet<String>,
}

fn norm_ws(s: &str) -> String {
    s.split_whitespace().collect::<Vec<_>>().join(" ")
}

impl<'a, 'b> Rewriter<'a, 'b> {
    fn new(fx: &'b FileCtx<'a>) -> Self {
        Rewriter { fx, edits: vec![], errors: vec![], loops: vec![], log: vec![], seq: 0, tmp: 0, in_trait_impl: false, rename_self: false, rng_idents: HashSet::new(), ref_idents: HashSet::new(), owned_int_vecs: HashSet::new() }
    }
    fn edit(&mut self, lo: usize, hi: usize, text: String, rule: &'static str) {
        self.seq += 1;
        if rule != "M" && rule != "R1" {
            let from = norm_ws(&self.fx.src[lo..hi]);
            self.log.push(json!({"rule": rule, "line": self.fx.line_of(lo), "from": from.chars().take(160).collect::<String>(), "to": norm_ws(&text).chars().take(200).collect::<String>()}));
        }
        self.edits.push(Edit { lo, hi, text, rule, seq: self.seq, close: false });
    }
    /// a zero-width closing insertion: at equal offsets inner closers are emitted before outer ones
    fn edit_close(&mut self, at: usize, text: String, rule: &'static str) {
        self.edit(at, at, text, rule);
        if let Some(e) = self.edits.last_mut() {
            e.close = true;
        }
    }
    fn fresh(&mut self) -> usize {
        self.tmp += 1;
        self.tmp
    }
    fn new_loop(&mut self, fp: String, line: usize) -> String {
        let id = self.loops.len();
        self.loops.push(json!({"id": id, "fp": norm_ws(&fp), "line": line}));
        format!("/*@LOOP:{}*/", id)
    }
    fn strip_attrs(&mut self, attrs: &[Attribute]) {
        for a in attrs {
            let (lo, hi) = self.fx.rng(a.span());
            // derive(Clone, Copy) is semantic (copy vs move): keep exactly those two
            if a.path().is_ident("derive") {
                let t = self.fx.text(a.span());
                let mut keep: Vec<&str> = vec![];
                for w in ["Clone", "Copy"] {
                    if t.split(|c: char| !c.is_alphanumeric()).any(|x| x == w) {
                        keep.push(w);
                    }
                }
                if !keep.is_empty() {
                    self.edit(lo, hi, format!("#[derive({})]", keep.join(", ")), "R1");
                    continue;
                }
            }
            self.edit(lo, hi, String::new(), "R1");
        }
    }
    fn apply(&self, lo: usize, hi: usize) -> std::result::Result<String, String> {
        let mut es: Vec<&Edit> = self.edits.iter().filter(|e| e.lo >= lo && e.hi <= hi).collect();
        es.sort_by_key(|e| {
            let zero = e.lo == e.hi;
            if zero && e.close {
                (e.lo, 0u8, -(e.seq as i64))
            } else if zero {
                (e.lo, 1u8, e.seq as i64)
            } else {
                (e.lo, 2u8, e.seq as i64)
            }
        });
        let mut out = String::new();
        let mut pos = lo;
        for e in es {
            if e.lo < pos {
                return Err(format!(
                    "overlapping edits at line {} (rule {}): {:?}",
                    self.fx.line_of(e.lo),
                    e.rule,
                    &self.fx.src[e.lo..e.hi.min(e.lo + 60)]
                ));
            }
            out.push_str(&self.fx.src[pos..e.lo]);
            out.push_str(&e.text);
            // keep the line structure of the source: pad with the newlines the edit removed
            let removed = self.fx.src[e.lo..e.hi].matches('\n').count();
            let added = e.text.matches('\n').count();
            for _ in added..removed {
                out.push('\n');
            }
            pos = e.hi;
        }
        out.push_str(&self.fx.src[pos..hi]);
        Ok(out)
    }

    // pattern helpers ------------------------------------------------------------------------
    /// returns (binding name, number of leading & derefs) for patterns `x`, `&x`, `&&x`, `_`
    fn simple_pat(&mut self, p: &Pat) -> Option<(String, usize)> {
        match p {
            Pat::Ident(pi) if pi.by_ref.is_none() && pi.subpat.is_none() => Some((pi.ident.to_string(), 0)),
            Pat::Wild(_) => {
                let n = self.fresh();
                Some((format!("_u{}", n), 0))
            }
            Pat::Reference(r) => self.simple_pat(&r.pat).map(|(n, d)| (n, d + 1)),
            Pat::Type(t) => self.simple_pat(&t.pat),
            Pat::Paren(t) => self.simple_pat(&t.pat),
            _ => None,
        }
    }
    fn iter_receiver<'e>(&self, e: &'e Expr) -> Option<&'e Expr> {
        if let Expr::MethodCall(mc) = e {
            if mc.method == "iter" && mc.args.is_empty() {
                return Some(&mc.receiver);
            }
        }
        None
    }
    fn closure_of<'e>(&self, e: &'e Expr) -> Option<&'e ExprClosure> {
        if let Expr::Closure(c) = e {
            Some(c)
        } else {
            None
        }
    }
    fn is_block(e: &Expr) -> bool {
        matches!(e, Expr::Block(_))
    }

    /// `RECV.iter()[.map(|P1| E1)].for_each(|P2| B2)` -> indexed for loop
    fn rw_for_each(&mut self, mc: &ExprMethodCall) -> bool {
        let c2 = match mc.args.first().and_then(|a| self.closure_of(a)) {
            Some(c) if mc.args.len() == 1 && c.inputs.len() == 1 => c,
            _ => return false,
        };
        // X.iter().enumerate().for_each(|(i, m)| B)
        if let Expr::MethodCall(en) = &*mc.receiver {
            if en.method == "enumerate" && en.args.is_empty() {
                if let (Some(recv), Pat::Tuple(pt)) = (self.iter_receiver(&en.receiver), &c2.inputs[0]) {
                    if pt.elems.len() == 2 {
                        let a = self.simple_pat(&pt.elems[0]);
                        let b = self.simple_pat(&pt.elems[1]);
                        if let (Some((pa, 0)), Some((pb, 0))) = (a, b) {
                            let n = self.loops.len();
                            let (elo, ehi) = self.fx.rng(mc.span());
                            let line = self.fx.line_of(elo);
                            let recv_txt = self.fx.text(recv.span()).to_string();
                            let marker = self.new_loop(format!("enumerate for_each over {}", recv_txt), line);
                            let (b2lo, b2hi) = self.fx.rng(c2.body.span());
                            let head = format!("{{ let it__{n} = &({recv}); for {pa} in 0..it__{n}.len() {marker}{{ let {pb} = &it__{n}[{pa}]; ", n = n, recv = recv_txt, pa = pa, marker = marker, pb = pb);
                            self.ref_idents.insert(pb.clone());
                            self.edit(elo, b2lo, head, "R7");
                            self.edit(b2hi, ehi, format!("; /*@LOOPEND:{}*/}} }}", n), "R7");
                            self.visit_expr(&c2.body);
                            return true;
                        }
                    }
                }
            }
        }
        // optional map stage
        let (recv, map_c) = if let Some(r) = self.iter_receiver(&mc.receiver) {
            (r, None)
        } else if let Expr::MethodCall(m1) = &*mc.receiver {
            if m1.method == "map" && m1.args.len() == 1 {
                match (self.iter_receiver(&m1.receiver), self.closure_of(&m1.args[0])) {
                    (Some(r), Some(c1)) if c1.inputs.len() == 1 => (r, Some(c1)),
                    _ => return false,
                }
            } else {
                return false;
            }
        } else {
            return false;
        };
        let n = self.loops.len();
        let (it, ik) = (format!("it__{}", n), format!("ik__{}", n));
        let (elo, ehi) = self.fx.rng(mc.span());
        let (rlo, rhi) = self.fx.rng(recv.span());
        let line = self.fx.line_of(elo);
        let recv_txt = self.fx.text(recv.span()).to_string();
        let first_c = map_c.unwrap_or(c2);
        let (p1, d1) = match self.simple_pat(&first_c.inputs[0]) {
            Some(x) => x,
            None => return false,
        };
        let elem = if d1 == 0 { format!("let {} = &{}[{}];", p1, it, ik) } else if d1 == 1 { format!("let {} = {}[{}];", p1, it, ik) } else { return false };
        let fp = format!("for_each over {}", recv_txt);
        let marker = self.new_loop(fp, line);
        let head = format!("{{ let {it} = &({recv}); for {ik} in 0..{it}.len() {marker}{{ {elem} ", it = it, recv = recv_txt, ik = ik, marker = marker, elem = elem);
        // replace [elo, first closure body start) — receiver text is re-emitted raw
        let _ = (rlo, rhi);
        if let Some(c1) = map_c {
            let (p2, d2) = match self.simple_pat(&c2.inputs[0]) {
                Some(x) => x,
                None => return false,
            };
            if d2 != 0 {
                return false;
            }
            let (b1lo, b1hi) = self.fx.rng(c1.body.span());
            let (b2lo, b2hi) = self.fx.rng(c2.body.span());
            self.edit(elo, b1lo, format!("{}let {} = ", head, p2), "R7");
            self.edit(b1hi, b2lo, "; ".to_string(), "R7");
            self.edit(b2hi, ehi, format!("; /*@LOOPEND:{}*/}} }}", n), "R7");
            self.visit_expr(&c1.body);
            self.visit_expr(&c2.body);
        } else {
            let (b2lo, b2hi) = self.fx.rng(c2.body.span());
            self.edit(elo, b2lo, head, "R7");
            self.edit(b2hi, ehi, format!("; /*@LOOPEND:{}*/}} }}", n), "R7");
            self.visit_expr(&c2.body);
        }
        true
    }

    /// `RECV.iter().any(|P| C)` / `.find(|P| C)` -> flag loop
    fn rw_any_find(&mut self, mc: &ExprMethodCall, find: bool) -> bool {
        let recv = match self.iter_receiver(&mc.receiver) {
            Some(r) => r,
            None => return false,
        };
        let c = match mc.args.first().and_then(|a| self.closure_of(a)) {
            Some(c) if mc.args.len() == 1 && c.inputs.len() == 1 => c,
            _ => return false,
        };
        let (p, d) = match self.simple_pat(&c.inputs[0]) {
            Some(x) => x,
            None => return false,
        };
        // any: closure takes &T ; find: closure takes &&T
        let want = if find { 2 } else { 1 };
        let elem = if d == want {
            format!("let {} = it__N[ik__N];", p)
        } else if d + 1 == want {
            format!("let {} = &it__N[ik__N];", p)
        } else if d == 0 && find {
            return false;
        } else {
            return false;
        };
        let n = self.loops.len();
        let elem = elem.replace("__N", &format!("__{}", n));
        let (elo, ehi) = self.fx.rng(mc.span());
        let (blo, bhi) = self.fx.rng(c.body.span());
        let recv_txt = self.fx.text(recv.span()).to_string();
        let line = self.fx.line_of(elo);
        let fp = format!("{} over {}", if find { "find" } else { "any" }, recv_txt);
        let marker = self.new_loop(fp, line);
        let (it, ik, fl) = (format!("it__{}", n), format!("ik__{}", n), format!("fl__{}", n));
        if find {
            let head = format!(
                "{{ let {it} = &({recv}); let mut {ik}: usize = 0; let mut {fl} = None; while {ik} < {it}.len() && {fl}.is_none() {marker}{{ {elem} if ",
                it = it, recv = recv_txt, ik = ik, fl = fl, marker = marker, elem = elem
            );
            self.edit(elo, blo, head, "R7");
            self.edit(bhi, ehi, format!(" {{ {fl} = Some(&{it}[{ik}]); }} {ik} += 1; /*@LOOPEND:{n}*/}} {fl} }}", fl = fl, it = it, ik = ik, n = n), "R7");
        } else {
            let head = format!(
                "{{ let {it} = &({recv}); let mut {ik}: usize = 0; let mut {fl} = false; while {ik} < {it}.len() && !{fl} {marker}{{ {elem} if ",
                it = it, recv = recv_txt, ik = ik, fl = fl, marker = marker, elem = elem
            );
            self.edit(elo, blo, head, "R7");
            self.edit(bhi, ehi, format!(" {{ {fl} = true; }} {ik} += 1; /*@LOOPEND:{n}*/}} {fl} }}", fl = fl, ik = ik, n = n), "R7");
        }
        self.visit_expr(&c.body);
        true
    }

    /// `[a, b(, c)].concat()` -> concatN(a, b, c)
    fn rw_concat(&mut self, mc: &ExprMethodCall) -> bool {
        if !mc.args.is_empty() {
            return false;
        }
        let arr = match &*mc.receiver {
            Expr::Array(a) => a,
            _ => return false,
        };
        let n = arr.elems.len();
        if n < 2 || n > 3 {
            return false;
        }
        let (elo, ehi) = self.fx.rng(mc.span());
        let first = self.fx.rng(arr.elems.first().unwrap().span());
        let last = self.fx.rng(arr.elems.last().unwrap().span());
        self.edit(elo, first.0, format!("concat{}(", n), "R6");
        self.edit(last.1, ehi, ")".to_string(), "R6");
        for e in arr.elems.iter() {
            self.visit_expr(e);
        }
        true
    }

    /// collect-chains (R8)
    fn rw_collect(&mut self, mc: &ExprMethodCall) -> bool {
        // X.chain(Y).collect()
        let ch = match &*mc.receiver {
            Expr::MethodCall(m) if m.method == "chain" && m.args.len() == 1 => m,
            _ => return false,
        };
        let (elo, ehi) = self.fx.rng(mc.span());
        // form 1: A.iter().copied().chain(B.iter().map(|[&]j| j + X [+ Y])).collect()
        if let Expr::MethodCall(cp) = &*ch.receiver {
            if cp.method == "copied" {
                if let (Some(a), Expr::MethodCall(mp)) = (self.iter_receiver(&cp.receiver), &ch.args[0]) {
                    if mp.method == "map" && mp.args.len() == 1 {
                        if let (Some(b), Some(c)) = (self.iter_receiver(&mp.receiver), self.closure_of(&mp.args[0])) {
                            if c.inputs.len() == 1 {
                                if let Some((p, _d)) = self.simple_pat(&c.inputs[0]) {
                                    // body must be  p + t1 [+ t2]
                                    let mut terms: Vec<String> = vec![];
                                    let mut cur: &Expr = &c.body;
                                    loop {
                                        match cur {
                                            Expr::Binary(bin) if matches!(bin.op, BinOp::Add(_)) => {
                                                terms.push(self.fx.text(bin.right.span()).to_string());
                                                cur = &bin.left;
                                            }
                                            Expr::Path(pp) if pp.path.is_ident(&p) => break,
                                            _ => return false,
                                        }
                                    }
                                    terms.reverse();
                                    if terms.is_empty() || terms.len() > 2 {
                                        return false;
                                    }
                                    while terms.len() < 2 {
                                        terms.push("0".to_string());
                                    }
                                    let txt = format!(
                                        "chain_offset(&({}), &({}), {}, {})",
                                        self.fx.text(a.span()),
                                        self.fx.text(b.span()),
                                        terms[0],
                                        terms[1]
                                    );
                                    self.edit(elo, ehi, txt, "R8");
                                    return true;
                                }
                            }
                        }
                    }
                }
            }
        }
        // form 2: once(X).chain(Y.iter().map(|m| m.value)).chain(once(Z)).collect()
        let is_once = |e: &Expr| -> Option<Expr> {
            if let Expr::Call(c) = e {
                if let Expr::Path(p) = &*c.func {
                    if p.path.segments.last().map(|s| s.ident == "once").unwrap_or(false) && c.args.len() == 1 {
                        return Some(c.args[0].clone());
                    }
                }
            }
            None
        };
        if let Some(z) = is_once(&ch.args[0]) {
            if let Expr::MethodCall(ch1) = &*ch.receiver {
                if ch1.method == "chain" && ch1.args.len() == 1 {
                    if let (Some(x), Expr::MethodCall(mp)) = (is_once(&ch1.receiver), &ch1.args[0]) {
                        if mp.method == "map" && mp.args.len() == 1 {
                            if let (Some(y), Some(c)) = (self.iter_receiver(&mp.receiver), self.closure_of(&mp.args[0])) {
                                let body = norm_ws(self.fx.text(c.body.span()));
                                let pat = norm_ws(self.fx.text(c.inputs[0].span()));
                                if body == format!("{}.value", pat) {
                                    let txt = format!(
                                        "once_values_once({}, &({}), {})",
                                        self.fx.text(x.span()),
                                        self.fx.text(y.span()),
                                        self.fx.text(z.span())
                                    );
                                    self.edit(elo, ehi, txt, "R8");
                                    return true;
                                }
                            }
                        }
                    }
                }
            }
        }
        false
    }

    fn rw_for(&mut self, f: &ExprForLoop) {
        let (flo, _fhi) = self.fx.rng(f.span());
        let for_lo = self.fx.rng(f.for_token.span()).0;
        let (blo, bhi) = self.fx.rng(f.body.span());
        let line = self.fx.line_of(flo);
        let hdr = self.fx.src[for_lo..blo].to_string();
        self.strip_attrs(&f.attrs);
        // range: leave
        if matches!(&*f.expr, Expr::Range(_)) {
            let n = self.loops.len();
            let m = self.new_loop(hdr, line);
            self.edit(blo, blo, m, "M");
            self.edit(bhi - 1, bhi - 1, format!("/*@LOOPEND:{}*/", n), "M");
            self.visit_block(&f.body);
            return;
        }
        // zip(X, Y)
        if let Expr::Call(c) = &*f.expr {
            if let Expr::Path(p) = &*c.func {
                if p.path.segments.last().map(|s| s.ident == "zip").unwrap_or(false) && c.args.len() == 2 {
                    if let Pat::Tuple(pt) = &*f.pat {
                        if pt.elems.len() == 2 {
                            let a = self.simple_pat(&pt.elems[0]);
                            let b = self.simple_pat(&pt.elems[1]);
                            if let (Some((pa, 0)), Some((pb, 0))) = (a, b) {
                                let n = self.loops.len();
                                let m = self.new_loop(hdr.clone(), line);
                                let txt = format!(
                                    "{{ let zx__{n} = {x}; let zy__{n} = {y}; let zn__{n} = if zx__{n}.len() < zy__{n}.len() {{ zx__{n}.len() }} else {{ zy__{n}.len() }}; for zk__{n} in 0..zn__{n} {m}{{ let {pa} = &zx__{n}[zk__{n}]; let {pb} = &zy__{n}[zk__{n}]; ",
                                    n = n, x = self.fx.text(c.args[0].span()), y = self.fx.text(c.args[1].span()), m = m, pa = pa, pb = pb
                                );
                                self.edit(for_lo, blo + 1, txt, "R7");
                                self.edit(bhi - 1, bhi - 1, format!("/*@LOOPEND:{}*/", n), "M");
                                self.edit(bhi, bhi, " }".to_string(), "R7");
                                self.visit_block(&f.body);
                                return;
                            }
                        }
                    }
                }
            }
        }
        // X.iter().enumerate()
        if let Expr::MethodCall(mc) = &*f.expr {
            if mc.method == "enumerate" && mc.args.is_empty() {
                if let (Some(recv), Pat::Tuple(pt)) = (self.iter_receiver(&mc.receiver), &*f.pat) {
                    if pt.elems.len() == 2 {
                        let a = self.simple_pat(&pt.elems[0]);
                        let b = self.simple_pat(&pt.elems[1]);
                        if let (Some((pa, 0)), Some((pb, 0))) = (a, b) {
                            let n = self.loops.len();
                            let m = self.new_loop(hdr.clone(), line);
                            let txt = format!(
                                "{{ let it__{n} = &({x}); for {pa} in 0..it__{n}.len() {m}{{ let {pb} = &it__{n}[{pa}]; ",
                                n = n, x = self.fx.text(recv.span()), pa = pa, m = m, pb = pb
                            );
                            self.ref_idents.insert(pb.clone());
                            self.edit(for_lo, blo + 1, txt, "R7");
                            self.edit(bhi - 1, bhi - 1, format!("/*@LOOPEND:{}*/", n), "M");
                            self.edit(bhi, bhi, " }".to_string(), "R7");
                            self.visit_block(&f.body);
                            return;
                        }
                    }
                }
            }
        }
        // X.chunks_exact(N)
        if let Expr::MethodCall(mc) = &*f.expr {
            if mc.method == "chunks_exact" && mc.args.len() == 1 {
                if let Some((p, 0)) = self.simple_pat(&f.pat) {
                    let body_txt = self.fx.text(f.body.span());
                    if body_txt.contains("continue") {
                        self.errors.push(format!("line {}: chunks_exact body contains continue", line));
                    }
                    let n = self.loops.len();
                    let m = self.new_loop(hdr.clone(), line);
                    let w = self.fx.text(mc.args[0].span());
                    let txt = format!(
                        "{{ let cs__{n} = &({x}); let cn__{n} = cs__{n}.len() / {w}; let mut ck__{n}: usize = 0; while ck__{n} < cn__{n} {m}{{ let {p} = &cs__{n}[{w} * ck__{n}..{w} * ck__{n} + {w}]; ",
                        n = n, x = self.fx.text(mc.receiver.span()), w = w, m = m, p = p
                    );
                    self.edit(for_lo, blo + 1, txt, "R7");
                    self.edit(bhi - 1, bhi, format!("; ck__{n} += 1; /*@LOOPEND:{n}*/}} }}", n = n), "R7");
                    self.visit_block(&f.body);
                    return;
                }
            }
        }
        // slice iteration:  for P in E / E.iter()
        if let Some((p, d)) = self.simple_pat(&f.pat) {
            let e = self.iter_receiver(&f.expr).unwrap_or(&f.expr);
            let plain = matches!(e, Expr::Path(_) | Expr::Field(_) | Expr::Reference(_) | Expr::Paren(_));
            if plain && d <= 1 {
                let n = self.loops.len();
                let m = self.new_loop(hdr.clone(), line);
                // `for i in v` with v a local `Vec<INT>` consumes the vector: i is an INT, not a reference
                let by_value = d == 0 && self.iter_receiver(&f.expr).is_none()
                    && matches!(e, Expr::Path(pp) if pp.path.get_ident().map(|i| self.owned_int_vecs.contains(&i.to_string())).unwrap_or(false));
                let elem = if d == 0 && !by_value { format!("let {} = &it__{}[ik__{}];", p, n, n) } else { format!("let {} = it__{}[ik__{}];", p, n, n) };
                if d == 0 && !by_value {
                    self.ref_idents.insert(p.clone());
                }
                let txt = format!(
                    "{{ let it__{n} = &({x}); for ik__{n} in 0..it__{n}.len() {m}{{ {elem} ",
                    n = n, x = self.fx.text(e.span()), m = m, elem = elem
                );
                self.edit(for_lo, blo + 1, txt, "R4");
                self.edit(bhi - 1, bhi - 1, format!("/*@LOOPEND:{}*/", n), "M");
                self.edit(bhi, bhi, " }".to_string(), "R4");
                self.visit_block(&f.body);
                return;
            }
        }
        self.errors.push(format!("line {}: for loop form not supported: {}", line, norm_ws(&hdr)));
    }
}

fn path_str(p: &Path) -> String {
    p.segments.iter().map(|s| s.ident.to_string()).collect::<Vec<_>>().join("::")
}

impl<'a, 'b, 'ast> Visit<'ast> for Rewriter<'a, 'b> {
    fn visit_stmt(&mut self, s: &'ast Stmt) {
        let attrs: &[Attribute] = match s {
            Stmt::Local(l) => &l.attrs,
            Stmt::Macro(m) => &m.attrs,
            Stmt::Expr(e, _) => expr_attrs(e),
            Stmt::Item(_) => &[],
        };
        match attrs_cfg(attrs, &self.fx.features) {
            Some(false) => {
                let (lo, hi) = self.fx.rng(s.span());
                self.edit(lo, hi, String::new(), "R2");
                return;
            }
            Some(true) => {
                for a in attrs {
                    if a.path().is_ident("cfg") {
                        let (lo, hi) = self.fx.rng(a.span());
                        self.edit(lo, hi, String::new(), "R2");
                    }
                }
            }
            None => {}
        }
        if let Stmt::Item(_) = s {
            return; // nested items are kept verbatim
        }
        // `let mut x;` (deferred initialisation, type inferred later): add the declared type (D)
        if let Stmt::Local(l) = s {
            if let (Pat::Ident(pi), None) = (&l.pat, &l.init) {
                if let Some(t) = self.fx.decl_types.get(&pi.ident.to_string()) {
                    let (_, hi) = self.fx.rng(pi.span());
                    self.edit(hi, hi, format!(": {}", t), "R4");
                }
            }
        }
        if let Stmt::Local(l) = s {
            if let Pat::Type(pt) = &l.pat {
                if let Pat::Ident(pi) = &*pt.pat {
                    let ty = norm_ws(self.fx.text(pt.ty.span())).replace(' ', "");
                    if matches!(ty.as_str(), "Vec<usize>" | "Vec<u8>" | "Vec<u16>" | "Vec<u32>" | "Vec<u64>" | "Vec<i32>" | "Vec<i64>") {
                        self.owned_int_vecs.insert(pi.ident.to_string());
                    }
                }
            }
            if let (Pat::Struct(ps), Some(init)) = (&l.pat, &l.init) {
                let is_ref = match &*init.expr {
                    Expr::Path(p) => p.path.get_ident().map(|i| self.ref_idents.contains(&i.to_string())).unwrap_or(false),
                    Expr::Reference(_) => true,
                    _ => false,
                };
                if is_ref {
                    for f in ps.fields.iter() {
                        if let Pat::Ident(pi) = &*f.pat {
                            self.ref_idents.insert(pi.ident.to_string());
                        }
                    }
                }
            }
            if let (Pat::Ident(pi), Some(init)) = (&l.pat, &l.init) {
                // `let x = &expr;` binds a reference
                if matches!(&*init.expr, Expr::Reference(_)) {
                    self.ref_idents.insert(pi.ident.to_string());
                }
                let t = norm_ws(self.fx.text(init.expr.span()));
                if t.ends_with("thread_rng()") {
                    self.rng_idents.insert(pi.ident.to_string());
                }
            }
        }
        // R9: deref after get(..).ok_or(..)?
        if let Stmt::Local(l) = s {
            if let Pat::Ident(pi) = &l.pat {
                let name = pi.ident.to_string();
                if self.fx.deref_lets.contains(&name) {
                    if let Some(init) = &l.init {
                        let t = norm_ws(self.fx.text(init.expr.span()));
                        if t.contains(".get(") && t.ends_with('?') {
                            let (_lo, hi) = self.fx.rng(s.span());
                            self.edit(hi, hi, format!(" let {n} = *{n};", n = name), "R9");
                        }
                    }
                }
            }
        }
        if let Stmt::Macro(m) = s {
            self.rw_macro(&m.mac, true);
            return;
        }
        visit::visit_stmt(self, s);
    }

    fn visit_expr(&mut self, e: &'ast Expr) {
        match e {
            Expr::Macro(m) => {
                self.rw_macro(&m.mac, false);
            }
            Expr::MethodCall(mc) => {
                let name = mc.method.to_string();
                let done = match name.as_str() {
                    "for_each" => self.rw_for_each(mc),
                    "any" => self.rw_any_find(mc, false),
                    "find" => self.rw_any_find(mc, true),
                    "concat" => self.rw_concat(mc),
                    "collect" => self.rw_collect(mc),
                    _ => false,
                };
                if done {
                    return;
                }
                // R14: X.unwrap_or_else(|| BODY)  ->  match X { Some(v) => v, None => BODY }  (closure without parameters:
                // evaluated exactly when X is None - the definition of Option::unwrap_or_else)
                if name == "unwrap_or_else" && mc.args.len() == 1 {
                    if let Some(c) = self.closure_of(&mc.args[0]) {
                        if c.inputs.is_empty() && matches!(&*mc.receiver, Expr::Path(_)) {
                            let (elo, ehi) = self.fx.rng(mc.span());
                            let (blo, bhi) = self.fx.rng(c.body.span());
                            let recv_txt = self.fx.text(mc.receiver.span()).to_string();
                            self.edit(elo, blo, format!("match {} {{ Some(v__uoe) => v__uoe, None => ", recv_txt), "R14");
                            self.edit(bhi, ehi, " }".to_string(), "R14");
                            self.visit_expr(&c.body);
                            return;
                        }
                    }
                }
                // R8: X.get(A..B).unwrap_or_default()  ->  slice_get_or_empty(&(X), A, B)
                if name == "unwrap_or_default" && mc.args.is_empty() {
                    if let Expr::MethodCall(g) = &*mc.receiver {
                        if g.method == "get" && g.args.len() == 1 {
                            if let Expr::Range(r) = &g.args[0] {
                                if let (Some(a), Some(b), RangeLimits::HalfOpen(_)) = (&r.start, &r.end, &r.limits) {
                                    let (lo, hi) = self.fx.rng(mc.span());
                                    let txt = format!("slice_get_or_empty(&({}), {}, {})", self.fx.text(g.receiver.span()), self.fx.text(a.span()), self.fx.text(b.span()));
                                    self.edit(lo, hi, txt, "R8");
                                    return;
                                }
                            }
                        }
                    }
                }
                if name == "fill_bytes" {
                    if let Expr::Path(rp) = &*mc.receiver {
                        if let Some(id) = rp.path.get_ident() {
                            if self.rng_idents.contains(&id.to_string()) && !self.fx.tape_fns.is_empty() {
                                let (_, hi) = self.fx.rng(mc.paren_token.span.close());
                                self.edit(hi - 1, hi - 1, ", Tracked(tape)".to_string(), "R10");
                            }
                        }
                    }
                }
                if self.fx.ops && (name == "unwrap" || name == "expect") {
                    // CL03: unwrap()/expect() failing is a panic, which the properties count as a refusal
                    let (lo, hi) = self.fx.rng(mc.method.span());
                    self.edit(lo, hi, format!("{}_refuse", name), "R5");
                }
                if self.fx.ops && name == "to_owned" && mc.args.is_empty() {
                    // ToOwned for T: Clone is `clone` (D)
                    let (lo, hi) = self.fx.rng(mc.method.span());
                    self.edit(lo, hi, "clone".to_string(), "R9");
                }
                if name == "try_into" && mc.args.is_empty() {
                    let (lo, hi) = self.fx.rng(mc.method.span());
                    self.edit(lo, hi, "try_into_arr".to_string(), "R12");
                }
                // R16: (A..B).collect()  ->  range_collect(A, B)   (the listed integers in order; the target type comes from the binding)
                if name == "collect" && mc.args.is_empty() {
                    if let Expr::Paren(pe) = &*mc.receiver {
                        if let Expr::Range(r) = &*pe.expr {
                            if let (Some(a), Some(b), RangeLimits::HalfOpen(_)) = (&r.start, &r.end, &r.limits) {
                                let (lo, hi) = self.fx.rng(mc.span());
                                let txt = format!("range_collect({}, {})", self.fx.text(a.span()), self.fx.text(b.span()));
                                self.edit(lo, hi, txt, "R16");
                                return;
                            }
                        }
                    }
                }
                // R17: X.and_then(|v| Some(v)) / X.and_then(|v| { return Some(v); })  ->  X   (right identity of Option)
                if name == "and_then" && mc.args.len() == 1 {
                    if let Some(c) = self.closure_of(&mc.args[0]) {
                        if c.inputs.len() == 1 {
                            if let Some((pv, 0)) = self.simple_pat(&c.inputs[0]) {
                                let body = norm_ws(self.fx.text(c.body.span())).replace(' ', "");
                                let ident = format!("Some({})", pv);
                                if body == ident || body == format!("{{returnSome({});}}", pv) || body == format!("{{Some({})}}", pv) || body == format!("{{returnSome({})}}", pv) {
                                    let (_, rhi) = self.fx.rng(mc.receiver.span());
                                    let (_, hi) = self.fx.rng(mc.span());
                                    self.edit(rhi, hi, String::new(), "R17");
                                    self.visit_expr(&mc.receiver);
                                    return;
                                }
                            }
                        }
                    }
                }
                if matches!(name.as_str(), "for_each" | "any" | "find" | "collect" | "map" | "filter" | "zip" | "enumerate" | "chain" | "fold")
                    && !matches!(&*mc.receiver, Expr::Path(_) | Expr::Field(_))
                    && (name != "map")
                {
                    self.errors.push(format!("line {}: iterator idiom without a rule: .{}(..)", self.fx.line_of(self.fx.rng(mc.span()).0), name));
                }
                visit::visit_expr(self, e);
            }
            Expr::Assign(a) if self.fx.ops => {
                // R15 (ops mode): assignment through IndexMut on a Vec, which Verus does not support, spelled with Vec::set
                //   V[i] = e        ->  V.set(i, e)
                //   V[i].f = e      ->  { let mut e__ = V[i].clone(); e__.f = e; V.set(i, e__); }
                let n = self.edits.len();
                match &*a.left {
                    Expr::Index(ix) => {
                        let (lo, _) = self.fx.rng(a.span());
                        let (rlo, rhi) = self.fx.rng(a.right.span());
                        let recv = self.fx.text(ix.expr.span()).to_string();
                        let idx = self.fx.text(ix.index.span()).to_string();
                        self.edit(lo, rlo, format!("{}.set({}, ", recv, idx), "R15");
                        self.edit_close(rhi, ")".to_string(), "R15");
                        self.visit_expr(&a.right);
                        return;
                    }
                    Expr::Field(f) => {
                        if let Expr::Index(ix) = &*f.base {
                            let (lo, _) = self.fx.rng(a.span());
                            let (rlo, rhi) = self.fx.rng(a.right.span());
                            let recv = self.fx.text(ix.expr.span()).to_string();
                            let idx = self.fx.text(ix.index.span()).to_string();
                            let fld = self.fx.text(f.member.span()).to_string();
                            self.edit(lo, rlo, format!("{{ let mut e__{n} = {recv}[{idx}].clone(); e__{n}.{fld} = ", n = n, recv = recv, idx = idx, fld = fld), "R15");
                            self.edit_close(rhi, format!("; {recv}.set({idx}, e__{n}); }}", n = n, recv = recv, idx = idx), "R15");
                            self.visit_expr(&a.right);
                            return;
                        }
                        visit::visit_expr(self, e);
                    }
                    _ => visit::visit_expr(self, e),
                }
            }
            Expr::Call(c) => {
                if let Expr::Path(p) = &*c.func {
                    let ps = path_str(&p.path);
                    if self.fx.ops && ps == "Vec::from" && c.args.len() == 1 {
                        // R9: Vec::from(slice) -> slice.to_vec() (element clone is the identity at the types in use)
                        let (lo, hi) = self.fx.rng(c.span());
                        let arg = self.fx.text(c.args[0].span()).to_string();
                        self.edit(lo, hi, format!("({}).to_vec()", arg), "R9");
                        return;
                    }
                    // R10: thread the ghost CSPRNG tape through callers of the randomness source
                    let last = p.path.segments.last().map(|s| s.ident.to_string()).unwrap_or_default();
                    if self.fx.tape_fns.contains(&last) {
                        let (_, hi) = self.fx.rng(c.paren_token.span.close());
                        let sep = if c.args.is_empty() { "" } else if c.args.trailing_punct() { " " } else { ", " };
                        self.edit(hi - 1, hi - 1, format!("{}Tracked(tape)", sep), "R10");
                    }
                    // <[u8; N]>::try_from(X)
                    if let Some(q) = &p.qself {
                        if ps == "try_from" {
                            if let Type::Array(ta) = &*q.ty {
                                let (lo, hi) = self.fx.rng(c.func.span());
                                let n = self.fx.text(ta.len.span());
                                self.edit(lo, hi, format!("arr_try_from::<{{ {} }}>", n), "R12");
                            }
                        }
                    }
                    if self.fx.ops && ps == "Digest::digest" {
                        if let Some(q) = &p.qself {
                            let (lo, hi) = self.fx.rng(c.func.span());
                            let ty = norm_ws(self.fx.text(q.ty.span()));
                            self.edit(lo, hi, format!("digest_shim::<{}, _>", ty), "R3");
                        }
                    }
                    if self.fx.ops && ps == "String::from" && c.args.len() == 1 && matches!(&c.args[0], Expr::Lit(_)) {
                        // R9: String::from("lit") -> string_from_lit("lit") (shim: the result's view is the literal's view)
                        let (lo, hi) = self.fx.rng(p.span());
                        self.edit(lo, hi, "string_from_lit".to_string(), "R9");
                    }
                    if self.fx.ops && ps == "Integer::from" {
                        let (lo, hi) = self.fx.rng(c.func.span());
                        self.edit(lo, hi, "int_from".to_string(), "R9");
                    }
                    if ps.ends_with("Expander::expand_message") {
                        let cs = p.path.segments.first().unwrap().ident.to_string();
                        let (lo, hi) = self.fx.rng(c.func.span());
                        self.edit(lo, hi, format!("expand_message::<{}>", cs), "R3");
                    }
                    if ps == "G1Projective::hash" {
                        let (lo, hi) = self.fx.rng(c.func.span());
                        let t = norm_ws(self.fx.text(c.func.span()));
                        // G1Projective::hash::<CS::Expander>
                        if let Some(i) = t.find("::<") {
                            let g = t[i + 3..].trim_end_matches('>').trim();
                            let cs = g.split("::").next().unwrap_or("CS");
                            self.edit(lo, hi, format!("g1_hash::<{}>", cs), "R3");
                        }
                    }
                }
                visit::visit_expr(self, e);
            }
            Expr::Closure(c) => {
                // generic closure: only parameter patterns Verus rejects
                for inp in c.inputs.iter() {
                    match inp {
                        Pat::Wild(_) => {
                            let n = self.fresh();
                            let (lo, hi) = self.fx.rng(inp.span());
                            self.edit(lo, hi, format!("_u{}", n), "R4");
                        }
                        Pat::Ident(_) | Pat::Type(_) => {}
                        _ => {
                            self.errors.push(format!("line {}: closure parameter pattern not supported: {}", self.fx.line_of(self.fx.rng(inp.span()).0), self.fx.text(inp.span())));
                        }
                    }
                }
                visit::visit_expr(self, &c.body);
            }
            Expr::Path(p) if self.rename_self && p.path.is_ident("self") => {
                let (lo, hi) = self.fx.rng(p.span());
                self.edit(lo, hi, "self__m".to_string(), "R4");
            }
            Expr::Lit(ExprLit { lit: Lit::ByteStr(bs), .. }) if !bs.value().is_empty() => {
                // R13: Verus knows the length of a byte-string literal but not its contents
                let v = bs.value();
                let (lo, hi) = self.fx.rng(e.span());
                let seq = v.iter().map(|b| format!(".push({}u8)", b)).collect::<Vec<_>>().join("");
                let orig = self.fx.text(e.span()).to_string();
                self.edit(lo, hi, format!("blit({}, Ghost(Seq::<u8>::empty(){}))", orig, seq), "R13");
            }
            Expr::ForLoop(f) => self.rw_for(f),
            Expr::While(w) => {
                let (wlo, _) = self.fx.rng(w.while_token.span());
                let (blo, _bhi) = self.fx.rng(w.body.span());
                let hdr = self.fx.src[wlo..blo].to_string();
                let n = self.loops.len();
                let m = self.new_loop(hdr, self.fx.line_of(wlo));
                self.edit(blo, blo, m, "M");
                let bhi = self.fx.rng(w.body.span()).1;
                self.edit(bhi - 1, bhi - 1, format!("/*@LOOPEND:{}*/", n), "M");
                visit::visit_expr(self, e);
            }
            Expr::Loop(l) => {
                let (llo, _) = self.fx.rng(l.loop_token.span());
                let (blo, _bhi) = self.fx.rng(l.body.span());
                let n = self.loops.len();
                let m = self.new_loop("loop".to_string(), self.fx.line_of(llo));
                self.edit(blo, blo, m, "M");
                let bhi = self.fx.rng(l.body.span()).1;
                self.edit(bhi - 1, bhi - 1, format!("/*@LOOPEND:{}*/", n), "M");
                visit::visit_expr(self, e);
            }
            Expr::Binary(b) if self.fx.ops => {
                self.rw_binop(b);
            }
            Expr::Unary(u) if self.fx.ops => {
                if let UnOp::Neg(_) = u.op {
                    if !matches!(&*u.expr, Expr::Lit(_)) {
                        let (lo, hi) = self.fx.rng(u.span());
                        let (ilo, ihi) = self.fx.rng(u.expr.span());
                        self.edit(lo, ilo, "core::ops::Neg::neg(".to_string(), "R9");
                        if ihi == hi { self.edit_close(hi, ")".to_string(), "R9"); } else { self.edit(ihi, hi, ")".to_string(), "R9"); }
                    }
                }
                visit::visit_expr(self, e);
            }
            _ => visit::visit_expr(self, e),
        }
    }
}

fn expr_attrs(e: &Expr) -> &[Attribute] {
    match e {
        Expr::Assign(x) => &x.attrs,
        Expr::Call(x) => &x.attrs,
        Expr::MethodCall(x) => &x.attrs,
        Expr::If(x) => &x.attrs,
        Expr::Block(x) => &x.attrs,
        Expr::ForLoop(x) => &x.attrs,
        Expr::Macro(x) => &x.attrs,
        Expr::Return(x) => &x.attrs,
        _ => &[],
    }
}

fn is_simple_operand(e: &Expr) -> bool {
    matches!(e, Expr::Lit(_))
}

impl<'a, 'b> Rewriter<'a, 'b> {
    fn is_refish(&self, e: &Expr) -> bool {
        match e {
            Expr::Reference(_) => true,
            Expr::Paren(p) => self.is_refish(&p.expr),
            Expr::Path(p) => p.path.get_ident().map(|i| self.ref_idents.contains(&i.to_string())).unwrap_or(false),
            _ => false,
        }
    }

    /// ops mode (CL03 / rug): comparisons become `icmp_xx(&(L), &(R))` (shim functions over the integer
    /// view); arithmetic with a reference operand becomes the trait-method call rustc desugars it to
    /// (Verus crashes on infix operators with a reference operand). Owned-operand arithmetic stays infix.
    fn rw_binop(&mut self, b: &ExprBinary) {
        let (lo, hi) = self.fx.rng(b.span());
        let (llo, lhi) = self.fx.rng(b.left.span());
        let (rlo, rhi) = self.fx.rng(b.right.span());
        let cmp: Option<&str> = match b.op {
            BinOp::Eq(_) => Some("icmp_eq"),
            BinOp::Ne(_) => Some("icmp_ne"),
            BinOp::Lt(_) => Some("icmp_lt"),
            BinOp::Le(_) => Some("icmp_le"),
            BinOp::Gt(_) => Some("icmp_gt"),
            BinOp::Ge(_) => Some("icmp_ge"),
            _ => None,
        };
        let arith: Option<&str> = match b.op {
            BinOp::Add(_) => Some("core::ops::Add::add"),
            BinOp::Sub(_) => Some("core::ops::Sub::sub"),
            BinOp::Mul(_) => Some("core::ops::Mul::mul"),
            BinOp::Div(_) => Some("core::ops::Div::div"),
            BinOp::Rem(_) => Some("core::ops::Rem::rem"),
            _ => None,
        };
        if let Some(name) = cmp {
            self.edit(lo, llo, format!("{}(&(", name), "R9");
            self.edit(lhi, rlo, "), &(".to_string(), "R9");
            if rhi == hi { self.edit_close(hi, "))".to_string(), "R9"); } else { self.edit(rhi, hi, "))".to_string(), "R9"); }
        } else if let Some(name) = arith {
            // String concatenation `s + &x.to_string()` -> str_cat(s, &x.to_string())
            let is_to_string_ref = |e: &Expr| -> bool {
                if let Expr::Reference(r) = e {
                    if let Expr::MethodCall(m) = &*r.expr {
                        return m.method == "to_string";
                    }
                }
                false
            };
            let name = if matches!(b.op, BinOp::Add(_)) && is_to_string_ref(&b.right) { "str_cat" } else { name };
            if self.is_refish(&b.left) || self.is_refish(&b.right) {
                self.edit(lo, llo, format!("{}((", name), "R9");
                self.edit(lhi, rlo, "), (".to_string(), "R9");
                if rhi == hi { self.edit_close(hi, "))".to_string(), "R9"); } else { self.edit(rhi, hi, "))".to_string(), "R9"); }
            }
        }
        self.visit_expr(&b.left);
        self.visit_expr(&b.right);
    }

    /// macro argument text (not visited as AST): apply the `self` renaming textually
    fn mtext(&self, sp: Span) -> String {
        let t = self.fx.text(sp).to_string();
        if !self.rename_self {
            return t;
        }
        let mut out = String::new();
        let b: Vec<char> = t.chars().collect();
        let mut i = 0;
        while i < b.len() {
            let is_id = |c: char| c.is_alphanumeric() || c == '_';
            if i + 4 <= b.len() && b[i..i + 4].iter().collect::<String>() == "self" && (i == 0 || !is_id(b[i - 1])) && (i + 4 == b.len() || !is_id(b[i + 4])) {
                out.push_str("self__m");
                i += 4;
            } else {
                out.push(b[i]);
                i += 1;
            }
        }
        out
    }

    fn rw_macro(&mut self, mac: &Macro, stmt: bool) {
        let name = path_str(&mac.path);
        let (lo, hi) = self.fx.rng(mac.span());
        let args: Option<Punctuated<Expr, Token![,]>> = mac.parse_body_with(Punctuated::parse_terminated).ok();
        match name.as_str() {
            // CL03 (ops mode): the properties count a refusal by panic as "not verifying" / "not signing", so a
            // panic is an allowed divergence there (vrefuse: no obligation, never returns); BBS: reaching it is an obligation
            "panic" if self.fx.ops => self.edit(lo, hi, "vrefuse()".to_string(), "R5"),
            "panic" | "unimplemented" | "todo" | "unreachable" => self.edit(lo, hi, "vpanic()".to_string(), "R5"),
            "assert" | "debug_assert" => match args.as_ref().and_then(|a| a.first()) {
                Some(c) => {
                    let t = self.mtext(c.span());
                    self.edit(lo, hi, format!("vassert({})", t), "R5")
                }
                None => self.errors.push(format!("line {}: cannot parse assert!", self.fx.line_of(lo))),
            },
            "assert_eq" | "assert_ne" | "debug_assert_eq" => match args.as_ref() {
                Some(a) if a.len() >= 2 => {
                    let op = if name == "assert_ne" { "!=" } else { "==" };
                    let t = format!("vassert({} {} {})", self.mtext(a[0].span()), op, self.mtext(a[1].span()));
                    self.edit(lo, hi, t, "R5")
                }
                _ => self.errors.push(format!("line {}: cannot parse {}!", self.fx.line_of(lo), name)),
            },
            "format" => self.edit(lo, hi, "vformat()".to_string(), "R5"),
            "println" | "eprintln" | "print" | "eprint" | "log::debug" | "log::info" | "debug" | "info" | "warn" | "trace" => {
                self.edit(lo, hi, "()".to_string(), "R5")
            }
            "vec" => {
                // vec![x; n] and vec![] are accepted by Verus as is
                let _ = stmt;
            }
            _ => self.errors.push(format!("line {}: macro without a rule: {}!", self.fx.line_of(lo), name)),
        }
    }
}

// ---------------------------------------------------------------------------------------------
struct Walker<'a, 'b> {
    fx: &'b FileCtx<'a>,
    items: Vec<Value>,
}

fn type_key(t: &Type, fx: &FileCtx) -> String {
    fx.text(t.span()).split_whitespace().collect::<String>()
}

impl<'a, 'b> Walker<'a, 'b> {
    fn vis_edit(&self, rw: &mut Rewriter, vis: &Visibility, insert_at: usize) {
        match vis {
            Visibility::Inherited => rw.edit(insert_at, insert_at, "pub ".to_string(), "R1"),
            Visibility::Public(_) => {}
            Visibility::Restricted(r) => {
                let (lo, hi) = self.fx.rng(r.span());
                rw.edit(lo, hi, "pub".to_string(), "R1");
            }
        }
    }

    fn where_edit(&self, rw: &mut Rewriter, wc: &Option<WhereClause>) {
        if let Some(w) = wc {
            let mut keep: Vec<String> = vec![];
            let mut dropped = false;
            for p in w.predicates.iter() {
                let t = norm_ws(self.fx.text(p.span()));
                if t.contains("for<") || t.contains("Expander") {
                    dropped = true;
                } else {
                    keep.push(t);
                }
            }
            if dropped {
                let (lo, hi) = self.fx.rng(w.span());
                let txt = if keep.is_empty() { String::new() } else { format!("where {},", keep.join(", ")) };
                rw.edit(lo, hi, txt, "R3");
            }
        }
    }

    fn emit_fn(
        &mut self,
        path: String,
        impl_header: Option<String>,
        attrs: &[Attribute],
        vis: Option<&Visibility>,
        sig: &Signature,
        block: &Block,
        whole: Span,
        in_trait_impl: bool,
    ) {
        let mut rw = Rewriter::new(self.fx);
        rw.in_trait_impl = in_trait_impl;
        let (lo, hi) = self.fx.rng(whole);
        rw.strip_attrs(attrs);
        let sig_lo = self.fx.rng(sig.span()).0;
        if let (Some(v), false) = (vis, in_trait_impl) {
            self.vis_edit(&mut rw, v, sig_lo);
        }
        self.where_edit(&mut rw, &sig.generics.where_clause);
        if let ReturnType::Type(_, ty) = &sig.output {
            let (tlo, thi) = self.fx.rng(ty.span());
            rw.edit(tlo, tlo, "/*@RET<*/".to_string(), "M");
            rw.edit(thi, thi, "/*@>RET*/".to_string(), "M");
        } else {
            // no return type: marker after the closing paren of the inputs
            let (_plo, phi) = self.fx.rng(sig.paren_token.span.close());
            rw.edit(phi, phi, "/*@NORET*/".to_string(), "M");
        }
        if self.fx.tape_fns.contains(&sig.ident.to_string()) {
            let (_, phi) = self.fx.rng(sig.paren_token.span.close());
            let sep = if sig.inputs.is_empty() { "" } else if sig.inputs.trailing_punct() { " " } else { ", " };
            rw.edit(phi - 1, phi - 1, format!("{}Tracked(tape): Tracked<&mut RngTape>", sep), "R10");
        }
        let (blo, _bhi) = self.fx.rng(block.span());
        rw.edit(blo, blo, "/*@SIG*/".to_string(), "M");
        // `mut self` (by value) is not in the Verus dialect: fn f(mut self) { B }  ==>  fn f(self) { let mut self__m = self; B[self := self__m] }
        if let Some(rc) = sig.receiver() {
            if rc.reference.is_none() {
                if let Some(m) = &rc.mutability {
                    let (mlo, mhi) = self.fx.rng(m.span());
                    rw.edit(mlo, mhi, String::new(), "R4");
                    rw.edit(blo + 1, blo + 1, " let mut self__m = self;".to_string(), "R4");
                    rw.rename_self = true;
                }
            }
        }
        for a in sig.inputs.iter() {
            if let FnArg::Typed(pt) = a {
                if let (Type::Reference(_), Pat::Ident(pi)) = (&*pt.ty, &*pt.pat) {
                    rw.ref_idents.insert(pi.ident.to_string());
                }
            }
        }
        rw.visit_block(block);
        let params: Vec<String> = sig
            .inputs
            .iter()
            .map(|a| match a {
                FnArg::Receiver(_) => "self".to_string(),
                FnArg::Typed(pt) => norm_ws(self.fx.text(pt.pat.span())),
            })
            .collect();
        let text = rw.apply(lo, hi);
        let mut errors = rw.errors.clone();
        let text = match text {
            Ok(t) => t,
            Err(e) => {
                errors.push(e);
                String::new()
            }
        };
        self.items.push(json!({
            "kind": "fn", "path": path, "name": sig.ident.to_string(), "impl_header": impl_header,
            "file": self.fx.path, "line": self.fx.line_of(lo), "end_line": self.fx.line_of(hi),
            "text": text, "loops": rw.loops, "rewrites": rw.log, "errors": errors, "params": params,
            "has_self": sig.receiver().is_some(), "trait_impl": in_trait_impl,
        }));
    }

    fn emit_plain(&mut self, kind: &str, path: String, impl_header: Option<String>, whole: Span, f: impl FnOnce(&mut Rewriter)) {
        let mut rw = Rewriter::new(self.fx);
        let (lo, hi) = self.fx.rng(whole);
        f(&mut rw);
        let text = rw.apply(lo, hi);
        let mut errors = rw.errors.clone();
        let text = match text {
            Ok(t) => t,
            Err(e) => {
                errors.push(e);
                String::new()
            }
        };
        self.items.push(json!({
            "kind": kind, "path": path, "impl_header": impl_header, "file": self.fx.path,
            "line": self.fx.line_of(lo), "end_line": self.fx.line_of(hi), "text": text, "rewrites": rw.log, "errors": errors,
        }));
    }

    fn drop_node_with_comma(&self, rw: &mut Rewriter, sp: Span) {
        let (lo, mut hi) = self.fx.rng(sp);
        let rest = &self.fx.src[hi..];
        let trimmed = rest.trim_start();
        if trimmed.starts_with(',') {
            hi += rest.len() - trimmed.len() + 1;
        }
        rw.edit(lo, hi, String::new(), "R2");
    }

    fn fields_edit(&self, rw: &mut Rewriter, fields: &Fields) {
        for f in fields.iter() {
            match attrs_cfg(&f.attrs, &self.fx.features) {
                Some(false) => {
                    self.drop_node_with_comma(rw, f.span());
                    continue;
                }
                _ => {}
            }
            rw.strip_attrs(&f.attrs);
            let at = match (&f.ident, &f.vis) {
                (Some(id), _) => self.fx.rng(id.span()).0,
                (None, _) => self.fx.rng(f.ty.span()).0,
            };
            self.vis_edit(rw, &f.vis, at);
        }
    }

    fn walk(&mut self, items: &[Item], modpath: &str) {
        for item in items {
            match item {
                Item::Mod(m) => {
                    if attrs_cfg(&m.attrs, &self.fx.features) == Some(false) {
                        continue;
                    }
                    if let Some((_, content)) = &m.content {
                        let p = format!("{}::{}", modpath, m.ident);
                        self.walk(content, &p);
                    }
                }
                Item::Fn(f) => {
                    if attrs_cfg(&f.attrs, &self.fx.features) == Some(false) {
                        continue;
                    }
                    let p = format!("{}::{}", modpath, f.sig.ident);
                    self.emit_fn(p, None, &f.attrs, Some(&f.vis), &f.sig, &f.block, f.span(), false);
                }
                Item::Impl(i) => {
                    if attrs_cfg(&i.attrs, &self.fx.features) == Some(false) {
                        continue;
                    }
                    let self_key = type_key(&i.self_ty, self.fx);
                    let (ilo, _) = self.fx.rng(i.impl_token.span());
                    let (blo, _) = self.fx.rng(i.brace_token.span.open());
                    let header = norm_ws(&self.fx.src[ilo..blo]);
                    let trait_key = i.trait_.as_ref().map(|(_, p, _)| self.fx.text(p.span()).split_whitespace().collect::<String>());
                    let base = match &trait_key {
                        Some(t) => format!("{}::{}@{}", modpath, self_key, t),
                        None => format!("{}::{}", modpath, self_key),
                    };
                    for ii in i.items.iter() {
                        match ii {
                            ImplItem::Fn(m) => {
                                if attrs_cfg(&m.attrs, &self.fx.features) == Some(false) {
                                    continue;
                                }
                                let p = format!("{}::{}", base, m.sig.ident);
                                self.emit_fn(p, Some(header.clone()), &m.attrs, Some(&m.vis), &m.sig, &m.block, m.span(), trait_key.is_some());
                            }
                            ImplItem::Const(c) => {
                                if attrs_cfg(&c.attrs, &self.fx.features) == Some(false) {
                                    continue;
                                }
                                let p = format!("{}::{}", base, c.ident);
                                let attrs = c.attrs.clone();
                                let is_trait = trait_key.is_some();
                                let vis = c.vis.clone();
                                let at = self.fx.rng(c.const_token.span()).0;
                                let me: &Walker = &*self;
                                let mut rw = Rewriter::new(self.fx);
                                rw.strip_attrs(&attrs);
                                if !is_trait {
                                    me.vis_edit(&mut rw, &vis, at);
                                }
                                let (lo, hi) = self.fx.rng(c.span());
                                let text = rw.apply(lo, hi).unwrap_or_default();
                                self.items.push(json!({"kind": "impl_const", "path": p, "impl_header": header.clone(), "file": self.fx.path,
                                    "line": self.fx.line_of(lo), "end_line": self.fx.line_of(hi), "text": text, "rewrites": [], "errors": []}));
                            }
                            ImplItem::Type(t) => {
                                let p = format!("{}::{}", base, t.ident);
                                let (lo, hi) = self.fx.rng(t.span());
                                let mut rw = Rewriter::new(self.fx);
                                rw.strip_attrs(&t.attrs);
                                let text = rw.apply(lo, hi).unwrap_or_default();
                                self.items.push(json!({"kind": "impl_type", "path": p, "impl_header": header.clone(), "file": self.fx.path,
                                    "line": self.fx.line_of(lo), "end_line": self.fx.line_of(hi), "text": text, "rewrites": [], "errors": []}));
                            }
                            _ => {}
                        }
                    }
                }
                Item::Struct(s) => {
                    if attrs_cfg(&s.attrs, &self.fx.features) == Some(false) {
                        continue;
                    }
                    let p = format!("{}::{}", modpath, s.ident);
                    let at = self.fx.rng(s.struct_token.span()).0;
                    let me: &Walker = &*self;
                    let mut rw = Rewriter::new(self.fx);
                    rw.strip_attrs(&s.attrs);
                    me.vis_edit(&mut rw, &s.vis, at);
                    me.fields_edit(&mut rw, &s.fields);
                    let (lo, hi) = self.fx.rng(s.span());
                    let text = rw.apply(lo, hi);
                    let fields: Vec<String> = s.fields.iter().filter_map(|f| f.ident.as_ref().map(|i| i.to_string())).collect();
                    self.items.push(json!({"kind": "struct", "path": p, "impl_header": Value::Null, "file": self.fx.path,
                        "line": self.fx.line_of(lo), "end_line": self.fx.line_of(hi), "text": text.clone().unwrap_or_default(), "rewrites": rw.log,
                        "errors": text.err().into_iter().collect::<Vec<_>>(), "fields": fields}));
                }
                Item::Enum(e) => {
                    if attrs_cfg(&e.attrs, &self.fx.features) == Some(false) {
                        continue;
                    }
                    let p = format!("{}::{}", modpath, e.ident);
                    let at = self.fx.rng(e.enum_token.span()).0;
                    let me: &Walker = &*self;
                    let mut rw = Rewriter::new(self.fx);
                    rw.strip_attrs(&e.attrs);
                    me.vis_edit(&mut rw, &e.vis, at);
                    let mut variants: Vec<String> = vec![];
                    for v in e.variants.iter() {
                        if attrs_cfg(&v.attrs, &self.fx.features) == Some(false) {
                            me.drop_node_with_comma(&mut rw, v.span());
                            continue;
                        }
                        variants.push(v.ident.to_string());
                        rw.strip_attrs(&v.attrs);
                        for f in v.fields.iter() {
                            rw.strip_attrs(&f.attrs);
                        }
                    }
                    let (lo, hi) = self.fx.rng(e.span());
                    let text = rw.apply(lo, hi);
                    self.items.push(json!({"kind": "enum", "path": p, "impl_header": Value::Null, "file": self.fx.path,
                        "line": self.fx.line_of(lo), "end_line": self.fx.line_of(hi), "text": text.clone().unwrap_or_default(), "rewrites": rw.log,
                        "errors": text.err().into_iter().collect::<Vec<_>>(), "variants": variants}));
                }
                Item::Const(c) => {
                    if attrs_cfg(&c.attrs, &self.fx.features) == Some(false) {
                        continue;
                    }
                    let p = format!("{}::{}", modpath, c.ident);
                    let attrs = c.attrs.clone();
                    self.emit_plain("const", p, None, c.span(), |rw| rw.strip_attrs(&attrs));
                }
                Item::Type(t) => {
                    if attrs_cfg(&t.attrs, &self.fx.features) == Some(false) {
                        continue;
                    }
                    let p = format!("{}::{}", modpath, t.ident);
                    let attrs = t.attrs.clone();
                    self.emit_plain("type", p, None, t.span(), |rw| rw.strip_attrs(&attrs));
                }
                Item::Trait(t) => {
                    if attrs_cfg(&t.attrs, &self.fx.features) == Some(false) {
                        continue;
                    }
                    let p = format!("{}::{}", modpath, t.ident);
                    let mut consts: Vec<Value> = vec![];
                    for ti in t.items.iter() {
                        if let TraitItem::Const(c) = ti {
                            let val = c.default.as_ref().map(|(_, e)| norm_ws(self.fx.text(e.span())));
                            consts.push(json!({"name": c.ident.to_string(), "ty": norm_ws(self.fx.text(c.ty.span())), "default": val}));
                        }
                    }
                    let (lo, hi) = self.fx.rng(t.span());
                    self.items.push(json!({"kind": "trait", "path": p, "impl_header": Value::Null, "file": self.fx.path,
                        "line": self.fx.line_of(lo), "end_line": self.fx.line_of(hi), "text": self.fx.src[lo..hi].to_string(),
                        "rewrites": [], "errors": [], "consts": consts}));
                }
                _ => {}
            }
        }
    }
}

fn main() {
    let args: Vec<String> = std::env::args().collect();
    if args.len() < 2 {
        eprintln!("usage: vx <config.json>");
        std::process::exit(2);
    }
    let cfg: Value = serde_json::from_str(&std::fs::read_to_string(&args[1]).expect("read config")).expect("parse config");
    let deref_lets: HashSet<String> = cfg["deref_lets"].as_array().map(|a| a.iter().filter_map(|v| v.as_str().map(|s| s.to_string())).collect()).unwrap_or_default();
    let tape_fns: HashSet<String> = cfg["tape_fns"].as_array().map(|a| a.iter().filter_map(|v| v.as_str().map(|s| s.to_string())).collect()).unwrap_or_default();
    let decl_types: std::collections::HashMap<String, String> = cfg["decl_types"].as_object().map(|o| o.iter().filter_map(|(k, v)| v.as_str().map(|s| (k.clone(), s.to_string()))).collect()).unwrap_or_default();
    let mut all_items: Vec<Value> = vec![];
    let mut errors: Vec<String> = vec![];
    for f in cfg["files"].as_array().expect("files") {
        let path = f["path"].as_str().unwrap().to_string();
        let modpath = f["modpath"].as_str().unwrap().to_string();
        let features: HashSet<String> = f["features"].as_array().map(|a| a.iter().filter_map(|v| v.as_str().map(|s| s.to_string())).collect()).unwrap_or_default();
        let ops = f["ops"].as_bool().unwrap_or(false);
        let src = match std::fs::read_to_string(&path) {
            Ok(s) => s,
            Err(e) => {
                errors.push(format!("{}: {}", path, e));
                continue;
            }
        };
        let ast = match syn::parse_file(&src) {
            Ok(a) => a,
            Err(e) => {
                errors.push(format!("{}: parse error: {}", path, e));
                continue;
            }
        };
        let mut line_starts = vec![0usize];
        for (i, b) in src.bytes().enumerate() {
            if b == b'\n' {
                line_starts.push(i + 1);
            }
        }
        let fx = FileCtx { src: &src, path: path.clone(), features, ops, deref_lets: deref_lets.clone(), tape_fns: tape_fns.clone(), decl_types: decl_types.clone(), line_starts };
        let mut w = Walker { fx: &fx, items: vec![] };
        w.walk(&ast.items, &modpath);
        all_items.extend(w.items);
    }
    println!("{}", serde_json::to_string(&json!({"items": all_items, "errors": errors})).unwrap());
}
