#!/usr/bin/env python3
"""Assembler: extracted /repo items + contracts + shims + specs + lemmas -> one Verus file.

Nothing from /repo is hand-copied: function and type text comes from the extractor (vx) run on the
current working tree; this module only splices contract text at the extractor's markers and keeps
a line map (assembled line -> label / function / repo file:line).
"""
import json, os, re, subprocess, sys, hashlib

try:
    import tomllib
except ImportError:  # pragma: no cover
    tomllib = None

VERIF = os.path.dirname(os.path.dirname(os.path.abspath(__file__)))
REPO = os.environ.get("VERIF_REPO", "/repo")
VX = os.path.join(VERIF, "engine", "extract", "target", "release", "vx")
BUILD = os.path.join(VERIF, "build")

BBS_FILES = [
    ("src/utils/util.rs", "utils::util"),
    ("src/utils/message.rs", "utils::message"),
    ("src/bbsplus/keys.rs", "bbsplus::keys"),
    ("src/bbsplus/signature.rs", "bbsplus::signature"),
    ("src/bbsplus/proof.rs", "bbsplus::proof"),
    ("src/bbsplus/generators.rs", "bbsplus::generators"),
    ("src/bbsplus/commitment.rs", "bbsplus::commitment"),
    ("src/bbsplus/blind.rs", "bbsplus::blind"),
    ("src/bbsplus/ciphersuites.rs", "bbsplus::ciphersuites"),
    ("src/schemes/generics.rs", "schemes::generics"),
    ("src/schemes/algorithms.rs", "schemes::algorithms"),
    ("src/keys/pair.rs", "keys::pair"),
    ("src/errors.rs", "errors"),
]
CL_FILES = [
    ("src/keys/pair.rs", "keys::pair"),
    ("src/utils/util.rs", "utils::util"),
    ("src/utils/random.rs", "utils::random"),
    ("src/utils/message.rs", "utils::message"),
    ("src/cl03/bases.rs", "cl03::bases"),
    ("src/cl03/blind.rs", "cl03::blind"),
    ("src/cl03/ciphersuites.rs", "cl03::ciphersuites"),
    ("src/cl03/commitment.rs", "cl03::commitment"),
    ("src/cl03/keys.rs", "cl03::keys"),
    ("src/cl03/proof.rs", "cl03::proof"),
    ("src/cl03/range_proof.rs", "cl03::range_proof"),
    ("src/cl03/sigma_protocols.rs", "cl03::sigma_protocols"),
    ("src/cl03/signature.rs", "cl03::signature"),
    ("src/schemes/generics.rs", "schemes::generics"),
    ("src/errors.rs", "errors"),
]


# R10: functions in the transitive caller set of the CSPRNG (ghost tape threaded through them)
TAPE_FNS = ["get_random", "calculate_random_scalars", "generate_random_secret", "random", "core_proof_gen", "proof_gen",
            "blind_proof_gen", "core_commit", "commit"]


BBS_TYPES = [
    "errors::Error",
    "bbsplus::keys::BBSplusPublicKey",
    "bbsplus::keys::BBSplusSecretKey",
    "bbsplus::signature::BBSplusSignature",
    "bbsplus::proof::BBSplusPoKSignature",
    "bbsplus::proof::BBSplusZKPoK",
    "bbsplus::proof::ProofInitResult",
    "bbsplus::commitment::BBSplusCommitment",
    "bbsplus::commitment::BlindFactor",
    "utils::message::bbsplus_message::BBSplusMessage",
    "bbsplus::generators::Generators",
    "keys::pair::KeyPair",
    "schemes::generics::Signature",
    "schemes::generics::PoKSignature",
    "schemes::generics::Commitment",
    "schemes::generics::BlindSignature",
]


class Undecided(Exception):
    """A tool / anchor / dialect problem: never an alarm (exit 2)."""

    def __init__(self, reason, detail="", fn=None):
        super().__init__(f"{reason}: {detail}")
        self.reason = reason
        self.detail = detail
        self.fn = fn  # the /repo function the problem is in (when known)


def load_unit(name):
    p = os.path.join(VERIF, "units", name + ".toml")
    with open(p, "rb") as f:
        u = tomllib.load(f)
    if "base" in u:
        # `base = "<unit>"`: same lists as that unit, overridden key by key (used by the honest-run twins of the verifier units)
        b = load_unit(u["base"])
        b.update(u)
        u = b
    u["name"] = name
    return u


_EXTRACT_CACHE = {}
_EXTRACT_LOCK = __import__("threading").Lock()


def run_extractor(family, deref_lets=("H_i",)):
    """One extraction per process and family (units of one check share it); always from the current tree."""
    key = (family, tuple(deref_lets))
    with _EXTRACT_LOCK:
        if key not in _EXTRACT_CACHE:
            _EXTRACT_CACHE[key] = _run_extractor(family, deref_lets)
        return _EXTRACT_CACHE[key]


def _run_extractor(family, deref_lets=("H_i",)):
    files = BBS_FILES if family == "bbs" else CL_FILES
    feats = ["bbsplus", "bbsplus_blind"] if family == "bbs" else ["cl03"]
    cfg = {
        "files": [
            {"path": os.path.join(REPO, rel), "modpath": mp, "features": feats, "ops": family == "cl"}
            for rel, mp in files
        ],
        "deref_lets": list(deref_lets),
        "tape_fns": TAPE_FNS if family == "bbs" else [],
        "decl_types": {"pprime": "Integer", "p": "Integer", "qprime": "Integer", "q": "Integer"} if family == "cl" else {},
    }
    os.makedirs(BUILD, exist_ok=True)
    cfgp = os.path.join(BUILD, f"vx_{family}_{os.getpid()}_{__import__('uuid').uuid4().hex}.json")
    with open(cfgp, "w") as f:
        json.dump(cfg, f)
    if not os.path.exists(VX):
        raise Undecided("tool-error", f"extractor not built: {VX} (run MANIFEST.setup_cmd)")
    try:
        out = subprocess.run([VX, cfgp], capture_output=True, text=True, timeout=120)
    finally:
        try:
            os.remove(cfgp)
        except OSError:
            pass
    if out.returncode != 0:
        raise Undecided("tool-error", "extractor failed: " + out.stderr[-2000:])
    d = json.loads(out.stdout)
    if d["errors"]:
        raise Undecided("lost-anchor", "; ".join(d["errors"]))
    items = {}
    for it in d["items"]:
        if it["path"] in items:
            # same path twice (e.g. cfg twins): keep both under an ordinal
            k = 2
            while f"{it['path']}#{k}" in items:
                k += 1
            items[f"{it['path']}#{k}"] = it
        else:
            items[it["path"]] = it
    return items


# ------------------------------------------------------------------------------------------------
# contract files
class Contract:
    def __init__(self, path):
        self.path = path
        self.ret = "r"
        self.spec = []  # list[(text, label)]
        self.loops = []  # list[(fp, ordinal, lines)]
        self.loopends = []  # list[(fp, ordinal, lines)]
        self.proofs = []  # list[(where, anchor, lines)]
        self.src = None
        self.norefuse_honest = None
        self.norefuse = None  # label: refusals (panic!/unwrap/expect, index, overflow, callee preconditions) are obligations in this function


LABEL_RE = re.compile(r"//#\s*([A-Za-z0-9_.\-]+)\s*$")


def split_label(line):
    m = LABEL_RE.search(line)
    if m:
        return line[: m.start()].rstrip(), m.group(1)
    return line, None


def parse_vc(path):
    res = {}
    cur = None
    mode = None
    buf = None
    with open(path) as f:
        for ln, raw in enumerate(f, 1):
            line = raw.rstrip("\n")
            s = line.strip()
            if s.startswith("@fn "):
                cur = Contract(s[4:].strip())
                cur.src = f"{os.path.relpath(path, VERIF)}:{ln}"
                if cur.path in res:
                    raise Undecided("tool-error", f"duplicate contract for {cur.path} in {path}")
                res[cur.path] = cur
                mode = None
            elif s.startswith("@ret "):
                cur.ret = s[5:].strip()
            elif s.startswith("@norefuse "):
                cur.norefuse = s[10:].strip()
            elif s.startswith("@norefuse_honest "):
                # refusals are obligations only in units marked `honest = true` (where honest_run() is true and the function's
                # `honest_run() ==> ..` preconditions describe an honest counterpart's input)
                cur.norefuse_honest = s[17:].strip()
            elif s == "@spec":
                mode = "spec"
                buf = cur.spec
            elif s.startswith("@loop "):
                rest = s[6:].strip()
                m = re.match(r"^(.*?)(?:\s+#(\d+))?$", rest)
                fp, k = m.group(1).strip(), int(m.group(2) or 0)
                buf = []
                cur.loops.append((" ".join(fp.split()), k, buf))
                mode = "loop"
            elif s.startswith("@loopend "):
                rest = s[9:].strip()
                m = re.match(r"^(.*?)(?:\s+#(\d+))?$", rest)
                fp, k = m.group(1).strip(), int(m.group(2) or 0)
                buf = []
                cur.loopends.append((" ".join(fp.split()), k, buf))
                mode = "loopend"
            elif s.startswith("@proof "):
                m = re.match(r"^@proof\s+(before|after)\s+(.*)$", s)
                if s == "@proof start":
                    buf = []
                    cur.proofs.append(("start", "", buf))
                    mode = "proof"
                    continue
                if not m:
                    raise Undecided("tool-error", f"{path}:{ln}: bad @proof")
                buf = []
                cur.proofs.append((m.group(1), m.group(2).strip(), buf))
                mode = "proof"
            elif s == "@end":
                cur = None
                mode = None
            elif s.startswith("@@") or (cur is None and (s == "" or s.startswith("//"))):
                continue
            elif cur is not None and mode is not None:
                t, lab = split_label(line)
                buf.append((t, lab))
                if lab:
                    # a label at the end of a multi-line clause covers the clause's earlier lines
                    j = len(buf) - 2
                    while j >= 0:
                        pt, pl = buf[j]
                        ps = pt.strip()
                        tail = " ".join(x[0] for x in buf[j + 1:])
                        unbalanced = tail.count(")") > tail.count("(")
                        if pl or ps in ("requires", "ensures", "invariant", "decreases") or ps == "" or ((ps.endswith(",") or ps.endswith("{") or ps.endswith(";")) and not unbalanced):
                            break
                        buf[j] = (pt, lab)
                        j -= 1
            elif s == "":
                continue
            else:
                raise Undecided("tool-error", f"{path}:{ln}: text outside a section: {s[:60]}")
    return res


# ------------------------------------------------------------------------------------------------
class Out:
    def __init__(self):
        self.lines = []
        self.meta = []
        self.waived = []
        self.norefuse = {}  # fn path -> label
        self.renames = {}  # fn path -> {contract local name: current name in /repo}
        self.body_broadcast = []
        self.honest = False

    def add(self, text, **meta):
        for l in text.split("\n"):
            self.lines.append(l)
            self.meta.append(dict(meta))

    def add_labelled(self, pairs, **meta):
        for text, label in pairs:
            m = dict(meta)
            if label:
                m["label"] = label
            self.lines.append(text)
            self.meta.append(m)

    def add_file(self, path, kind, twin=None):
        """shim/spec/lemma file: `//# LABEL` tags a line; untagged lines inherit the last `//#region`.
        twin: list to extend - every `proof fn` with a requires clause gets `assert(false)` at body entry
        (must be refuted: the hypotheses are not contradictory)."""
        region = None
        cur_fn = None
        has_req = False
        rel = os.path.relpath(path, VERIF)
        with open(path) as f:
            for ln, raw in enumerate(f, 1):
                line = raw.rstrip("\n")
                m = re.search(r"//#region\s+([A-Za-z0-9_.\-]+)\s*$", line)
                if m:
                    region = m.group(1)
                    line = line[: m.start()].rstrip()
                    text, label = line, region
                else:
                    text, label = split_label(line)
                    if re.match(r"^\s*(pub\s+)?(broadcast\s+)?(proof|spec|open spec|closed spec|uninterp spec|fn)\b", text) and label is None and not text.startswith(" "):
                        pass
                meta = {"kind": kind, "src": f"{rel}:{ln}"}
                if label or region:
                    meta["label"] = label or region
                if label is None and region:
                    meta["region_only"] = True
                self.lines.append(text)
                self.meta.append(meta)
                if twin is not None:
                    mfn = re.match(r"^pub (?:broadcast )?proof fn (\w+)", text)
                    if mfn:
                        cur_fn, has_req = mfn.group(1), False
                    elif cur_fn and re.match(r"^\s+requires\b", text):
                        has_req = True
                    elif cur_fn and text.rstrip() == "{":
                        if has_req:
                            lab = f"VACUITY.lemma.{cur_fn}"
                            self.lines.append("    assert(false);")
                            self.meta.append({"kind": kind, "src": f"{rel}:{ln}", "label": lab})
                            twin.append(lab)
                        cur_fn = None
                    elif cur_fn and text.startswith("{"):
                        cur_fn = None

    def text(self):
        return "\n".join(self.lines) + "\n"


def load_waived():
    """(fn, label) pairs of recorded-not-repaired findings: exactly that clause at that function is
    waived (dropped from the assembled file so that it cannot eat the solver budget or mask others)."""
    p = os.path.join(VERIF, "known_findings.json")
    try:
        with open(p) as f:
            k = json.load(f)
    except Exception:
        return set()
    return {(x.get("fn"), x.get("label")) for x in k.get("findings", []) if x.get("fn") and x.get("label") and not x.get("site_text")}


def _squash(t):
    """whitespace-free text with rustfmt's optional trailing commas removed"""
    t = re.sub(r"\s+", "", t)
    return re.sub(r",(?=[)\]}])", "", t)


def _anchor_across_lines(src_lines, anchor, exact=False):
    """Find `anchor` in the function text ignoring layout.  -> (first line, last line of the enclosing statement) or None
    when it does not occur exactly once.  For `after` insertions the statement is followed to its terminating `;`."""
    a = _squash(anchor)
    if not a:
        return None
    pieces, owner = [], []
    for i, l in enumerate(src_lines):
        code = re.sub(r"/\*@.*?\*/", "", l.split("//")[0]) if not l.strip().startswith("//") else ""
        sq = re.sub(r"\s+", "", code)
        pieces.append(sq)
        owner.extend([i] * len(sq))
    joined = "".join(pieces)
    # trailing-comma normalisation on the joined text, keeping the owner map aligned
    keep = [k for k, ch in enumerate(joined) if not (ch == "," and k + 1 < len(joined) and joined[k + 1] in ")]}")]
    norm = "".join(joined[k] for k in keep)
    own = [owner[k] for k in keep]
    pos = [m.start() for m in re.finditer(re.escape(a), norm)]
    if len(pos) != 1:
        return None
    first = own[pos[0]]
    last = own[pos[0] + len(a) - 1]
    if exact:
        # the anchor must start a line group
        if pos[0] > 0 and own[pos[0] - 1] == first:
            return None
    if not a.endswith(";") and not a.endswith("{"):
        k = pos[0] + len(a)
        depth = 0
        while k < len(norm):
            ch = norm[k]
            if ch in "([{":
                depth += 1
            elif ch in ")]}":
                if depth == 0:
                    break
                depth -= 1
            elif ch == ";" and depth == 0:
                last = own[k]
                break
            k += 1
    return first, last


def _squash_lines(src_lines):
    """layout-free text of a function (whitespace, comments, extractor markers and optional trailing commas removed) with the
    owning line of every character"""
    pieces, owner = [], []
    for i, l in enumerate(src_lines):
        code = re.sub(r"/\*@.*?\*/", "", l.split("//")[0]) if not l.strip().startswith("//") else ""
        # keep ONE separator between tokens so that identifiers do not fuse: squash runs of whitespace to a single space first
        sq = re.sub(r"\s+", " ", code).strip()
        if sq:
            sq += " "
        pieces.append(sq)
        owner.extend([i] * len(sq))
    return "".join(pieces), owner


REFS_FILE = os.path.join(VERIF, "contracts", "refs.json")
_REFS = None


def _bindings(src_lines):
    """`let [mut] NAME [: T] = RHS;` statements of a function, layout-insensitively: [(name, normalised RHS)] in source order"""
    joined, _ = _squash_lines(src_lines)
    out = []
    for m in re.finditer(r"\blet\s+(?:mut\s+)?(\w+)\s*(?::[^=;]+?)?=\s*([^;]*);", joined):
        rhs = re.sub(r"\s+", "", m.group(2))
        rhs = re.sub(r",(?=[)\]}])", "", rhs)
        out.append((m.group(1), rhs))
    # declarations without initialiser (`let mut q;` / `let q: T;`), identified by their ordinal
    for k, m in enumerate(re.finditer(r"\blet\s+(?:mut\s+)?(\w+)\s*(?::[^=;]+?)?;", joined)):
        out.append((m.group(1), f"<declared-later#{k}>"))
    return out


def load_refs():
    """bindings of every contract function as they were when the contracts were written (tools/snapshot_refs.py): the reference
    against which renamed locals are recognised"""
    global _REFS
    if _REFS is None:
        try:
            with open(REFS_FILE) as f:
                _REFS = json.load(f)
        except Exception:
            _REFS = {}
    return _REFS


def _renames_from_refs(src_lines, path, contract_text, known):
    ref = load_refs().get(path)
    if not ref:
        return {}
    cur = _bindings(src_lines)
    cur_names = {n for n, _ in cur}
    ref_names = {n for n, _ in ref}
    ren = dict(known)
    changed = True
    while changed:
        changed = False
        for name, rhs in ref:
            if name in ren or name in cur_names:
                continue
            want = rhs
            for old, new in ren.items():
                want = re.sub(r"(?<![\w$.])" + re.escape(old) + r"\b", new, want)
            cands = [n for n, r in cur if r == want and n not in ref_names and n not in ren.values()]
            if len(set(cands)) == 1:
                ren[name] = cands[0]
                changed = True
            elif not cands and re.fullmatch(r"[A-Za-z_][\w:]*", want):
                # the binding of a constant / path was inlined (`let identity_GT = Gt::IDENTITY;` gone): the hints use the path itself
                ren[name] = want
                changed = True
    return {k: v for k, v in ren.items() if k not in known}


def _alpha_renames(src_lines, item, contract):
    """Locals renamed in /repo since the contract was written (a behaviour-preserving edit): find them from the anchors and loop
    headers that no longer match and return {old: new}.  Only `let [mut] NAME` / `for NAME in` positions are considered and a
    rename is accepted only when the rest of the anchor matches exactly one place (layout-insensitively)."""
    joined, _ = _squash_lines(src_lines)
    ren = {}
    ctext = "\n".join([a for _, a, _ in contract.proofs] + [t for _, _, ls in contract.proofs for t, _ in ls]
                      + [t for _, _, ls in contract.loops for t, _ in ls] + [t for _, _, ls in contract.loopends for t, _ in ls])

    def flex(text):
        # regex for `text` modulo layout
        toks = re.findall(r"\w+|[^\w\s]", text)
        return r"\s*".join(re.escape(t) for t in toks)

    for where, anchor, _lines in contract.proofs:
        if where == "start":
            continue
        a = anchor.lstrip("=").strip()
        if any(a in l for l in src_lines) or _anchor_across_lines(src_lines, a) is not None:
            continue
        m = re.match(r"^(let\s+(?:mut\s+)?)(\w+)(.*)$", a, re.S)
        if not m:
            continue
        head, name, rest = m.groups()
        if re.search(r"\blet\s+(?:mut\s+)?" + re.escape(name) + r"\b", joined):
            # the local is still bound under its own name (its right-hand side changed): NOT a rename.  (Seeded change C19-5
            # rewrote the right-hand side of `mu_1`; the statement of `mu_2` has the old text, and renaming the hints to mu_2
            # made the C19 assertions about mu_1 speak about mu_2.)
            continue
        # 1. same statement, other name
        pat = r"let\s+(?:mut\s+)?(\w+)\s*" + flex(rest)
        hits = [h for h in re.finditer(pat, joined)]
        # never rename to a local the contract already speaks about under its own name
        hits = [h for h in hits if not re.search(r"(?<![\w$.])" + re.escape(h.group(1)) + r"\b", ctext)]
        if len(hits) == 1 and hits[0].group(1) != name:
            ren[name] = hits[0].group(1)
            continue
        # 2. same left-hand side (name and type annotation), other right-hand side: nothing to rename, handled by the caller
    lps = item.get("loops", [])
    by_fp = {}
    for lp in lps:
        by_fp.setdefault(lp["fp"], []).append(lp["id"])
    for fp, k, _lines in contract.loops + contract.loopends:
        if fp in by_fp:
            continue
        m = re.match(r"^for\s+(\w+)\s+in\s+(.*)$", fp)
        if not m:
            continue
        name, expr = m.groups()
        cands = [lp for lp in lps if re.match(r"^for\s+\w+\s+in\s+" + re.escape(expr) + r"$", lp["fp"])]
        if len(cands) > k:
            m2 = re.match(r"^for\s+(\w+)\s+in\s+", cands[k]["fp"])
            if m2 and m2.group(1) != name:
                ren[name] = m2.group(1)
    ren.update(_renames_from_refs(src_lines, item["path"], ctext, ren))
    return ren


def _apply_renames(contract, ren):
    import copy
    if not ren:
        return contract
    c = copy.copy(contract)

    def sub(t):
        for old, new in ren.items():
            # (`proof { .. }` is Verus syntax, not the local called `proof`)
            tail = r"(?!\s*\{)" if old == "proof" else ""
            t = re.sub(r"(?<![\w$.])" + re.escape(old) + r"\b" + tail, new, t)
        return t

    c.proofs = [(w, ("=" + sub(a[1:]) if a.startswith("=") else sub(a)), [(sub(t), lab) for (t, lab) in ls]) for (w, a, ls) in contract.proofs]
    c.loops = [(" ".join(sub(fp).split()), k, [(sub(t), lab) for (t, lab) in ls]) for (fp, k, ls) in contract.loops]
    c.loopends = [(" ".join(sub(fp).split()), k, [(sub(t), lab) for (t, lab) in ls]) for (fp, k, ls) in contract.loopends]
    return c


def sub_markers(item, contract, out, assume=False, twin=None):
    """Emit one function (or its signature only when assumed) with contract text spliced in."""
    if contract is not None:
        waived = {l for (f, l) in load_waived() if f == item["path"]}
        all_labs = {lab for _, lab in contract.spec} | {lab for _, _, ls in contract.proofs for _, lab in ls} \
            | {lab for _, _, ls in contract.loops for _, lab in ls} | {lab for _, _, ls in contract.loopends for _, lab in ls}
        if waived & all_labs:
            import copy
            contract = copy.copy(contract)
            keep = lambda ls: [(t, lab) for (t, lab) in ls if lab not in waived]
            contract.spec = keep(contract.spec)
            contract.proofs = [(w, a, keep(ls)) for (w, a, ls) in contract.proofs]
            contract.loops = [(fp, k, keep(ls)) for (fp, k, ls) in contract.loops]
            contract.loopends = [(fp, k, keep(ls)) for (fp, k, ls) in contract.loopends]
            out.waived.extend((item["path"], l) for l in sorted(waived & all_labs))
    text = item["text"]
    path = item["path"]
    rel = os.path.relpath(item["file"], REPO)
    # return type
    if contract is not None:
        text = text.replace("/*@RET<*/", f"({contract.ret}: ").replace("/*@>RET*/", ")")
    else:
        text = text.replace("/*@RET<*/", "").replace("/*@>RET*/", "")
    text = text.replace("/*@NORET*/", "")
    nr_label = None
    if contract is not None:
        nr_label = contract.norefuse or (contract.norefuse_honest if out.honest else None)
    if nr_label and not assume:
        # honest-path functions: a refusal is a failure of the property's positive half, so the allowed divergences of rule R5
        # (ops mode) become obligations again: vrefuse() requires false, unwrap / expect require Some / Ok
        text = text.replace("vrefuse()", "vrefuse_strict()").replace(".unwrap_refuse()", ".unwrap_strict()").replace(".expect_refuse(", ".expect_strict(")
        out.norefuse[path] = nr_label
    # proof anchors (on source lines)
    src_lines = text.split("\n")
    if contract is not None and not assume:
        # locals renamed in /repo (harmless edit): alpha-rename the contract's hints instead of losing the anchors
        ren = _alpha_renames(src_lines, item, contract)
        if ren:
            contract = _apply_renames(contract, ren)
            out.renames.setdefault(path, {}).update(ren)
    inserts_before = {}
    inserts_after = {}
    start_lines = []
    def _loopvar(m):
        nm, k = m.group(1), m.group(2)
        lps = item.get("loops", [])
        if k is not None:
            return f"{nm}__{int(k)}"
        if len(lps) != 1:
            raise Undecided("tool-error", f"{path}: ${nm} in a @proof block is ambiguous ({len(lps)} loops); write ${nm}#<loop id>")
        return f"{nm}__{lps[0]['id']}"
    bb = list(out.body_broadcast) + list(getattr(out, "body_broadcast_fn", {}).get(path, []))
    if contract is not None and not assume and bb:
        # axioms broadcast inside the bodies of the verified functions only (not in the spec / lemma files, whose proofs are
        # written against explicit instances): commutativity, so that `a * b` rewritten as `b * a` in /repo still verifies
        start_lines.append(("    broadcast use {" + ", ".join(bb) + "};", None))
    if contract is not None and not assume:
        for where, anchor, lines in contract.proofs:
            lines = [(re.sub(r"\$([A-Za-z_]+)(?:#(\d+))?", _loopvar, t), lab) for (t, lab) in lines]
            if where == "start":
                start_lines.extend(lines)
                continue
            if anchor.startswith("="):
                hits = [i for i, l in enumerate(src_lines) if l.strip() == anchor[1:].strip()]
            else:
                hits = [i for i, l in enumerate(src_lines) if anchor in l]
            if len(hits) == 0:
                # layout-insensitive second try (a reformatted statement: rustfmt splits / joins lines, adds trailing commas)
                hit = _anchor_across_lines(src_lines, anchor.lstrip("="), exact=anchor.startswith("="))
                if hit is None:
                    # the anchored `let` still binds the same name but its right-hand side was rewritten (Vec::new() -> vec![] ...):
                    # the binding itself is the anchor when the function has exactly one binding of that name
                    mlet = re.match(r"^=?\s*(let\s+(?:mut\s+)?\w+)\b", anchor)
                    if mlet:
                        hit = _anchor_across_lines(src_lines, mlet.group(1) + ":", exact=False) or _anchor_across_lines(src_lines, mlet.group(1) + "=", exact=False)
                if hit is None:
                    # `let x = CALL(` whose binding was inlined into a tail / return expression: the call itself is the anchor
                    minl = re.match(r"^=?\s*let\s+(?:mut\s+)?\w+\s*(?::[^=]+)?=\s*(.+)$", anchor)
                    if minl and len(minl.group(1)) >= 12:
                        hit = _anchor_across_lines(src_lines, minl.group(1), exact=False)
                if hit is None:
                    # `if a OP b {` written the other way round
                    mif = re.match(r"^=?\s*if\s+(.+?)\s*(==|!=|<=|>=|<|>)\s*(.+?)\s*\{\s*$", anchor)
                    if mif:
                        flip = {"==": "==", "!=": "!=", "<": ">", ">": "<", "<=": ">=", ">=": "<="}[mif.group(2)]
                        hit = _anchor_across_lines(src_lines, f"if {mif.group(3)} {flip} {mif.group(1)} {{", exact=False)
                if hit is None and where == "before":
                    # `if c {A} else {B}` rewritten as `if !c {B} else {A}`: a hint placed *before* the test is indifferent to
                    # which branch comes first, so the negated test is the same anchor (never used for `after` hints)
                    mneg = re.match(r"^=?\s*if\s+(.+?)\s*\{\s*$", anchor)
                    if mneg:
                        c = mneg.group(1)
                        cands = [f"if !{c} {{", f"if !({c}) {{"]
                        if c.startswith("!"):
                            cands.append(f"if {c[1:].strip('()')} {{")
                        mcmp = re.match(r"^(.+?)\s*(==|!=|<=|>=|<|>)\s*(.+)$", c)
                        if mcmp:
                            a, op, b = mcmp.groups()
                            neg = {"==": "!=", "!=": "==", "<": ">=", ">=": "<", ">": "<=", "<=": ">"}[op]
                            negflip = {"==": "!=", "!=": "==", "<": "<=", ">=": ">", ">": ">=", "<=": "<"}[op]
                            cands += [f"if {a} {neg} {b} {{", f"if {b} {negflip} {a} {{"]
                        if c.endswith(".into()"):
                            c0 = c[:-len(".into()")]
                            cands += [f"if !bool::from({c0}) {{", f"if bool::from({c0}) {{", f"if !<bool>::from({c0}) {{"]
                        for cand in cands:
                            hit = _anchor_across_lines(src_lines, cand, exact=False)
                            if hit is not None:
                                break
                if hit is not None:
                    first, last = hit
                    hits = [first if where == "before" else last]
            if len(hits) != 1:
                raise Undecided("lost-anchor", f"{path}: proof anchor {anchor!r} matches {len(hits)} lines", fn=path)
            (inserts_before if where == "before" else inserts_after).setdefault(hits[0], []).extend(lines)
    # loops
    loop_spec = {}
    used = set()
    if contract is not None and not assume:
        by_fp = {}
        for lp in item.get("loops", []):
            by_fp.setdefault(lp["fp"], []).append(lp["id"])
        for ci, (fp, k, lines) in enumerate(contract.loops):
            ids = by_fp.get(fp, [])
            if k >= len(ids) and fp.startswith("while "):
                # the condition was rewritten in an equivalent form: a function's only `while` loop is still that loop
                wl = [lp["id"] for lp in item.get("loops", []) if lp["fp"].startswith("while ")]
                if len(wl) == 1 and sum(1 for (f2, _k2, _l2) in contract.loops if f2.startswith("while ")) == 1:
                    ids = wl
                    k = 0
            if k >= len(ids):
                raise Undecided("lost-anchor", f"{path}: loop header {fp!r} #{k} not found (have: {sorted(by_fp)})", fn=path)
            lid = ids[k]
            loop_spec[lid] = [(re.sub(r"\$([A-Za-z_]+)", lambda m: f"{m.group(1)}__{lid}", t), lab) for (t, lab) in lines]
            used.add(lid)
    loopend_spec = {}
    if contract is not None and not assume:
        by_fp = {}
        for lp in item.get("loops", []):
            by_fp.setdefault(lp["fp"], []).append(lp["id"])
        for fp, k, lines in contract.loopends:
            ids = by_fp.get(fp, [])
            if k >= len(ids):
                raise Undecided("lost-anchor", f"{path}: loop header {fp!r} #{k} not found (have: {sorted(by_fp)})", fn=path)
            lid = ids[k]
            loopend_spec[lid] = [(re.sub(r"\$([A-Za-z_]+)", lambda m: f"{m.group(1)}__{lid}", t), lab) for (t, lab) in lines]
    base_meta = {"kind": "code", "fn": path, "file": rel}
    first = True
    pending_twin = None
    pending_start = False
    pending_bb = False
    for i, l in enumerate(src_lines):
        repo_line = item["line"] + i
        if i in inserts_before:
            out.add_labelled(inserts_before[i], kind="contract", fn=path, file=rel, line=repo_line)
        # split the line at markers
        parts = re.split(r"(/\*@SIG\*/|/\*@LOOP:\d+\*/|/\*@LOOPEND:\d+\*/)", l)
        cur = ""
        for p in parts:
            if p == "/*@SIG*/":
                if cur.strip():
                    out.add(cur, **base_meta, line=repo_line)
                cur = ""
                if contract is not None and contract.spec:
                    out.add_labelled(contract.spec, kind="contract", fn=path, file=rel, line=repo_line)
                if assume:
                    out.add("{ unimplemented!() }", kind="assumed-body", fn=path, file=rel, line=repo_line)
                    return
                if twin is not None:
                    pending_twin = f"VACUITY.{path}"
                if start_lines:
                    pending_start = True
            elif p.startswith("/*@LOOPEND:"):
                lid = int(p[11:-2])
                if lid in loopend_spec:
                    if cur.strip():
                        out.add(cur, **base_meta, line=repo_line)
                    cur = ""
                    out.add_labelled(loopend_spec[lid], kind="contract", fn=path, file=rel, line=repo_line)
            elif p.startswith("/*@LOOP:"):
                lid = int(p[8:-2])
                if cur.strip():
                    out.add(cur, **base_meta, line=repo_line)
                cur = ""
                if lid in loop_spec:
                    out.add_labelled(loop_spec[lid], kind="contract", fn=path, file=rel, line=repo_line)
                if twin is not None:
                    pending_twin = f"VACUITY.{path}#loop{lid}"
                if bb and contract is not None and not assume:
                    pending_bb = True
            else:
                if pending_bb and pending_twin is None and p.lstrip().startswith("{"):
                    # loop bodies are verified in isolation: the body-level broadcast is repeated inside each loop body
                    i0 = p.index("{")
                    out.add(p[: i0 + 1] + " broadcast use {" + ", ".join(bb) + "};", **base_meta, line=repo_line)
                    pending_bb = False
                    p = p[i0 + 1 :]
                if pending_start and pending_twin is None and p.lstrip().startswith("{"):
                    i0 = p.index("{")
                    out.add(p[: i0 + 1], **base_meta, line=repo_line)
                    out.add_labelled(start_lines, kind="contract", fn=path, file=rel, line=repo_line)
                    pending_start = False
                    p = p[i0 + 1 :]
                if pending_twin is not None and p.lstrip().startswith("{"):
                    i0 = p.index("{")
                    out.add(p[: i0 + 1] + " proof { assert(false); }", kind="contract", fn=path, file=rel, line=repo_line, label=pending_twin)
                    twin.append(pending_twin)
                    pending_twin = None
                    p = p[i0 + 1 :]
                    if pending_start:
                        out.add_labelled(start_lines, kind="contract", fn=path, file=rel, line=repo_line)
                        pending_start = False
                cur += p
        if cur != "" or len(parts) == 1:
            out.add(cur, **base_meta, line=repo_line)
        if i in inserts_after:
            out.add_labelled(inserts_after[i], kind="contract", fn=path, file=rel, line=repo_line)
        first = False


def gen_ciphersuite_trait(items, out):
    """BbsCiphersuite: the assoc consts of the real trait; defaults become facts of `consts_facts`
    (D-kind: a defaulted assoc const that no impl overrides has that value in every ciphersuite)."""
    tr = items.get("bbsplus::ciphersuites::BbsCiphersuite")
    if tr is None:
        raise Undecided("lost-anchor", "trait BbsCiphersuite not found")
    overridden = set()
    for p, it in items.items():
        if it["kind"] == "impl_const" and "@BbsCiphersuite::" in p:
            overridden.add(p.split("::")[-1])
    rel = os.path.relpath(tr["file"], REPO)
    out.add("pub trait BbsCiphersuite: Sized {", kind="glue", src=f"{rel}:{tr['line']}")
    facts = []
    for c in tr["consts"]:
        out.add(f"    const {c['name']}: {c['ty']};", kind="glue", src=f"{rel}:{tr['line']}")
        d = c["default"]
        if d is None:
            continue
        if c["name"] in overridden:
            raise Undecided("unsupported", f"ciphersuite const {c['name']} has a default that an impl overrides")
        m = re.match(r'^b"((?:[^"\\]|\\.)*)"$', d)
        if m:
            bs = bytes(m.group(1), "utf-8").decode("unicode_escape").encode("latin-1")
            seq = "seq![" + ", ".join(f"{b}u8" for b in bs) + "]"
            facts.append(f"Self::{c['name']}@ == {seq}")
        elif re.match(r"^\d+$", d):
            facts.append(f"Self::{c['name']} == {d}")
        else:
            raise Undecided("unsupported", f"ciphersuite const default not understood: {c['name']} = {d}")
    out.add("    /// defaults of the real trait (no impl overrides them) + closed facts about the real", kind="glue")
    out.add("    /// constants that the leaf checks evaluate (P1 decodes to a non-identity point, DST sizes).", kind="glue")
    out.add("    proof fn consts_facts()", kind="glue")
    out.add("        ensures", kind="glue")
    for f in facts:
        out.add(f"            {f},", kind="glue")
    out.add("            g1_from_hex(Self::P1@) is Some,", kind="glue")
    out.add("            Self::API_ID@.len() <= 64, Self::API_ID_BLIND@.len() <= 64,", kind="glue")
    out.add("    ;", kind="glue")
    out.add("}", kind="glue")


def gen_cl_ciphersuite_trait(items, out):
    """CLCiphersuite: assoc consts of the real trait; a const whose defining expression is textually the same in
    every impl becomes a fact of `consts_facts`; otherwise the fact is the disjunction of the impls' values."""
    tr = items.get("cl03::ciphersuites::CLCiphersuite")
    if tr is None:
        raise Undecided("lost-anchor", "trait CLCiphersuite not found")
    rel = os.path.relpath(tr["file"], REPO)
    vals = {}
    for p, it in items.items():
        if it["kind"] == "impl_const" and "@CLCiphersuite::" in p:
            m = re.match(r"^\s*const\s+(\w+)\s*:\s*([^=]+?)\s*=\s*(.*?);", " ".join(it["text"].split()))
            if m:
                vals.setdefault(m.group(1), []).append((m.group(2), m.group(3)))
    out.add("pub trait Ciphersuite { type HashAlg; }", kind="glue")
    out.add("pub trait CLCiphersuite: Sized + Ciphersuite {", kind="glue", src=f"{rel}:{tr['line']}")
    facts = []
    for c in tr["consts"]:
        out.add(f"    const {c['name']}: {c['ty']};", kind="glue", src=f"{rel}:{tr['line']}")
        if c["ty"].strip() != "u32":
            continue
        vs = vals.get(c["name"], [])
        exprs = sorted({v for _, v in vs})
        if len(exprs) == 1:
            facts.append(f"Self::{c['name']} == {exprs[0]}")
        elif exprs and all(re.match(r"^\d+$", e) for e in exprs):
            facts.append("(" + " || ".join(f"Self::{c['name']} == {e}" for e in exprs) + ")")
    out.add("    /// values of the real impls (CL1024/2048/3072): equal defining expressions become equalities, differing literals a disjunction", kind="glue")
    out.add("    proof fn consts_facts()", kind="glue")
    out.add("        ensures", kind="glue")
    for f in facts:
        out.add(f"            {f},", kind="glue")
    out.add("    ;", kind="glue")
    out.add("}", kind="glue")


GLUE_CL = """
pub trait Scheme: Sized { type Ciphersuite: Ciphersuite; type PrivKey; type PubKey; }
pub struct CL03<CS: CLCiphersuite>(pub core::marker::PhantomData<CS>);
impl<CS: CLCiphersuite> Scheme for CL03<CS> { type Ciphersuite = CS; type PrivKey = CL03SecretKey; type PubKey = CL03PublicKey; }
"""

CL_TYPES = [
    "cl03::keys::CL03PublicKey", "cl03::keys::CL03SecretKey", "cl03::keys::CL03CommitmentPublicKey", "cl03::bases::Bases",
    "utils::message::cl03_message::CL03Message", "cl03::signature::CL03Signature", "cl03::commitment::CL03Commitment",
    "cl03::blind::CL03BlindSignature", "cl03::range_proof::RangeProof", "cl03::range_proof::ProofSs", "cl03::range_proof::ProofOfS",
    "cl03::range_proof::ProofLi", "cl03::range_proof::ProofWt", "cl03::range_proof::Boudot2000RangeProof",
    "cl03::sigma_protocols::NISP2Commitments", "cl03::sigma_protocols::NISPSecrets", "cl03::sigma_protocols::NISPMultiSecrets",
    "cl03::sigma_protocols::NISPSignaturePoK", "cl03::proof::CL03PoKSignature", "cl03::proof::CL03ZKPoK", "cl03::proof::ProofOfValue",
    "schemes::generics::Signature", "schemes::generics::Commitment", "schemes::generics::BlindSignature",
    "schemes::generics::PoKSignature", "schemes::generics::ZKPoK", "keys::pair::KeyPair",
]

GLUE_SCHEME = """
pub trait Scheme: Sized { type PrivKey; type PubKey; }
pub struct BBSplus<CS: BbsCiphersuite>(pub core::marker::PhantomData<CS>);
impl<CS: BbsCiphersuite> Scheme for BBSplus<CS> { type PrivKey = BBSplusSecretKey; type PubKey = BBSplusPublicKey; }
"""


def assemble(unit, items=None, twin=False):
    family = unit.get("family", "bbs")
    if items is None:
        items = run_extractor(family, unit.get("deref_lets", ["H_i"]))
    contracts = {}
    for cf in unit.get("contracts", []):
        contracts.update(parse_vc(os.path.join(VERIF, "contracts", cf)))
    out = Out()
    out.honest = bool(unit.get("honest", False))
    out.body_broadcast = list(unit.get("body_broadcast", []))
    out.body_broadcast_fn = dict(unit.get("_wide", {}))
    out.add("#![feature(allocator_api)]", kind="prelude")
    out.add("#![allow(non_snake_case, non_upper_case_globals, non_camel_case_types, unused, dead_code)]", kind="prelude")
    out.add("use vstd::prelude::*;", kind="prelude")
    out.add("verus! {", kind="prelude")
    out.add("pub mod shim {", kind="prelude")
    out.add("use vstd::prelude::*;", kind="prelude")
    for sf in unit.get("shims", []):
        out.add_file(os.path.join(VERIF, "shim", sf), "shim")
    # honest_run(): true in the units that verify the honest runs (counterpart's input satisfies the acceptance predicates:
    # no refusal allowed, the verifier must return true), false in the general units (arbitrary input, a panic is a refusal)
    out.add("pub open spec fn honest_run() -> bool { %s }" % ("true" if out.honest else "false"), kind="prelude")
    out.add("} // mod shim", kind="prelude")
    out.add("pub mod code {", kind="prelude")
    out.add("use vstd::prelude::*;", kind="prelude")
    out.add("use super::shim::*;", kind="prelude")
    out.add("use core::marker::PhantomData;", kind="prelude")
    if unit.get("broadcast"):
        out.add("broadcast use {" + ", ".join(unit["broadcast"]) + "};", kind="prelude")
    # glue
    if family == "cl":
        out.add("use super::shim::Integer;", kind="prelude")
        out.add("use core::cmp::Ordering;", kind="prelude")
    if family == "bbs":
        gen_ciphersuite_trait(items, out)
    else:
        gen_cl_ciphersuite_trait(items, out)
    # types
    if family == "bbs" and "types" not in unit:
        unit["types"] = list(BBS_TYPES)
    if family == "cl" and "types" not in unit:
        unit["types"] = [t for t in CL_TYPES if t in items] + list(unit.get("extra_types", []))
    for tp in unit.get("types", []):
        it = items.get(tp)
        if it is None:
            raise Undecided("lost-anchor", f"type {tp} not found in /repo")
        if it["errors"]:
            raise Undecided("unsupported", f"{tp}: {it['errors']}")
        rel = os.path.relpath(it["file"], REPO)
        text = it["text"]
        if it["kind"] == "enum" and "<S: Scheme>" in text:
            pass
        manual_clone = False
        if family == "cl" and it["kind"] == "struct" and re.search(r"#\[derive\(([^)]*)\)\]", text):
            # derived Clone on a struct of Integers / Vecs: replace by an explicit impl with the contract
            # `r == *self` (fieldwise clone; Integer::clone preserves the view) so that clones are usable in specs
            m = re.search(r"#\[derive\(([^)]*)\)\]", text)
            ds = [d.strip() for d in m.group(1).split(",")]
            generic = re.search(r"struct\s+\w+\s*<", text) is not None
            if "Clone" in ds and "Copy" not in ds and not generic:
                text = text[: m.start()] + text[m.end():]
                manual_clone = True
        for i, l in enumerate(text.split("\n")):
            out.add(l, kind="type", file=rel, line=it["line"] + i, item=tp)
        if manual_clone:
            name = tp.split("::")[-1]
            out.add(f"impl Clone for {name} {{ #[verifier::external_body] fn clone(&self) -> (r: Self) ensures r == *self {{ unimplemented!() }} }}", kind="glue", item=tp)
        if it["kind"] in ("impl_const",):
            pass
    if family == "bbs" and unit.get("scheme_glue", True):
        out.add(GLUE_SCHEME, kind="glue")
    if family == "cl":
        out.add(GLUE_CL, kind="glue")
    spec_twins = [] if twin else None
    for sf in unit.get("specs", []):
        out.add_file(os.path.join(VERIF, "specs", sf), "spec", twin=spec_twins)
    for sf in unit.get("code_shims", []):
        out.add_file(os.path.join(VERIF, "shim", sf), "shim")
    # functions grouped by impl header
    verify = list(unit.get("verify", []))
    assume = list(unit.get("assume", []))
    # inherent associated consts of the selected types come along automatically
    for tp in unit.get("types", []):
        for p, it in items.items():
            if it["kind"] == "impl_const" and p.startswith(tp + "::") and "@" not in p and p not in verify and p not in assume:
                verify.insert(0, p)
    inherent = set(unit.get("inherent_traits", ["ScalarExt"]))
    groups = []  # (header, [(path, assume?)])
    for p, a in [(p, False) for p in verify] + [(p, True) for p in assume]:
        it = items.get(p)
        if it is None:
            raise Undecided("lost-anchor", f"function {p} not found in /repo (renamed or removed)", fn=p)
        if it["kind"] not in ("fn", "impl_const"):
            raise Undecided("tool-error", f"{p} is a {it['kind']}")
        if it["errors"] and not a:
            raise Undecided("unsupported", f"{p}: {it['errors']}", fn=p)
        hdr = it.get("impl_header")
        if hdr:
            m = re.match(r"^(impl(?:<.*?>)?)\s+(\w+)\s+for\s+(.*)$", hdr)
            if m and m.group(2) in inherent:
                hdr = f"{m.group(1)} {m.group(3)}"
        for g in groups:
            if g[0] == hdr and hdr is not None:
                g[1].append((p, a))
                break
        else:
            groups.append((hdr, [(p, a)]))
    nverify = 0
    twin_list = list(spec_twins) if twin else None
    for hdr, members in groups:
        if hdr:
            out.add(hdr + " {", kind="impl")
        for p, a in members:
            it = items[p]
            c = contracts.get(p)
            if it["kind"] == "impl_const":
                rel = os.path.relpath(it["file"], REPO)
                out.add(it["text"], kind="type", file=rel, line=it["line"], item=p)
                continue
            if a:
                if c is None:
                    raise Undecided("tool-error", f"assumed function {p} has no contract")
                out.add("#[verifier::external_body]", kind="assumed-body", fn=p)
                sub_markers(it, c, out, assume=True)
            else:
                if p in unit.get("exec_no_decreases", []):
                    out.add("#[verifier::exec_allows_no_decreases_clause]", kind="glue", fn=p)
                complex_inv = c is not None and any(re.match(r"\s*(invariant_except_break|ensures)\b", t) for (_fp, _k, ls) in c.loops for (t, _l) in ls)
                if it.get("loops") and not complex_inv and p in unit.get("_wide", {}):
                    # second stage only (see checker.run_units), and only in the functions that failed in the first: facts
                    # established before a loop stay visible inside it, so that a pure value bound once before the loop
                    # (hoisting, compute-once) verifies like the expression it replaces
                    out.add("#[verifier::loop_isolation(false)]", kind="glue", fn=p)
                sub_markers(it, c, out, twin=twin_list)
                nverify += 1
        if hdr:
            out.add("}", kind="impl")
    for lf in unit.get("lemmas", []):
        out.add_file(os.path.join(VERIF, "lemmas", lf), "lemma", twin=twin_list)
    out.add("} // mod code", kind="prelude")
    out.add("} // verus!", kind="prelude")
    out.add("fn main() {}", kind="prelude")
    rewrites = []
    for p in verify:
        for r in items[p].get("rewrites", []):
            rewrites.append({"fn": p, **r})
    for p, ren in out.renames.items():
        for old, new in sorted(ren.items()):
            rewrites.append({"fn": p, "rule": "alpha-rename (contract hints follow a local renamed in /repo)", "from": old, "to": new})
    return out, {"items": items, "contracts": contracts, "rewrites": rewrites, "nverify": nverify, "twin_expected": twin_list or []}


if __name__ == "__main__":
    u = load_unit(sys.argv[1])
    out, info = assemble(u)
    os.makedirs(BUILD, exist_ok=True)
    p = os.path.join(BUILD, u["name"] + ".rs")
    open(p, "w").write(out.text())
    print(p, len(out.lines), "lines")
