#!/usr/bin/env python3
"""Record, for every function that has a contract, its `let` bindings (name, normalised right-hand side) as they are in /repo
NOW -> contracts/refs.json.  The assembler uses it to recognise locals that were renamed later (a behaviour-preserving edit) and
alpha-renames the contract's hints accordingly.  Run it only on a tree on which all checks pass (it defines the reference)."""
import json, os, sys, glob
sys.path.insert(0, os.path.join(os.path.dirname(os.path.abspath(__file__)), "..", "engine"))
import assemble
refs = {}
for fam in ("bbs", "cl"):
    items = assemble.run_extractor(fam)
    for cf in sorted(glob.glob(os.path.join(assemble.VERIF, "contracts", "*.vc"))):
        for path, c in assemble.parse_vc(cf).items():
            it = items.get(path)
            if not it or it["kind"] != "fn":
                continue
            b = assemble._bindings(it["text"].split("\n"))
            if b:
                refs[path] = b
json.dump(refs, open(assemble.REFS_FILE, "w"), indent=0, sort_keys=True)
print(len(refs), "functions,", sum(len(v) for v in refs.values()), "bindings ->", assemble.REFS_FILE)
