#!/bin/sh
# usage: confirm_seed.sh <worktree> — confirm a seeded change: tests pass with it, demo fails with it, demo passes without it
set -u
WT=$1
cd $WT || exit 2
export CARGO_TARGET_DIR=$WT/target
git checkout -q -- src 2>/dev/null
git apply _seed/patch.diff || { echo "PATCH-DOES-NOT-APPLY"; exit 2; }
mkdir -p tests; cp _seed/seed_demo.rs tests/seed_demo.rs
echo "== baseline suite WITH change (demo excluded)"
cargo test --offline --lib 2>&1 | grep -E "^test result" | head -2
echo "== demo WITH change"
cargo test --offline --test seed_demo 2>&1 | grep -E "^test result|panicked" | head -5
git checkout -q -- src
echo "== demo WITHOUT change"
cargo test --offline --test seed_demo 2>&1 | grep -E "^test result" | head -2
