#!/bin/sh
# usage: regress_seeds.sh <out.tsv>  — apply every recorded seed to /repo in turn, run the quick check of its property, undo;
# one line per seed: id, verdict set (must contain VIOLATION), whether a failing input is named
OUT=$1
: > $OUT
for d in /verif/seeded/C*-*; do
  id=$(basename $d); prop=${id%%-*}
  cd /repo && git status --short | grep -q . && { echo "/repo not clean"; exit 2; }
  git -C /repo apply $d/patch.diff || { printf "%s\tPATCH-DOES-NOT-APPLY\n" $id >> $OUT; continue; }
  cd /verif
  o=$(./check $prop --tier quick 2>&1)
  v=$(echo "$o" | grep -E "^(OK|VIOLATION|UNDECIDED)" | awk '{print $1}' | sort -u | tr '\n' ',')
  noinput=$(echo "$o" | grep -c "no-failing-input-found")
  nviol=$(echo "$o" | grep -c "^VIOLATION")
  printf "%s\t%s\tviolation_lines=%s\twithout_input=%s\n" "$id" "$v" "$nviol" "$noinput" >> $OUT
  git -C /repo checkout -- .
done
echo DONE >> $OUT
