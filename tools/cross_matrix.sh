#!/bin/sh
# usage: cross_matrix.sh <out.tsv> <seed-id>:<prop,prop,...> ...   — apply each recorded seed to /repo and run the quick check of
# every listed property; one line per (seed, property): verdict (OK / VIOLATION / UNDECIDED).  Used to look for alarms on
# properties the seeded change does NOT break.
OUT=$1; shift
: > $OUT
for spec in "$@"; do
  seed=${spec%%:*}; props=$(echo ${spec#*:} | tr ',' ' ')
  cd /repo && git status --short | grep -q . && { echo "/repo not clean"; exit 2; }
  git -C /repo apply /verif/seeded/$seed/patch.diff || exit 2
  cd /verif
  for p in $props; do
    v=$(./check $p --tier quick 2>&1 | grep -E "^(OK|VIOLATION|UNDECIDED)" | awk '{print $1}' | sort -u | tr '\n' ',')
    printf "%s\t%s\t%s\n" "$seed" "$p" "$v" >> $OUT
  done
  git -C /repo checkout -- .
done
echo DONE >> $OUT
