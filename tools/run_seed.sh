#!/bin/sh
# usage: run_seed.sh <patch.diff> <prop> [<prop> ...] — apply a seeded change to /repo, run the checks, undo
PATCH=$1; shift
cd /repo && git status --short | grep -q . && { echo "/repo not clean"; exit 2; }
git -C /repo apply $PATCH || exit 2
cd /verif
for p in "$@"; do ./check $p --tier quick 2>&1 | grep -E "^(VIOLATION|OK|UNDECIDED|KNOWN|  obligation)" | head -8; done
git -C /repo checkout -- .
