#!/usr/bin/env python3
"""run every unit under several Z3 seeds; report any unit whose verdict differs from seed to seed (or is not clean)"""
import sys, os, glob, concurrent.futures as cf
sys.path.insert(0, os.path.join(os.path.dirname(os.path.abspath(__file__)), "..", "engine"))
import run
from assemble import Undecided
units = [os.path.basename(f)[:-5] for f in sorted(glob.glob(os.path.join(run.VERIF, "units", "*.toml"))) if not f.endswith("properties.toml")]
seeds = [int(x) for x in (sys.argv[1:] or ["1", "2", "3", "4", "5"])]
def one(us):
    u, s = us
    try:
        r = run.verify_unit(u, seed=s, keep=False)
        return u, s, r["verified"], r["errors"], sorted({f["label"] for f in r["failures"]}), max([f["ms"] for f in r["functions"]] or [0])
    except Undecided as e:
        return u, s, -1, -1, [f"UNDECIDED {e.reason}: {e.detail[:120]}"], 0
res = {}
for sd in seeds:   # one seed at a time (the assembled file of a unit is shared by name within this process)
    with cf.ThreadPoolExecutor(max_workers=8) as ex:
        for u, s, v, e, labs, slow in ex.map(one, [(u, sd) for u in units]):
            res.setdefault(u, {})[s] = (v, e, labs, slow)
bad = 0
for u in units:
    vals = res[u]
    base = None
    line = []
    for s in seeds:
        v, e, labs, slow = vals[s]
        line.append(f"s{s}:{v}/{e}/{slow}ms")
        key = (v, tuple(labs))
        if base is None:
            base = key
        elif key != base:
            bad += 1
    dec = [l for s in seeds for l in vals[s][2]]
    print(u, " ".join(line), ("  labels: " + ",".join(sorted(set(dec)))[:300]) if dec else "")
print("UNSTABLE" if bad else "STABLE", bad)
