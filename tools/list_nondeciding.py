#!/usr/bin/env python3
"""list the non-deciding implicit failures (possible panics = refusals in CL03 generator units) of the given units"""
import sys, os, glob
sys.path.insert(0, os.path.join(os.path.dirname(os.path.abspath(__file__)), "..", "engine"))
import run
units = sys.argv[1:] or [os.path.basename(f)[:-5] for f in sorted(glob.glob(os.path.join(run.VERIF, "units", "cl_*.toml")))]
for u in units:
    try:
        r = run.verify_unit(u)
    except Exception as e:
        print(u, "ERR", e); continue
    notes = r.get("notes") if isinstance(r, dict) else getattr(r, "notes", None)
    print("==", u, len(notes or []))
    for n in notes or []:
        print("   ", n.get("site"), "|", n.get("message"), "|", n.get("nondeciding_implicit"))
