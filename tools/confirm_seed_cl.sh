#!/bin/sh
# usage: confirm_seed_cl.sh <id e.g. C14> [<worktree> <outdir>] — confirm a CL03 seeded change produced in the scratch worktree /tmp/seed_<id>
# (top commit of that worktree: Cargo.toml tweak that builds the cl03 feature against the system GMP; never part of a seed):
# the patch applies to a clean checkout, the 98-test baseline and the CL1024 unit tests pass WITH it, the demo fails WITH it and passes WITHOUT it.
set -u
ID=$1
WT=${2:-/tmp/seed_$ID}
OUT=${3:-/tmp/seed_${ID}_out}
cd $WT || exit 2
export C_INCLUDE_PATH=/verif/build/syslibs/inc LIBRARY_PATH=/verif/build/syslibs/lib CARGO_NET_OFFLINE=true CARGO_TARGET_DIR=/tmp/seed_${ID}_target
git checkout -q -- src 2>/dev/null; git stash list | grep -q . && git stash drop -q
git apply $OUT/patch.diff || { echo "PATCH-DOES-NOT-APPLY"; exit 2; }
mkdir -p tests; cp $OUT/seed_demo.rs tests/seed_demo.rs
echo "== baseline suite WITH change"
cargo test --offline --lib 2>&1 | grep -E "^test result" | head -2
echo "== CL1024 unit tests WITH change"
cargo test --offline --features cl03 --lib cl1024 2>&1 | grep -E "^test result|FAILED" | head -3
echo "== demo WITH change"
cargo test --offline --features cl03 --test seed_demo 2>&1 | grep -E "^test result|panicked" | head -4
git checkout -q -- src
echo "== demo WITHOUT change"
cargo test --offline --features cl03 --test seed_demo 2>&1 | grep -E "^test result|panicked" | head -3
git apply $OUT/patch.diff
rm -rf /tmp/seed_${ID}_target
