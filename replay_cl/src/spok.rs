// C15 — proof of knowledge of a signature: complete and bound to its statement;  C17 / C19 probes on it.
use crate::issue::{complement, find_pairs, masked, pick};
use crate::sig::msgs;
use crate::*;
use zkryptium::{
    cl03::{bases::Bases, keys::CL03CommitmentPublicKey},
    keys::pair::KeyPair,
    schemes::algorithms::CL03,
    schemes::generics::{PoKSignature, Signature},
};

pub fn run(out: &mut Out, thorough: bool) {
    let kp = KeyPair::<CL03<CS>>::generate();
    let kp2 = KeyPair::<CL03<CS>>::generate();
    let pk = kp.public_key();
    let nmax = if thorough { 4 } else { 3 };
    for n in 1..=nmax {
        let bases = Bases::generate(pk, n);
        let bases2 = Bases::generate(pk, n);
        let m = msgs(n, 5);
        let sig = Signature::<CL03<CS>>::sign_multiattr(pk, kp.private_key(), &bases, &m);
        let cpk = CL03CommitmentPublicKey::generate::<CS>(Some(pk.N.clone()), Some(n));
        let cpk2 = CL03CommitmentPublicKey::generate::<CS>(Some(pk.N.clone()), Some(n));
        for u in subsets(n, true) {
            let tag = format!("n={}/U={:?}", n, u);
            let inp = vec![format!("n={}", n), format!("hidden={:?}", u)];
            let rev = pick(&m, &complement(n, &u));
            let p = match try_call(|| PoKSignature::<CL03<CS>>::proof_gen(sig.cl03Signature(), &cpk, pk, &bases, &m, &u)) {
                Ok(p) => p,
                Err(e) => {
                    out.push(&format!("{}/honest/proof_gen", tag), "proof_gen", inp.clone(), format!("panic:{}", e), &["expect-accept"]);
                    continue;
                }
            };
            out.check(&format!("{}/honest", tag), "proof_gen;proof_verify", inp.clone(), true, &[], || p.proof_verify(&cpk, pk, &bases, &rev, &u, n));
            out.check(&format!("{}/json-roundtrip", tag), "serde_json;proof_verify", inp.clone(), true, &[], || {
                let q: PoKSignature<CL03<CS>> = serde_json::from_str(&serde_json::to_string(&p).unwrap()).unwrap();
                q == p && q.proof_verify(&cpk, pk, &bases, &rev, &u, n)
            });
            // ---- bound to its statement -----------------------------------------------------------------------------
            if !rev.is_empty() {
                let mut r2 = rev.clone();
                r2[0].value += 1;
                out.check(&format!("{}/other-revealed", tag), "proof_verify", vec!["first revealed attribute + 1".into()], false, &[], || p.proof_verify(&cpk, pk, &bases, &r2, &u, n));
            }
            out.check(&format!("{}/other-signer-key", tag), "proof_verify", inp.clone(), false, &[], || p.proof_verify(&cpk, kp2.public_key(), &bases, &rev, &u, n));
            out.check(&format!("{}/other-bases", tag), "proof_verify", inp.clone(), false, &[], || p.proof_verify(&cpk, pk, &bases2, &rev, &u, n));
            out.check(&format!("{}/other-commitment-key", tag), "proof_verify", inp.clone(), false, &[], || p.proof_verify(&cpk2, pk, &bases, &rev, &u, n));
            // single-field edits of the public statement: every component of the signer key, the commitment key and the bases is bound
            for f in ["N", "b", "c"] {
                let mut jpk = jv(pk);
                let x = get_int(at(&jpk, &format!("/{}", f))) + 2;
                set(&mut jpk, &format!("/{}", f), int_json(&x));
                let pk_e: zkryptium::cl03::keys::CL03PublicKey = from_jv(&jpk);
                out.check(&format!("{}/signer-key-field/{}+2", tag, f), "proof_verify", vec![format!("pk.{} + 2", f)], false, &["statement-edit"], || p.proof_verify(&cpk, &pk_e, &bases, &rev, &u, n));
            }
            {
                let jc = jv(&cpk);
                let mut cpaths = Vec::new();
                int_paths(&jc, "", &mut cpaths);
                for cp in cpaths {
                    let mut t = jc.clone();
                    let x = get_int(at(&jc, &cp)) + 2;
                    set(&mut t, &cp, int_json(&x));
                    let cpk_e: CL03CommitmentPublicKey = from_jv(&t);
                    // a base of a REVEALED position other than g_0 enters no equation the verifier checks for this statement
                    let unused = cp.starts_with("/g_bases/") && { let k: usize = cp["/g_bases/".len()..].parse().unwrap_or(0); k != 0 && !u.contains(&k) };
                    out.check(&format!("{}/commitment-key-field{}+2", tag, cp), "proof_verify", vec![format!("commitment_pk{} + 2", cp)], false, if unused { &["statement-edit", "unused-field"] } else { &["statement-edit"] }, || p.proof_verify(&cpk_e, pk, &bases, &rev, &u, n));
                }
                for k in 0..n {
                    let mut b2 = bases.clone();
                    b2.0[k] += 2;
                    out.check(&format!("{}/base-{}+2", tag, k), "proof_verify", vec![format!("a_bases[{}] + 2", k)], false, &["statement-edit"], || p.proof_verify(&cpk, pk, &b2, &rev, &u, n));
                }
            }
            for u2 in subsets(n, true) {
                if u2 != u && (thorough || u2.len() == u.len()) {
                    let rev2 = pick(&m, &complement(n, &u2));
                    out.check(&format!("{}/other-U={:?}", tag, u2), "proof_verify", vec![format!("verify with hidden={:?}", u2)], false, &[], || p.proof_verify(&cpk, pk, &bases, &rev2, &u2, n));
                }
            }
            if n >= 2 {
                // attribute count n - 1: drop the last position from whichever list holds it
                let (mut u3, mut rev3) = (u.clone(), rev.clone());
                if u3.contains(&(n - 1)) {
                    u3.retain(|x| *x != n - 1);
                } else {
                    rev3.pop();
                }
                out.check(&format!("{}/other-count", tag), "proof_verify", vec![format!("n_signed_messages = {}", n - 1)], false, &[], || p.proof_verify(&cpk, pk, &bases, &rev3, &u3, n - 1));
            }
            // per-attribute range proofs / proofs of value taken from a proof about another signature's attributes
            if !u.is_empty() {
                let m_o = msgs(n, 6);
                let sig_o = Signature::<CL03<CS>>::sign_multiattr(pk, kp.private_key(), &bases, &m_o);
                let p_o = PoKSignature::<CL03<CS>>::proof_gen(sig_o.cl03Signature(), &cpk, pk, &bases, &m_o, &u);
                let (jp, jo) = (jv(&p), jv(&p_o));
                for part in ["range_proofs_commited_mi", "proofs_commited_mi", "range_proof_e"] {
                    let mut t = jp.clone();
                    set(&mut t, &format!("/CL03/{}", part), at(&jo, &format!("/CL03/{}", part)).clone());
                    let q: PoKSignature<CL03<CS>> = from_jv(&t);
                    out.check(&format!("{}/transplant/{}", tag, part), "proof_verify", vec![format!("{} taken from a proof about other attributes", part)], false, &["transplant"], || q.proof_verify(&cpk, pk, &bases, &rev, &u, n));
                }
                let mut t = jp.clone();
                for part in ["range_proofs_commited_mi", "proofs_commited_mi"] {
                    set(&mut t, &format!("/CL03/{}", part), at(&jo, &format!("/CL03/{}", part)).clone());
                }
                let q: PoKSignature<CL03<CS>> = from_jv(&t);
                out.check(&format!("{}/transplant/per-attribute-block", tag), "proof_verify", vec!["proofs of value together with their range proofs taken from a proof about other attributes".into()], false, &["transplant", "unlinked"], || q.proof_verify(&cpk, pk, &bases, &rev, &u, n));
            }
            // single-field perturbations of every integer of the serialized proof (+1, -1, zero; quick: a sample)
            let jp = jv(&p);
            let mut paths = Vec::new();
            int_paths(&jp, "", &mut paths);
            let step = if thorough { 1 } else if n == 1 { 5 } else { 23 };
            for (k, path) in paths.iter().enumerate() {
                if k % step != 0 {
                    continue;
                }
                let x = get_int(at(&jp, path));
                let variants: Vec<(&str, Integer)> = if thorough { vec![("+1", x.clone() + 1), ("-1", x.clone() - 1), ("zero", Integer::from(0))] } else { vec![("+1", x.clone() + 1)] };
                for (name, y) in variants {
                    if y == x {
                        continue;
                    }
                    let mut t = jp.clone();
                    set(&mut t, path, int_json(&y));
                    let q: PoKSignature<CL03<CS>> = from_jv(&t);
                    let unused = path.ends_with("/randomness");
                    out.check(&format!("{}/edit{}/{}", tag, path, name), "proof_verify", vec![format!("{} {}", path, name)], false, if unused { &["edit", "unused-field"] } else { &["edit"] }, || q.proof_verify(&cpk, pk, &bases, &rev, &u, n));
                }
            }
        }
    }
}

pub fn wire(out: &mut Out, thorough: bool) {
    let kp = KeyPair::<CL03<CS>>::generate();
    let pk = kp.public_key();
    let nmax = if thorough { 3 } else { 2 };
    for n in 1..=nmax {
        let bases = Bases::generate(pk, n);
        let m = msgs(n, 7);
        let sig = Signature::<CL03<CS>>::sign_multiattr(pk, kp.private_key(), &bases, &m);
        let js = jv(&sig);
        let (e, v) = (get_int(at(&js, "/CL03/e")), get_int(at(&js, "/CL03/v")));
        let cpk = CL03CommitmentPublicKey::generate::<CS>(Some(pk.N.clone()), Some(n));
        for u in subsets(n, true) {
            let p = match try_call(|| PoKSignature::<CL03<CS>>::proof_gen(sig.cl03Signature(), &cpk, pk, &bases, &m, &u)) {
                Ok(p) => p,
                Err(_) => continue,
            };
            let j: Value = serde_json::from_str(&serde_json::to_string(&p).unwrap()).unwrap();
            let tag = format!("spok/n={}/U={:?}", n, u);
            let mut pairs = Vec::new();
            find_pairs(&j, "", &mut pairs);
            let nn = &cpk.N;
            let mut secrets: Vec<(String, Integer)> = u.iter().map(|i| (format!("m[{}]", i), m[*i].value.clone())).collect();
            secrets.push(("e".into(), e.clone()));
            for (path, val, rnd) in &pairs {
                // v recovered from Cv: value * g_0^(-randomness)
                let rec = val.clone() * powm(&cpk.g_bases[0], &(-rnd.clone()), nn) % nn;
                if rec == v || path.ends_with("/Cv") {
                    out.push(&format!("{}/recover-v{}", tag, path), "serde_json(PoKSignature)", vec![format!("{}: value * g_0^(-randomness) == v ?", path)],
                        if rec == v { "accept".into() } else { "reject".into() }, &["expect-reject", "opening-on-wire"]);
                }
                for (sname, sx) in &secrets {
                    for (gi, g) in cpk.g_bases.iter().enumerate() {
                        let opens = powm(g, sx, nn) * powm(&cpk.h, rnd, nn) % nn == *val;
                        if opens || (gi == 0 && path.ends_with("/Ce") && sname == "e") {
                            out.push(&format!("{}/opening{}/{}/g_{}", tag, path, sname, gi), "serde_json(PoKSignature)", vec![format!("{}: value == g_{}^{} * h^randomness ?", path, gi, sname)],
                                if opens { "accept".into() } else { "reject".into() }, &["expect-reject", "opening-on-wire"]);
                        }
                    }
                }
                // w (the opening of Cv) committed in Cw: value == g_0^w * h^randomness with w found on the wire?
                for (p2, _v2, r2) in &pairs {
                    if path.ends_with("/Cw") && p2.ends_with("/Cv") {
                        let opens = powm(&cpk.g_bases[0], r2, nn) * powm(&cpk.h, rnd, nn) % nn == *val;
                        out.push(&format!("{}/opening{}/w", tag, path), "serde_json(PoKSignature)", vec!["Cw.value == g_0^(Cv.randomness) * h^(Cw.randomness) ?".into()],
                            if opens { "accept".into() } else { "reject".into() }, &["expect-reject", "opening-on-wire"]);
                    }
                }
            }
            if !u.is_empty() {
                let i0 = u[0];
                let cands = [m[i0].value.clone(), m[i0].value.clone() + 1];
                let mut identified = false;
                for (_p, val, rnd) in &pairs {
                    let hits: Vec<bool> = cands.iter().map(|x| powm(&cpk.g_bases[i0], x, nn) * powm(&cpk.h, rnd, nn) % nn == *val).collect();
                    if hits[0] != hits[1] {
                        identified = true;
                    }
                }
                out.push(&format!("{}/dictionary/m[{}]", tag, i0), "serde_json(PoKSignature)", vec!["two candidate values, proof + public parameters only".into()],
                    if identified { "accept".into() } else { "reject".into() }, &["expect-reject", "dictionary"]);
            }
            // direct recomputation from a single integer field and the public challenge: for every hidden attribute m (and e) and every
            // integer leaf x of the proof, none of  x == m,  x == m*c,  x == m*(1 + c),  floor(x / c) == m,  floor(x / (1 + c)) == m  may hold
            // for EVERY hidden position (the dictionary attack with two candidates then identifies the value)
            {
                let ch = get_int(at(&j, "/CL03/spok/challenge"));
                let mut leaves = Vec::new();
                int_paths(&j, "", &mut leaves);
                let mut recovered: Vec<String> = vec![];
                for (sname, sx) in &secrets {
                    if *sx == 0 {
                        continue;
                    }
                    for lp in &leaves {
                        let x = get_int(at(&j, lp));
                        let c1: Integer = ch.clone() + 1;
                        let hit = x == *sx || x == sx.clone() * &ch || x == sx.clone() * &c1
                            || (ch > 0 && x.clone().div_rem_floor(ch.clone()).0 == *sx) || x.clone().div_rem_floor(c1.clone()).0 == *sx;
                        if hit {
                            recovered.push(format!("{} from {}", sname, lp));
                        }
                    }
                }
                out.push(&format!("{}/single-field-recomputation", tag), "serde_json(PoKSignature)", vec![recovered.join("; ")],
                    if recovered.is_empty() { "reject".into() } else { "accept".into() }, &["expect-reject", "dictionary"]);
            }
        }
    }
}

pub fn mask(out: &mut Out, thorough: bool) {
    let kp = KeyPair::<CL03<CS>>::generate();
    let pk = kp.public_key();
    let nmax = if thorough { 3 } else { 2 };
    for n in 1..=nmax {
        let bases = Bases::generate(pk, n);
        let m = msgs(n, 8);
        let sig = Signature::<CL03<CS>>::sign_multiattr(pk, kp.private_key(), &bases, &m);
        let js = jv(&sig);
        let (e, s) = (get_int(at(&js, "/CL03/e")), get_int(at(&js, "/CL03/s")));
        let cpk = CL03CommitmentPublicKey::generate::<CS>(Some(pk.N.clone()), Some(n));
        for u in subsets(n, true) {
            let p = match try_call(|| PoKSignature::<CL03<CS>>::proof_gen(sig.cl03Signature(), &cpk, pk, &bases, &m, &u)) {
                Ok(p) => p,
                Err(_) => continue,
            };
            let j = jv(&p);
            let tag = format!("spok/n={}/U={:?}", n, u);
            let ch = get_int(at(&j, "/CL03/spok/challenge"));
            let g = |f: &str| get_int(at(&j, &format!("/CL03/spok/{}", f)));
            let mut items: Vec<(String, Integer, Integer)> = vec![
                ("s_4/e".into(), g("s_4"), e.clone()),
                ("s_6/s".into(), g("s_6"), s.clone()),
                ("s_1/rw".into(), g("s_1"), get_int(at(&j, "/CL03/spok/Cw/randomness"))),
                ("s_3/rx".into(), g("s_3"), get_int(at(&j, "/CL03/spok/Cx/randomness"))),
                ("s_7/w".into(), g("s_7"), get_int(at(&j, "/CL03/spok/Cv/randomness"))),
                ("s_9/re".into(), g("s_9"), get_int(at(&j, "/CL03/spok/Ce/randomness"))),
            ];
            for (k, i) in u.iter().enumerate() {
                items.push((format!("s_5[{}]/m[{}]", k, i), get_int(at(&j, &format!("/CL03/spok/s_5/{}", k))), m[*i].value.clone()));
            }
            for (name, resp, secret) in &items {
                if *secret == 0 {
                    continue; // opening randomness is not on the wire (after the repair of F9): not observable from outside
                }
                out.push(&format!("{}/{}", tag, name), "proof_gen", vec![format!("floor({} response / challenge) vs secret", name)],
                    if masked(resp, &ch, secret) { "accept".into() } else { "reject".into() }, &["expect-accept", "mask"]);
            }
            // ratios of responses, all ordered pairs, against every secret the driver knows (e, s, hidden m_i):
            // s_2 / s_1 and s_8 / s_7 are both e (up to a few units) when the blinding terms are too short
            let mut resp: Vec<(String, Integer)> = ["s_1", "s_2", "s_3", "s_4", "s_6", "s_7", "s_8", "s_9"].iter().map(|f| (f.to_string(), g(f))).collect();
            for k in 0..u.len() {
                resp.push((format!("s_5[{}]", k), get_int(at(&j, &format!("/CL03/spok/s_5/{}", k)))));
            }
            let mut secrets: Vec<(String, Integer)> = vec![("e".into(), e.clone()), ("s".into(), s.clone())];
            for i in &u {
                secrets.push((format!("m[{}]", i), m[*i].value.clone()));
            }
            for (an, a) in &resp {
                for (bn, b) in &resp {
                    if an == bn {
                        continue;
                    }
                    for (sn, sx) in &secrets {
                        let ok = masked(a, b, sx);
                        if !ok || (an == "s_2" && bn == "s_1") || (an == "s_8" && bn == "s_7") {
                            out.push(&format!("{}/ratio/{}-{}/{}", tag, an, bn, sn), "proof_gen", vec![format!("floor({} / {}) vs {}", an, bn, sn)],
                                if ok { "accept".into() } else { "reject".into() }, &["expect-accept", "mask", "ratio"]);
                        }
                    }
                }
            }
            // per-attribute proofs of value under the commitment key
            for (k, i) in u.iter().enumerate() {
                let base = format!("/CL03/proofs_commited_mi/{}", k);
                let (t, s1) = (get_int(at(&j, &format!("{}/value/t", base))), get_int(at(&j, &format!("{}/value/s1", base))));
                let cv = get_int(at(&j, &format!("{}/commitment/value", base)));
                let c2 = crate::issue::hash_int(cpk.g_bases[*i].to_string() + &cpk.h.to_string() + &cv.to_string() + &t.to_string());
                out.push(&format!("{}/pok_mi[{}]/s1/m[{}]", tag, k, i), "proof_gen", vec![format!("floor(s1 / c) vs m[{}]", i)],
                    if masked(&s1, &c2, &m[*i].value) { "accept".into() } else { "reject".into() }, &["expect-accept", "mask"]);
            }
        }
    }
}
