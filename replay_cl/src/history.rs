// Family `cl_history`: call histories, several keys in one process, sizes and values away from the crate's own tests.
// Everything runs in one thread, so state kept across calls (caches keyed too coarsely, statics, thread-locals) shows up as a
// contradiction of a property that must hold for every call history.  Probe ids name the step.
use crate::issue::{complement, pick};
use crate::sig::msgs;
use crate::*;
use zkryptium::{
    cl03::{bases::Bases, keys::CL03CommitmentPublicKey, range_proof::Boudot2000RangeProof},
    keys::pair::KeyPair,
    schemes::algorithms::CL03,
    schemes::generics::{BlindSignature, Commitment, PoKSignature, Signature, ZKPoK},
    utils::message::cl03_message::CL03Message,
};

pub fn run(out: &mut Out, thorough: bool) {
    let ka = KeyPair::<CL03<CS>>::generate();
    let kb = KeyPair::<CL03<CS>>::generate();
    let (pa, sa) = (ka.public_key(), ka.private_key());
    let (pb, sb) = (kb.public_key(), kb.private_key());
    let lm = <CS as CLCiphersuite>::lm;

    // ---- signatures: two keys, different attribute counts, interleaved; negatives after positives -------------------
    let (na, nb) = (3usize, 5usize);
    let (ba, bb) = (Bases::generate(pa, na), Bases::generate(pb, nb));
    let (ma, mb) = (msgs(na, 11), msgs(nb, 12));
    let sga = Signature::<CL03<CS>>::sign_multiattr(pa, sa, &ba, &ma);
    let sgb = Signature::<CL03<CS>>::sign_multiattr(pb, sb, &bb, &mb);
    out.check("sig/1-A-verifies", "verify_multiattr", vec![], true, &[], || sga.verify_multiattr(pa, &ba, &ma));
    out.check("sig/2-B-verifies", "verify_multiattr", vec![], true, &[], || sgb.verify_multiattr(pb, &bb, &mb));
    out.check("sig/3-A-verifies-after-B", "verify_multiattr", vec![], true, &[], || sga.verify_multiattr(pa, &ba, &ma));
    let mut ma2 = ma.clone();
    ma2[na - 1].value += 1;
    out.check("sig/4-A-changed-after-acceptance", "verify_multiattr", vec!["last attribute + 1".into()], false, &[], || sga.verify_multiattr(pa, &ba, &ma2));
    out.check("sig/5-A-under-key-B-bases-A", "verify_multiattr", vec![], false, &[], || sga.verify_multiattr(pb, &ba, &ma));
    out.check("sig/6-A-verifies-again", "verify_multiattr", vec![], true, &[], || sga.verify_multiattr(pa, &ba, &ma));
    // a second signature of the same key on other attributes, then the first again with the second's attributes
    let ma3 = msgs(na, 13);
    let sga3 = Signature::<CL03<CS>>::sign_multiattr(pa, sa, &ba, &ma3);
    out.check("sig/7-A-second-signature", "sign_multiattr;verify_multiattr", vec![], true, &[], || sga3.verify_multiattr(pa, &ba, &ma3));
    out.check("sig/8-first-signature-with-second-attributes", "verify_multiattr", vec![], false, &[], || sga.verify_multiattr(pa, &ba, &ma3));

    // ---- boundary attribute values -----------------------------------------------------------------------------------
    let b1 = Bases::generate(pa, 2);
    for (name, v, ok) in [("zero", Integer::from(0), true), ("one", Integer::from(1), true), ("max", pow2(lm) - 1, true)] {
        let m = vec![CL03Message::new(v.clone()), CL03Message::new(Integer::from(7))];
        let s = match try_call(|| Signature::<CL03<CS>>::sign_multiattr(pa, sa, &b1, &m)) {
            Ok(s) => s,
            Err(e) => {
                out.push(&format!("boundary/{}/sign", name), "sign_multiattr", vec![short(&v)], format!("panic:{}", e), &["expect-accept"]);
                continue;
            }
        };
        out.check(&format!("boundary/{}/verify", name), "sign_multiattr;verify_multiattr", vec![short(&v)], ok, &[], || s.verify_multiattr(pa, &b1, &m));
        // the single-attribute interface on the same boundary value
        match try_call(|| Signature::<CL03<CS>>::sign(pa, sa, &b1, &m[0])) {
            Ok(s1) => {
                out.check(&format!("boundary/{}/single-verify", name), "sign;verify", vec![short(&v)], ok, &[], || s1.verify(pa, &b1, &m[0]));
                out.check(&format!("boundary/{}/single-bytes-roundtrip-verify", name), "to_bytes;from_bytes;verify", vec![short(&v)], ok, &[], || Signature::<CL03<CS>>::from_bytes(&s1.to_bytes()).verify(pa, &b1, &m[0]));
            }
            Err(e) => out.push(&format!("boundary/{}/single-sign", name), "sign", vec![short(&v)], format!("panic:{}", e), &["expect-accept"]),
        }
        let cpk = CL03CommitmentPublicKey::generate::<CS>(Some(pa.N.clone()), Some(2));
        for u in [vec![0usize], vec![1usize], vec![0, 1], vec![]] {
            let rev = pick(&m, &complement(2, &u));
            match try_call(|| PoKSignature::<CL03<CS>>::proof_gen(s.cl03Signature(), &cpk, pa, &b1, &m, &u)) {
                Ok(p) => {
                    out.check(&format!("boundary/{}/spok/U={:?}", name, u), "proof_gen;proof_verify", vec![short(&v)], true, &[], || p.proof_verify(&cpk, pa, &b1, &rev, &u, 2));
                }
                Err(e) => out.push(&format!("boundary/{}/spok/U={:?}/proof_gen", name, u), "proof_gen", vec![short(&v)], format!("panic:{}", e), &["expect-accept"]),
            }
        }
        // issuance with the boundary value hidden
        let u = vec![0usize];
        let c = Commitment::<CL03<CS>>::commit_with_pk(&m, pa, &b1, Some(&u));
        match try_call(|| ZKPoK::<CL03<CS>>::generate_proof(&m, c.cl03Commitment(), None, pa, &b1, None, &u)) {
            Ok(zk) => {
                out.check(&format!("boundary/{}/issue", name), "generate_proof;blind_sign;unblind_sign;verify_multiattr", vec![short(&v)], true, &[], || {
                    let rev = complement(2, &u);
                    let revm = pick(&m, &rev);
                    BlindSignature::<CL03<CS>>::blind_sign(pa, sa, &b1, &zk, Some(&revm), c.cl03Commitment(), None, None, &u, Some(&rev)).unblind_sign(&c).verify_multiattr(pa, &b1, &m)
                });
            }
            Err(e) => out.push(&format!("boundary/{}/issue/generate_proof", name), "generate_proof", vec![short(&v)], format!("panic:{}", e), &["expect-accept"]),
        }
    }

    // ---- proofs of knowledge: two keys, several hidden sets in a row, negatives after positives, larger n ------------
    let nn = if thorough { 7 } else { 6 };
    let bl = Bases::generate(pa, nn);
    let ml = msgs(nn, 14);
    let sl = Signature::<CL03<CS>>::sign_multiattr(pa, sa, &bl, &ml);
    let cpa = CL03CommitmentPublicKey::generate::<CS>(Some(pa.N.clone()), Some(nn));
    let cpb = CL03CommitmentPublicKey::generate::<CS>(Some(pb.N.clone()), Some(nb));
    let sets: Vec<Vec<usize>> = vec![vec![1, 3, 4], vec![nn - 1], vec![0, nn - 1], vec![2], (0..nn).collect()];
    let mut prev: Option<(PoKSignature<CL03<CS>>, Vec<usize>)> = None;
    for (k, u) in sets.iter().enumerate() {
        let rev = pick(&ml, &complement(nn, u));
        let p = match try_call(|| PoKSignature::<CL03<CS>>::proof_gen(sl.cl03Signature(), &cpa, pa, &bl, &ml, u)) {
            Ok(p) => p,
            Err(e) => {
                out.push(&format!("spok/{}-U={:?}/proof_gen", k, u), "proof_gen", vec![], format!("panic:{}", e), &["expect-accept"]);
                continue;
            }
        };
        out.check(&format!("spok/{}-U={:?}/honest", k, u), "proof_gen;proof_verify", vec![format!("n={}", nn)], true, &[], || p.proof_verify(&cpa, pa, &bl, &rev, u, nn));
        if !rev.is_empty() {
            let mut r2 = rev.clone();
            let last = r2.len() - 1;
            r2[last].value += 1;
            out.check(&format!("spok/{}-U={:?}/revealed-changed-after-acceptance", k, u), "proof_verify", vec!["last revealed attribute + 1".into()], false, &[], || p.proof_verify(&cpa, pa, &bl, &r2, u, nn));
        }
        out.check(&format!("spok/{}-U={:?}/other-signer-key-after-acceptance", k, u), "proof_verify", vec![], false, &[], || p.proof_verify(&cpa, pb, &bl, &rev, u, nn));
        // signer keys that share the modulus and differ in b or c (single-field edits of pk), right after the acceptance
        for (fname, delta) in [("b", 1), ("b", -1), ("c", 1), ("N", 2), ("N", -2)] {
            let mut jpk = jv(pa);
            let x = get_int(at(&jpk, &format!("/{}", fname))) + delta;
            set(&mut jpk, &format!("/{}", fname), int_json(&x));
            let pk_e: zkryptium::cl03::keys::CL03PublicKey = from_jv(&jpk);
            out.check(&format!("spok/{}-U={:?}/signer-key-{}{:+}-after-acceptance", k, u, fname, delta), "proof_verify", vec![format!("pk.{} {:+}", fname, delta)], false, &[], || p.proof_verify(&cpa, &pk_e, &bl, &rev, u, nn));
        }
        if let Some((pp, pu)) = &prev {
            // the previous proof (other hidden set) still verifies for ITS statement and not for this one
            let prev_rev = pick(&ml, &complement(nn, pu));
            out.check(&format!("spok/{}-previous-proof-still-verifies", k), "proof_verify", vec![format!("U={:?}", pu)], true, &[], || pp.proof_verify(&cpa, pa, &bl, &prev_rev, pu, nn));
            if pu != u {
                out.check(&format!("spok/{}-previous-proof-under-this-hidden-set", k), "proof_verify", vec![format!("proof for U={:?} checked with U={:?}", pu, u)], false, &[], || pp.proof_verify(&cpa, pa, &bl, &rev, u, nn));
            }
        }
        // activity under the other key in between
        let ub = vec![1usize, 2];
        if let Ok(pbp) = try_call(|| PoKSignature::<CL03<CS>>::proof_gen(sgb.cl03Signature(), &cpb, pb, &bb, &mb, &ub)) {
            let revb = pick(&mb, &complement(nb, &ub));
            out.check(&format!("spok/{}-other-key-in-between", k), "proof_gen;proof_verify", vec![], true, &[], || pbp.proof_verify(&cpb, pb, &bb, &revb, &ub, nb));
        }
        out.check(&format!("spok/{}-U={:?}/verifies-again", k, u), "proof_verify", vec![], true, &[], || p.proof_verify(&cpa, pa, &bl, &rev, u, nn));
        prev = Some((p, u.clone()));
    }

    // ---- issuance: growing hidden sets, two keys, a second issuance right after the first ----------------------------
    let ni = 5usize;
    let bi = Bases::generate(pa, ni);
    let mi = msgs(ni, 15);
    for (k, u) in [vec![2usize], vec![0, 4], vec![1, 2, 3], vec![0, 1, 2, 3, 4], vec![3]].iter().enumerate() {
        let c = Commitment::<CL03<CS>>::commit_with_pk(&mi, pa, &bi, Some(u));
        let cc = c.cl03Commitment();
        let zk = match try_call(|| ZKPoK::<CL03<CS>>::generate_proof(&mi, cc, None, pa, &bi, None, u)) {
            Ok(z) => z,
            Err(e) => {
                out.push(&format!("issue/{}-U={:?}/generate_proof", k, u), "generate_proof", vec![], format!("panic:{}", e), &["expect-accept"]);
                continue;
            }
        };
        out.check(&format!("issue/{}-U={:?}/verify_proof", k, u), "generate_proof;verify_proof", vec![format!("n={}", ni)], true, &[], || zk.verify_proof(cc, None, pa, &bi, None, u));
        out.check(&format!("issue/{}-U={:?}/signature-verifies", k, u), "blind_sign;unblind_sign;verify_multiattr", vec![], true, &[], || {
            let rev = complement(ni, u);
            let revm = pick(&mi, &rev);
            BlindSignature::<CL03<CS>>::blind_sign(pa, sa, &bi, &zk, Some(&revm), cc, None, None, u, Some(&rev)).unblind_sign(&c).verify_multiattr(pa, &bi, &mi)
        });
        // the same proof for another commitment / under the other key, right after the acceptance
        let c2 = Commitment::<CL03<CS>>::commit_with_pk(&msgs(ni, 16), pa, &bi, Some(u));
        out.check(&format!("issue/{}-U={:?}/other-commitment-after-acceptance", k, u), "verify_proof", vec![], false, &[], || zk.verify_proof(c2.cl03Commitment(), None, pa, &bi, None, u));
        out.check(&format!("issue/{}-U={:?}/other-key-after-acceptance", k, u), "verify_proof", vec![], false, &[], || zk.verify_proof(cc, None, pb, &bi, None, u));
        // the issuer itself, asked again with the SAME key, commitment and proof but another statement: it must not sign
        let bi2 = Bases::generate(pa, ni);
        let sign_with = |bases: &Bases, uu: &[usize], ct: Option<&zkryptium::cl03::commitment::CL03Commitment>, tp: Option<&CL03CommitmentPublicKey>| -> bool {
            let rev = complement(ni, uu);
            let revm = pick(&mi, &rev);
            BlindSignature::<CL03<CS>>::blind_sign(pa, sa, bases, &zk, Some(&revm), cc, ct, tp, uu, Some(&rev));
            true
        };
        out.check(&format!("issue/{}-U={:?}/blind_sign-other-bases-after-issuance", k, u), "blind_sign", vec![], false, &[], || sign_with(&bi2, u, None, None));
        let mut u2 = u.clone();
        if u2.len() < ni { let extra = (0..ni).find(|x| !u2.contains(x)).unwrap(); u2[0] = extra; u2.sort(); }
        if u2 != *u {
            out.check(&format!("issue/{}-U={:?}/blind_sign-other-hidden-set-after-issuance", k, u), "blind_sign", vec![format!("{:?}", u2)], false, &[], || sign_with(&bi, &u2, None, None));
        }
        if k == 1 {
            let tp = CL03CommitmentPublicKey::generate::<CS>(None, Some(ni));
            let ct_other = Commitment::<CL03<CS>>::commit_with_commitment_pk(&msgs(ni, 17), &tp, Some(u));
            out.check(&format!("issue/{}-U={:?}/blind_sign-with-unrelated-trusted-commitment-after-issuance", k, u), "blind_sign", vec![], false, &[], || sign_with(&bi, u, Some(ct_other.cl03Commitment()), Some(&tp)));
        }
        out.check(&format!("issue/{}-U={:?}/blind_sign-honest-again", k, u), "blind_sign", vec![], true, &[], || sign_with(&bi, u, None, None));
    }

    // ---- range proofs: several intervals and commitments in a row, negatives after positives -------------------------
    let cpk = CL03CommitmentPublicKey::generate::<CS>(Some(pa.N.clone()), Some(1));
    let (g, h, n) = (&cpk.g_bases[0], &cpk.h, &cpk.N);
    let cases: Vec<(Integer, Integer, Integer)> = vec![
        (Integer::from(0), Integer::from(100), Integer::from(50)),
        (Integer::from(0), Integer::from(100), Integer::from(100)),
        (Integer::from(1000), Integer::from(5096), Integer::from(1000)),
        (Integer::from(0), pow2(lm) - 1, pow2(lm) - 1),
        (Integer::from(0), pow2(lm) - 1, Integer::from(0)),
        (pow2(64), pow2(64) + 1, pow2(64) + 1),
    ];
    let mut prev_rp: Option<(Boudot2000RangeProof, Integer, Integer)> = None;
    for (k, (a, b, x)) in cases.iter().enumerate() {
        let m = vec![CL03Message::new(x.clone())];
        let c = Commitment::<CL03<CS>>::commit_with_commitment_pk(&m, &cpk, None);
        let rp = match try_call(|| Boudot2000RangeProof::prove::<sha2::Sha256>(x, c.cl03Commitment(), g, h, n, a, b)) {
            Ok(p) => p,
            Err(e) => {
                out.push(&format!("range/{}/prove", k), "prove", vec![short(a), short(b), short(x)], format!("panic:{}", e), &["expect-accept"]);
                continue;
            }
        };
        out.check(&format!("range/{}/honest", k), "prove;verify", vec![short(a), short(b), short(x)], true, &[], || rp.verify::<sha2::Sha256>(g, h, n, a, b));
        let b2 = b.clone() + 1;
        out.check(&format!("range/{}/other-upper-bound-after-acceptance", k), "verify", vec![short(a), short(&b2)], false, &[], || rp.verify::<sha2::Sha256>(g, h, n, a, &b2));
        if let Some((pp, pa_, pb_)) = &prev_rp {
            out.check(&format!("range/{}/previous-proof-still-verifies", k), "verify", vec![short(pa_), short(pb_)], true, &[], || pp.verify::<sha2::Sha256>(g, h, n, pa_, pb_));
            if (pa_, pb_) != (a, b) {
                out.check(&format!("range/{}/previous-proof-for-this-interval", k), "verify", vec![short(a), short(b)], false, &[], || pp.verify::<sha2::Sha256>(g, h, n, a, b));
            }
        }
        out.check(&format!("range/{}/verifies-again", k), "verify", vec![], true, &[], || rp.verify::<sha2::Sha256>(g, h, n, a, b));
        prev_rp = Some((rp, a.clone(), b.clone()));
    }

    // ---- a second ciphersuite in the same process, AFTER all the CL1024 activity above ----------------------------------
    second_suite::<CL2048Sha256>(out, "CL2048Sha256", include_str!("../fixtures/cl2048_keypair.json"));
    // which property each probe speaks for (a sweep for property P counts a contradiction only when P is listed)
    for p in out.probes.iter_mut() {
        let id = p["id"].as_str().unwrap_or("").to_string();
        let prop = if id.contains("responses-mask") { "C19" }
            else if id.contains("/spok/") { "C15" }
            else if id.contains("/issue") { "C14" }
            else if id.contains("/range/") { "C16" }
            else if id.contains("/sig/") || id.contains("/boundary/") { "C13" }
            else { "C13" };
        if let Some(t) = p["tags"].as_array_mut() {
            t.push(serde_json::Value::String(format!("prop:{}", prop)));
        }
    }
}

/// sign / present / issue with another ciphersuite (key from a fixture made once by the real KeyPair::generate), with the
/// masking checks of C19 on the presentation: state shared by the suites (a `static` in a generic function is ONE item)
/// shows here
fn second_suite<C: CLCiphersuite>(out: &mut Out, name: &str, key_json: &str)
where
    <C as zkryptium::schemes::algorithms::Ciphersuite>::HashAlg: digest::Digest,
{
    let kp: KeyPair<CL03<C>> = match serde_json::from_str(key_json.trim()) {
        Ok(k) => k,
        Err(e) => {
            out.push(&format!("{}/key-fixture", name), "serde_json", vec![], format!("panic:{}", e), &["expect-accept"]);
            return;
        }
    };
    let (pk, sk) = (kp.public_key(), kp.private_key());
    let n = 3usize;
    let bases = Bases::generate(pk, n);
    let m: Vec<CL03Message> = (0..n).map(|i| CL03Message::map_message_to_integer_as_hash::<C>(&[i as u8, 21])).collect();
    let sig = match try_call(|| Signature::<CL03<C>>::sign_multiattr(pk, sk, &bases, &m)) {
        Ok(s) => s,
        Err(e) => {
            out.push(&format!("{}/sign", name), "sign_multiattr", vec![], format!("panic:{}", e), &["expect-accept"]);
            return;
        }
    };
    out.check(&format!("{}/sig/honest", name), "sign_multiattr;verify_multiattr", vec![], true, &[], || sig.verify_multiattr(pk, &bases, &m));
    let js = jv(&sig);
    let (e, sv) = (get_int(at(&js, "/CL03/e")), get_int(at(&js, "/CL03/s")));
    out.check(&format!("{}/sig/e-length", name), "sign_multiattr", vec![format!("{} bits", e.significant_bits())], true, &[], || e.significant_bits() == <C as CLCiphersuite>::le);
    out.check(&format!("{}/sig/s-length", name), "sign_multiattr", vec![format!("{} bits", sv.significant_bits())], true, &[], || sv.significant_bits() == <C as CLCiphersuite>::ls);
    let cpk = CL03CommitmentPublicKey::generate::<C>(Some(pk.N.clone()), Some(n));
    for u in [vec![0usize, 2], vec![1usize]] {
        let rev = pick(&m, &complement(n, &u));
        let p = match try_call(|| PoKSignature::<CL03<C>>::proof_gen(sig.cl03Signature(), &cpk, pk, &bases, &m, &u)) {
            Ok(p) => p,
            Err(e) => {
                out.push(&format!("{}/spok/U={:?}/proof_gen", name, u), "proof_gen", vec![], format!("panic:{}", e), &["expect-accept"]);
                continue;
            }
        };
        out.check(&format!("{}/spok/U={:?}/honest", name, u), "proof_gen;proof_verify", vec![], true, &[], || p.proof_verify(&cpk, pk, &bases, &rev, &u, n));
        // C19 on this suite: response / challenge and response / response against e, s and the hidden attributes
        let j = jv(&p);
        let ch = get_int(at(&j, "/CL03/spok/challenge"));
        let g = |f: &str| get_int(at(&j, &format!("/CL03/spok/{}", f)));
        let mut secrets: Vec<(String, Integer)> = vec![("e".into(), e.clone()), ("s".into(), sv.clone())];
        for i in &u {
            secrets.push((format!("m[{}]", i), m[*i].value.clone()));
        }
        let mut resp: Vec<(String, Integer)> = ["s_1", "s_2", "s_3", "s_4", "s_6", "s_7", "s_8", "s_9"].iter().map(|f| (f.to_string(), g(f))).collect();
        for k in 0..u.len() {
            resp.push((format!("s_5[{}]", k), get_int(at(&j, &format!("/CL03/spok/s_5/{}", k)))));
        }
        let mut bad: Vec<String> = vec![];
        for (an, a) in &resp {
            for (sn, sx) in &secrets {
                if !crate::issue::masked(a, &ch, sx) {
                    bad.push(format!("floor({}/challenge) ~ {}", an, sn));
                }
            }
            for (bn, b) in &resp {
                if an != bn {
                    for (sn, sx) in &secrets {
                        if !crate::issue::masked(a, b, sx) {
                            bad.push(format!("floor({}/{}) ~ {}", an, bn, sn));
                        }
                    }
                }
            }
        }
        out.push(&format!("{}/spok/U={:?}/responses-mask-their-secrets", name, u), "proof_gen", vec![bad.join("; ")], if bad.is_empty() { "accept".into() } else { "reject".into() }, &["expect-accept", "mask"]);
    }
    // issuance with this suite
    let u = vec![1usize];
    let c = Commitment::<CL03<C>>::commit_with_pk(&m, pk, &bases, Some(&u));
    match try_call(|| ZKPoK::<CL03<C>>::generate_proof(&m, c.cl03Commitment(), None, pk, &bases, None, &u)) {
        Ok(zk) => {
            out.check(&format!("{}/issue/honest", name), "generate_proof;verify_proof;blind_sign;unblind_sign;verify_multiattr", vec![], true, &[], || {
                let rev = complement(n, &u);
                let revm = pick(&m, &rev);
                zk.verify_proof(c.cl03Commitment(), None, pk, &bases, None, &u)
                    && BlindSignature::<CL03<C>>::blind_sign(pk, sk, &bases, &zk, Some(&revm), c.cl03Commitment(), None, None, &u, Some(&rev)).unblind_sign(&c).verify_multiattr(pk, &bases, &m)
            });
        }
        Err(e) => out.push(&format!("{}/issue/generate_proof", name), "generate_proof", vec![], format!("panic:{}", e), &["expect-accept"]),
    }
}
