// C14 — blind issuance for every hidden-attribute set, gated;  C17 / C19 probes on the issuance proof.
use crate::sig::msgs;
use crate::*;
use digest::Digest;
use rug::integer::Order;
use sha2::Sha256;
use zkryptium::{
    cl03::{bases::Bases, commitment::CL03Commitment, keys::CL03CommitmentPublicKey, keys::CL03PublicKey, keys::CL03SecretKey},
    keys::pair::KeyPair,
    schemes::algorithms::CL03,
    schemes::generics::{BlindSignature, Commitment, ZKPoK},
    utils::message::cl03_message::CL03Message,
};

pub fn complement(n: usize, u: &[usize]) -> Vec<usize> {
    (0..n).filter(|i| !u.contains(i)).collect()
}
pub fn pick(m: &[CL03Message], idx: &[usize]) -> Vec<CL03Message> {
    idx.iter().map(|i| m[*i].clone()).collect()
}
pub fn hash_int(s: String) -> Integer {
    Integer::from_digits(Sha256::digest(s).as_slice(), Order::MsfBe)
}

pub struct Ctx {
    pub kp: KeyPair<CL03<CS>>,
    pub kp2: KeyPair<CL03<CS>>,
}

fn issue(pk: &CL03PublicKey, sk: &CL03SecretKey, bases: &Bases, zk: &ZKPoK<CL03<CS>>, m: &[CL03Message], c: &CL03Commitment, ct: Option<&CL03Commitment>,
    cpk: Option<&CL03CommitmentPublicKey>, u: &[usize]) -> BlindSignature<CL03<CS>> {
    let rev = complement(m.len(), u);
    let revm = pick(m, &rev);
    BlindSignature::<CL03<CS>>::blind_sign(pk, sk, bases, zk, Some(&revm), c, ct, cpk, u, Some(&rev))
}

pub fn run(out: &mut Out, thorough: bool) {
    let kp = KeyPair::<CL03<CS>>::generate();
    let kp2 = KeyPair::<CL03<CS>>::generate();
    let (pk, sk) = (kp.public_key(), kp.private_key());
    let nmax = if thorough { 4 } else { 3 };
    for n in 1..=nmax {
        let bases = Bases::generate(pk, n);
        let bases2 = Bases::generate(pk, n);
        let m = msgs(n, 1);
        let m_other = msgs(n, 2);
        let tp = CL03CommitmentPublicKey::generate::<CS>(None, Some(n));
        for u in subsets(n, false) {
            let tag = format!("n={}/U={:?}", n, u);
            let inp = vec![format!("n={}", n), format!("hidden={:?}", u)];
            let c = Commitment::<CL03<CS>>::commit_with_pk(&m, pk, &bases, Some(&u));
            let cc = c.cl03Commitment();
            // ---- honest, without trusted-party commitment --------------------------------------------------------
            let zk = match try_call(|| ZKPoK::<CL03<CS>>::generate_proof(&m, cc, None, pk, &bases, None, &u)) {
                Ok(z) => z,
                Err(e) => {
                    out.push(&format!("{}/honest/generate_proof", tag), "generate_proof", inp.clone(), format!("panic:{}", e), &["expect-accept"]);
                    continue;
                }
            };
            out.check(&format!("{}/honest/verify_proof", tag), "commit_with_pk;generate_proof;verify_proof", inp.clone(), true, &[], || zk.verify_proof(cc, None, pk, &bases, None, &u));
            out.check(&format!("{}/honest/blind_sign-unblind-verify", tag), "blind_sign;unblind_sign;verify_multiattr", inp.clone(), true, &[], || {
                issue(pk, sk, &bases, &zk, &m, cc, None, None, &u).unblind_sign(&c).verify_multiattr(pk, &bases, &m)
            });
            // ---- honest, with trusted-party commitment ---------------------------------------------------------------
            let ct = Commitment::<CL03<CS>>::commit_with_commitment_pk(&m, &tp, Some(&u));
            let cct = ct.cl03Commitment();
            if let Ok(zkt) = try_call(|| ZKPoK::<CL03<CS>>::generate_proof(&m, cc, Some(cct), pk, &bases, Some(&tp), &u)) {
                out.check(&format!("{}/trusted/verify_proof", tag), "generate_proof;verify_proof (with C_trusted)", inp.clone(), true, &[], || zkt.verify_proof(cc, Some(cct), pk, &bases, Some(&tp), &u));
                out.check(&format!("{}/trusted/blind_sign-unblind-verify", tag), "blind_sign;unblind_sign;verify_multiattr (with C_trusted)", inp.clone(), true, &[], || {
                    issue(pk, sk, &bases, &zkt, &m, cc, Some(cct), Some(&tp), &u).unblind_sign(&c).verify_multiattr(pk, &bases, &m)
                });
                let ct2 = Commitment::<CL03<CS>>::commit_with_commitment_pk(&m_other, &tp, Some(&u));
                out.check(&format!("{}/trusted/other-trusted-commitment", tag), "verify_proof", inp.clone(), false, &[], || zkt.verify_proof(cc, Some(ct2.cl03Commitment()), pk, &bases, Some(&tp), &u));
            } else {
                out.push(&format!("{}/trusted/generate_proof", tag), "generate_proof", inp.clone(), "panic:generate_proof".into(), &["expect-accept"]);
            }
            // a trusted commitment is supplied but the proof carries no same-secrets proof for it: must be refused
            out.check(&format!("{}/trusted/missing-trusted-proof", tag), "verify_proof", vec!["C_trusted and its key given, ZKPoK generated without them".into()], false, &[], || zk.verify_proof(cc, Some(cct), pk, &bases, Some(&tp), &u));
            // ---- mismatches: the issuer must not sign ------------------------------------------------------------------
            let c_other = Commitment::<CL03<CS>>::commit_with_pk(&m_other, pk, &bases, Some(&u));
            out.check(&format!("{}/mismatch/other-commitment/verify_proof", tag), "verify_proof", inp.clone(), false, &[], || zk.verify_proof(c_other.cl03Commitment(), None, pk, &bases, None, &u));
            out.check(&format!("{}/mismatch/other-commitment/blind_sign", tag), "blind_sign", inp.clone(), false, &[], || {
                issue(pk, sk, &bases, &zk, &m, c_other.cl03Commitment(), None, None, &u);
                true
            });
            out.check(&format!("{}/mismatch/other-bases", tag), "verify_proof", inp.clone(), false, &[], || zk.verify_proof(cc, None, pk, &bases2, None, &u));
            out.check(&format!("{}/mismatch/other-pk", tag), "verify_proof", inp.clone(), false, &[], || zk.verify_proof(cc, None, kp2.public_key(), &bases, None, &u));
            for u2 in subsets(n, false) {
                if u2 != u && (thorough || u2.len() == u.len() || u2.len() == 1) {
                    out.check(&format!("{}/mismatch/other-U={:?}", tag, u2), "verify_proof", vec![format!("verify with hidden={:?}", u2)], false, &[], || zk.verify_proof(cc, None, pk, &bases, None, &u2));
                }
            }
            // a proof made for another commitment (other attributes): sub-proofs transplanted one group at a time
            let jz = jv(&zk);
            if let Ok(zk_o) = try_call(|| ZKPoK::<CL03<CS>>::generate_proof(&m_other, c_other.cl03Commitment(), None, pk, &bases, None, &u)) {
            let jo = jv(&zk_o);
            for part in ["range_proofs_mi", "proofs_commited_mi", "proof_r", "range_proof_r", "proof_commited_msgs"] {
                let mut t = jz.clone();
                set(&mut t, &format!("/CL03/{}", part), at(&jo, &format!("/CL03/{}", part)).clone());
                let zt: ZKPoK<CL03<CS>> = from_jv(&t);
                out.check(&format!("{}/transplant/{}", tag, part), "verify_proof", vec![format!("{} taken from a proof about other attributes / another commitment", part)], false, &["transplant"], || zt.verify_proof(cc, None, pk, &bases, None, &u));
            }
            // whole blocks (proof of value + its range proof) of the other proof: nothing links them to C
            for (name, parts) in [("per-attribute-block", vec!["proofs_commited_mi", "range_proofs_mi"]), ("r-block", vec!["proof_r", "range_proof_r"])] {
                let mut t = jz.clone();
                for part in parts {
                    set(&mut t, &format!("/CL03/{}", part), at(&jo, &format!("/CL03/{}", part)).clone());
                }
                let zt: ZKPoK<CL03<CS>> = from_jv(&t);
                out.check(&format!("{}/transplant/{}", tag, name), "verify_proof", vec![format!("{} (proof of value together with its range proof) taken from a proof about other attributes / another commitment", name)], false, &["transplant", "unlinked"], || zt.verify_proof(cc, None, pk, &bases, None, &u));
            }
            }
            // field-wise edits of the ZKPoK (+1 on every integer leaf; quick: a sample)
            let mut paths = Vec::new();
            int_paths(&jz, "", &mut paths);
            let step = if thorough { 1 } else { 7 };
            for (k, p) in paths.iter().enumerate() {
                if k % step != 0 || (n > 2 && !thorough && k % 21 != 0) {
                    continue;
                }
                // the embedded commitments' randomness fields are not an input of verification
                let mut t = jz.clone();
                let x = get_int(at(&t, p)) + 1;
                set(&mut t, p, int_json(&x));
                let zt: ZKPoK<CL03<CS>> = from_jv(&t);
                let unused = p.ends_with("/commitment/randomness");
                out.check(&format!("{}/edit{}", tag, p), "verify_proof", vec![format!("{} += 1", p)], false, if unused { &["edit", "unused-field"] } else { &["edit"] }, || zt.verify_proof(cc, None, pk, &bases, None, &u));
            }
            // ---- update of a revealed attribute --------------------------------------------------------------------------
            let rev = complement(n, &u);
            if !rev.is_empty() {
                let bs = match try_call(|| issue(pk, sk, &bases, &zk, &m, cc, None, None, &u)) {
                    Ok(b) => b,
                    Err(_) => continue,
                };
                let mut m_new = m.clone();
                m_new[rev[0]].value += 12345;
                let revm = pick(&m_new, &rev);
                let upd = try_call(|| bs.update_signature(Some(&revm), cc, sk, pk, &bases, Some(&rev)).unblind_sign(&c));
                match upd {
                    Ok(s) => {
                        out.check(&format!("{}/update/new-vector", tag), "update_signature;unblind_sign;verify_multiattr", inp.clone(), true, &[], || s.verify_multiattr(pk, &bases, &m_new));
                        out.check(&format!("{}/update/old-vector", tag), "verify_multiattr", inp.clone(), false, &[], || s.verify_multiattr(pk, &bases, &m));
                    }
                    Err(e) => out.push(&format!("{}/update/new-vector", tag), "update_signature", inp.clone(), format!("panic:{}", e), &["expect-accept"]),
                }
            }
        }
    }
}

/// C17: does the serialized issuance proof contain an opening of a commitment to a hidden secret?
pub fn wire(out: &mut Out, thorough: bool) {
    let kp = KeyPair::<CL03<CS>>::generate();
    let pk = kp.public_key();
    let nmax = if thorough { 3 } else { 2 };
    for n in 1..=nmax {
        let bases = Bases::generate(pk, n);
        let m = msgs(n, 3);
        for u in subsets(n, false) {
            let c = Commitment::<CL03<CS>>::commit_with_pk(&m, pk, &bases, Some(&u));
            let zk = match try_call(|| ZKPoK::<CL03<CS>>::generate_proof(&m, c.cl03Commitment(), None, pk, &bases, None, &u)) {
                Ok(z) => z,
                Err(_) => continue,
            };
            let j: Value = serde_json::from_str(&serde_json::to_string(&zk).unwrap()).unwrap();
            let tag = format!("zkpok/n={}/U={:?}", n, u);
            // every {value, randomness} pair on the wire against every hidden secret and public base pair
            let mut pairs = Vec::new();
            find_pairs(&j, "", &mut pairs);
            let mut secrets: Vec<(String, Integer)> = u.iter().map(|i| (format!("m[{}]", i), m[*i].value.clone())).collect();
            secrets.push(("r (randomness of C)".into(), c.randomness().clone()));
            for (path, val, rnd) in &pairs {
                for (sname, sx) in &secrets {
                    for (bi, a) in bases.0.iter().enumerate() {
                        let opens = powm(a, sx, &pk.N) * powm(&pk.b, rnd, &pk.N) % &pk.N == *val;
                        if opens || bi == 0 {
                            out.push(&format!("{}/opening{}/{}/a_{}", tag, path, sname, bi), "serde_json(ZKPoK)", vec![format!("{} on the wire: value == a_{}^{} * b^randomness ?", path, bi, sname)],
                                if opens { "accept".into() } else { "reject".into() }, &["expect-reject", "opening-on-wire"]);
                        }
                    }
                }
            }
            // dictionary attack with two candidate values for the first hidden attribute
            let i0 = u[0];
            let cands = [m[i0].value.clone(), m[i0].value.clone() + 1];
            let mut identified = false;
            for (_path, val, rnd) in &pairs {
                let hits: Vec<bool> = cands.iter().map(|x| powm(&bases.0[i0], x, &pk.N) * powm(&pk.b, rnd, &pk.N) % &pk.N == *val).collect();
                if hits[0] != hits[1] {
                    identified = true;
                }
            }
            out.push(&format!("{}/dictionary/m[{}]", tag, i0), "serde_json(ZKPoK)", vec!["two candidate values, proof + public parameters only".into()],
                if identified { "accept".into() } else { "reject".into() }, &["expect-reject", "dictionary"]);
        }
    }
}

pub fn find_pairs(v: &Value, pre: &str, out: &mut Vec<(String, Integer, Integer)>) {
    match v {
        Value::Object(m) => {
            if m.len() == 2 && m.contains_key("value") && m.contains_key("randomness") && is_int(&m["value"]) && is_int(&m["randomness"]) {
                out.push((pre.to_string(), get_int(&m["value"]), get_int(&m["randomness"])));
                return;
            }
            for (k, x) in m {
                find_pairs(x, &format!("{}/{}", pre, k), out);
            }
        }
        Value::Array(a) => {
            for (i, x) in a.iter().enumerate() {
                find_pairs(x, &format!("{}/{}", pre, i), out);
            }
        }
        _ => {}
    }
}

/// |floor(s / c) - x| >= 2^64 ?
pub fn masked(s: &Integer, c: &Integer, x: &Integer) -> bool {
    if *c == 0 {
        return true;
    }
    let (q, _) = s.clone().div_rem_floor(c.clone());
    (q - x).abs() >= pow2(64)
}

/// C19: responses of the issuance proof divided by the publicly recomputable challenge
pub fn mask(out: &mut Out, thorough: bool) {
    let kp = KeyPair::<CL03<CS>>::generate();
    let pk = kp.public_key();
    let nmax = if thorough { 3 } else { 2 };
    for n in 1..=nmax {
        let bases = Bases::generate(pk, n);
        let m = msgs(n, 4);
        for u in subsets(n, false) {
            let c = Commitment::<CL03<CS>>::commit_with_pk(&m, pk, &bases, Some(&u));
            let cc = c.cl03Commitment();
            let zk = match try_call(|| ZKPoK::<CL03<CS>>::generate_proof(&m, cc, None, pk, &bases, None, &u)) {
                Ok(z) => z,
                Err(_) => continue,
            };
            let j = jv(&zk);
            let tag = format!("zkpok/n={}/U={:?}", n, u);
            // multi-secret proof: challenge = H(a_i.. || b || C || t)
            let t = get_int(at(&j, "/CL03/proof_commited_msgs/t"));
            let mut s = String::new();
            let ueff: Vec<usize> = if n == 1 { vec![0] } else { u.clone() };
            for i in &ueff {
                s += &bases.0[*i].to_string();
            }
            s += &(pk.b.to_string() + &cc.value.to_string() + &t.to_string());
            let ch = hash_int(s);
            for (k, i) in ueff.iter().enumerate() {
                let s1 = get_int(at(&j, &format!("/CL03/proof_commited_msgs/s1/{}", k)));
                out.push(&format!("{}/multisecrets/s1[{}]/m[{}]", tag, k, i), "generate_proof", vec![format!("floor(s1[{}] / c) vs m[{}]", k, i)],
                    if masked(&s1, &ch, &m[*i].value) { "accept".into() } else { "reject".into() }, &["expect-accept", "mask"]);
            }
            let s2 = get_int(at(&j, "/CL03/proof_commited_msgs/s2"));
            out.push(&format!("{}/multisecrets/s2/r", tag), "generate_proof", vec!["floor(s2 / c) vs randomness of C".into()],
                if masked(&s2, &ch, &cc.randomness) { "accept".into() } else { "reject".into() }, &["expect-accept", "mask"]);
            // per-attribute proofs of value: challenge = H(g1 || h1 || commitment || t)
            for (k, i) in u.iter().enumerate() {
                let base = format!("/CL03/proofs_commited_mi/{}", k);
                let (t, s1, s2) = (get_int(at(&j, &format!("{}/value/t", base))), get_int(at(&j, &format!("{}/value/s1", base))), get_int(at(&j, &format!("{}/value/s2", base))));
                let (cv, cr) = (get_int(at(&j, &format!("{}/commitment/value", base))), get_int(at(&j, &format!("{}/commitment/randomness", base))));
                let ch = hash_int(bases.0[*i].to_string() + &pk.b.to_string() + &cv.to_string() + &t.to_string());
                out.push(&format!("{}/pok_mi[{}]/s1/m[{}]", tag, k, i), "generate_proof", vec![format!("floor(s1 / c) vs m[{}]", i)],
                    if masked(&s1, &ch, &m[*i].value) { "accept".into() } else { "reject".into() }, &["expect-accept", "mask"]);
                if cr != 0 {
                    // (after the repair of F9 the opening randomness is not on the wire: not observable from outside)
                    out.push(&format!("{}/pok_mi[{}]/s2/randomness", tag, k), "generate_proof", vec!["floor(s2 / c) vs commitment randomness".into()],
                        if masked(&s2, &ch, &cr) { "accept".into() } else { "reject".into() }, &["expect-accept", "mask"]);
                }
            }
            // proof of value of r (the randomness of C)
            let (t, s1) = (get_int(at(&j, "/CL03/proof_r/value/t")), get_int(at(&j, "/CL03/proof_r/value/s1")));
            let cv = get_int(at(&j, "/CL03/proof_r/commitment/value"));
            let ch = hash_int(bases.0[0].to_string() + &pk.b.to_string() + &cv.to_string() + &t.to_string());
            out.push(&format!("{}/pok_r/s1/r", tag), "generate_proof", vec!["floor(s1 / c) vs r (randomness of C)".into()],
                if masked(&s1, &ch, &cc.randomness) { "accept".into() } else { "reject".into() }, &["expect-accept", "mask"]);
            // with a trusted-party commitment: the same-secrets proof carries its challenge and one response per hidden attribute
            let tp = CL03CommitmentPublicKey::generate::<CS>(None, Some(n));
            let ct = Commitment::<CL03<CS>>::commit_with_commitment_pk(&m, &tp, Some(&u));
            if let Ok(zkt) = try_call(|| ZKPoK::<CL03<CS>>::generate_proof(&m, cc, Some(ct.cl03Commitment()), pk, &bases, Some(&tp), &u)) {
                let jt = jv(&zkt);
                if !at(&jt, "/CL03/proof_C_Ctrusted").is_null() {
                    let ch = get_int(at(&jt, "/CL03/proof_C_Ctrusted/challenge"));
                    for (k, i) in u.iter().enumerate() {
                        let d = get_int(at(&jt, &format!("/CL03/proof_C_Ctrusted/d/{}", k)));
                        out.push(&format!("{}/trusted/d[{}]/m[{}]", tag, k, i), "generate_proof (with C_trusted)", vec![format!("floor(d[{}] / challenge) vs m[{}]", k, i)],
                            if masked(&d, &ch, &m[*i].value) { "accept".into() } else { "reject".into() }, &["expect-accept", "mask"]);
                    }
                    for (f, secret, what) in [("d_1", cc.randomness.clone(), "randomness of C"), ("d_2", ct.cl03Commitment().randomness.clone(), "randomness of C_trusted")] {
                        let d = get_int(at(&jt, &format!("/CL03/proof_C_Ctrusted/{}", f)));
                        out.push(&format!("{}/trusted/{}", tag, f), "generate_proof (with C_trusted)", vec![format!("floor({} / challenge) vs {}", f, what)],
                            if masked(&d, &ch, &secret) { "accept".into() } else { "reject".into() }, &["expect-accept", "mask"]);
                    }
                }
            }
        }
    }
}
