// C16 — Boudot range proof: in-range values prove, nothing else is accepted.
use crate::*;
use sha2::Sha256;
use zkryptium::{
    cl03::{commitment::CL03Commitment, keys::CL03CommitmentPublicKey, range_proof::Boudot2000RangeProof},
    utils::random::random_bits,
};

const T_: u32 = 128;
const L_: u32 = 40;

fn commit(g: &Integer, h: &Integer, n: &Integer, x: &Integer) -> CL03Commitment {
    let r = random_bits(<CS as CLCiphersuite>::ln);
    CL03Commitment { value: powm(g, x, n) * powm(h, &r, n) % n, randomness: r }
}
fn inv(x: &Integer, n: &Integer) -> Integer {
    x.clone().invert(n).expect("invertible")
}

/// sub-proofs of an honest proof (donor) re-assembled around an arbitrary target commitment e_target - public data only
fn transplant(donor: &Boudot2000RangeProof, e_target: &Integer, g: &Integer, n: &Integer, a: &Integer, b: &Integer) -> Boudot2000RangeProof {
    let mut j = jv(donor);
    let big_t = 2 * (T_ + L_ + 1) + Integer::from(b - a).significant_bits();
    let root = Integer::from(b - a).sqrt();
    let k = pow2(L_ + T_ + big_t / 2 + 1) * &root;
    let aa = pow2(big_t) * a - &k;
    let bb = pow2(big_t) * b + &k;
    let e_prime = powm(e_target, &pow2(big_t), n);
    let e_a = e_prime.clone() * inv(&powm(g, &aa, n), n) % n;
    let e_b = powm(g, &bb, n) * inv(&e_prime, n) % n;
    let ea2 = get_int(at(&j, "/proof_of_tolerance/E_a_2"));
    let eb2 = get_int(at(&j, "/proof_of_tolerance/E_b_2"));
    set(&mut j, "/E", int_json(e_target));
    set(&mut j, "/E_prime", int_json(&e_prime));
    set(&mut j, "/proof_of_tolerance/E_a_1", int_json(&(e_a * inv(&ea2, n) % n)));
    set(&mut j, "/proof_of_tolerance/E_b_1", int_json(&(e_b * inv(&eb2, n) % n)));
    from_jv(&j)
}

pub fn run(out: &mut Out, thorough: bool) {
    let cpk = CL03CommitmentPublicKey::generate::<CS>(None, Some(2));
    let cpk2 = CL03CommitmentPublicKey::generate::<CS>(None, Some(2));
    let (g, h, n) = (&cpk.g_bases[0], &cpk.h, &cpk.N);
    let mut intervals: Vec<(Integer, Integer)> = vec![
        (Integer::from(0), Integer::from(1)),
        (Integer::from(5), Integer::from(7)),
        (Integer::from(10), Integer::from(13)),
        (Integer::from(0), pow2(16)),
        (Integer::from(0), pow2(256) - 1),
        (pow2(257) + 1, pow2(258) - 1),
    ];
    if thorough {
        intervals.push((Integer::from(1000), Integer::from(1000) + pow2(64)));
        intervals.push((Integer::from(0), pow2(1024) - 1));
        intervals.push((Integer::from(3), Integer::from(3) + pow2(8) + 1));
    }
    for (a, b) in &intervals {
        let itag = format!("[{},{}]", short(a), short(b));
        let mid = Integer::from(a + b) / 2;
        let mut xs = vec![a.clone(), a.clone() + 1, mid, b.clone() - 1, b.clone()];
        xs.dedup();
        let mut donor: Option<Boudot2000RangeProof> = None;
        for x in &xs {
            if x < a || x > b {
                continue;
            }
            let c = commit(g, h, n, x);
            let tag = format!("{}/x={}", itag, short(x));
            let p = match try_call(|| Boudot2000RangeProof::prove::<Sha256>(x, &c, g, h, n, a, b)) {
                Ok(p) => p,
                Err(e) => {
                    out.push(&format!("{}/honest", tag), "prove", vec![itag.clone(), short(x)], format!("panic:{}", e), &["expect-accept"]);
                    continue;
                }
            };
            out.check(&format!("{}/honest", tag), "prove;verify", vec![itag.clone(), short(x)], true, &[], || p.verify::<Sha256>(g, h, n, a, b));
            if donor.is_none() {
                // ---- bound to what it was made for ------------------------------------------------------------------
                out.check(&format!("{}/other-bounds-shift", tag), "verify", vec!["[a+1, b+1]".into()], false, &[], || p.verify::<Sha256>(g, h, n, &(a.clone() + 1), &(b.clone() + 1)));
                out.check(&format!("{}/other-bounds-wider", tag), "verify", vec!["[a, b+1]".into()], false, &[], || p.verify::<Sha256>(g, h, n, a, &(b.clone() + 1)));
                out.check(&format!("{}/bases-swapped", tag), "verify", vec!["(h, g)".into()], false, &[], || p.verify::<Sha256>(h, g, n, a, b));
                out.check(&format!("{}/other-base", tag), "verify", vec!["g_1 instead of g_0".into()], false, &[], || p.verify::<Sha256>(&cpk.g_bases[1], h, n, a, b));
                out.check(&format!("{}/other-modulus", tag), "verify", vec![], false, &[], || p.verify::<Sha256>(&cpk2.g_bases[0], &cpk2.h, &cpk2.N, a, b));
                // single-field edits
                let j = jv(&p);
                let mut paths = Vec::new();
                int_paths(&j, "", &mut paths);
                for (k, path) in paths.iter().enumerate() {
                    if !thorough && k % 3 != 0 {
                        continue;
                    }
                    let mut t = j.clone();
                    let y = get_int(at(&t, path)) + 1;
                    set(&mut t, path, int_json(&y));
                    let q: Boudot2000RangeProof = from_jv(&t);
                    // the E carried inside a proof of square must equal E_{a,b}_1: editing it alone must be refused too
                    out.check(&format!("{}/edit{}", tag, path), "verify", vec![format!("{} += 1", path)], false, &["edit"], || q.verify::<Sha256>(g, h, n, a, b));
                }
                // challenges are compared in full: an edit by a multiple of 2^t (t = 128, half the hash length) or of 2^256 must be refused too
                for path in paths.iter().filter(|p| p.ends_with("/C") || p.ends_with("/challenge") || thorough) {
                    for (nm, k) in [("2^128", 128u32), ("2^256", 256u32)] {
                        let mut t = j.clone();
                        let y = get_int(at(&t, path)) + pow2(k);
                        set(&mut t, path, int_json(&y));
                        let q: Boudot2000RangeProof = from_jv(&t);
                        out.check(&format!("{}/edit{}/+{}", tag, path, nm), "verify", vec![format!("{} += {}", path, nm)], false, &["edit"], || q.verify::<Sha256>(g, h, n, a, b));
                    }
                }
                donor = Some(p);
            }
        }
        // ---- transplants: the sub-proofs of an honest proof around a commitment the "prover" knows nothing about ---------
        if let Some(d) = &donor {
            let targets: Vec<(&str, Integer)> = vec![
                ("a-1", commit(g, h, n, &(a.clone() - 1)).value),
                ("b+1", commit(g, h, n, &(b.clone() + 1)).value),
                ("a-2^64", commit(g, h, n, &(a.clone() - pow2(64))).value),
                ("random-element", powm(&random_bits(1000), &Integer::from(2), n)),
            ];
            for (name, et) in targets {
                let f = transplant(d, &et, g, n, a, b);
                out.check(&format!("{}/transplant/{}", itag, name), "verify", vec![format!("sub-proofs of an honest proof re-assembled around a commitment to {}", name)], false, &["transplant", "no-witness"], || f.verify::<Sha256>(g, h, n, a, b));
            }
        }
        // ---- honest prover outside the interval: no accepted proof -------------------------------------------------------------
        for (name, x) in [("a-1", a.clone() - 1), ("b+1", b.clone() + 1)] {
            let c = commit(g, h, n, &x);
            out.check(&format!("{}/outside/{}", itag, name), "prove;verify", vec![format!("x = {}", name)], false, &[], || {
                Boudot2000RangeProof::prove::<Sha256>(&x, &c, g, h, n, a, b).verify::<Sha256>(g, h, n, a, b)
            });
        }
    }
}
