// C13 — CL03 signatures: issued ones verify, nothing else does.
use crate::*;
use rug::integer::IsPrime;
use zkryptium::{
    cl03::{bases::Bases, keys::CL03SecretKey, keys::CL03PublicKey},
    keys::pair::KeyPair,
    schemes::algorithms::CL03,
    schemes::generics::Signature,
    utils::message::cl03_message::CL03Message,
};

pub fn msgs(n: usize, salt: u8) -> Vec<CL03Message> {
    (0..n).map(|i| CL03Message::map_message_to_integer_as_hash::<CS>(&[i as u8, salt])).collect()
}

fn sig_with(sig: &Signature<CL03<CS>>, field: &str, val: &Integer) -> Signature<CL03<CS>> {
    let mut v = jv(sig);
    set(&mut v, &format!("/CL03/{}", field), int_json(val));
    from_jv(&v)
}
fn sig_get(sig: &Signature<CL03<CS>>, field: &str) -> Integer {
    get_int(at(&jv(sig), &format!("/CL03/{}", field)))
}

/// right-hand side prod a_i^m_i * b^s * c mod N
fn rhs(pk: &CL03PublicKey, bases: &Bases, m: &[CL03Message], s: &Integer) -> Integer {
    let mut r = Integer::from(1);
    for (i, x) in m.iter().enumerate() {
        r = r * powm(&bases.0[i], &x.value, &pk.N) % &pk.N;
    }
    r * powm(&pk.b, s, &pk.N) % &pk.N * &pk.c % &pk.N
}
fn phi(sk: &CL03SecretKey) -> Integer {
    (sk.p.clone() - 1) * (sk.q.clone() - 1)
}

pub fn run(out: &mut Out, thorough: bool) {
    let kp = KeyPair::<CL03<CS>>::generate();
    let kp2 = KeyPair::<CL03<CS>>::generate();
    let (pk, sk) = (kp.public_key(), kp.private_key());
    let nmax = if thorough { 4 } else { 3 };
    let le = <CS as CLCiphersuite>::le;
    let lm = <CS as CLCiphersuite>::lm;
    for n in 1..=nmax {
        let bases = Bases::generate(pk, n);
        let bases2 = Bases::generate(pk, n);
        let m = msgs(n, 0);
        let tag = format!("n={}", n);
        // ---- honest -----------------------------------------------------------------------------------------
        if n == 1 {
            let s1 = Signature::<CL03<CS>>::sign(pk, sk, &bases, &m[0]);
            out.check(&format!("{}/single/honest", tag), "sign;verify", vec![short(&m[0].value)], true, &[], || s1.verify(pk, &bases, &m[0]));
            let mut m2 = m[0].clone();
            m2.value += 1;
            out.check(&format!("{}/single/changed", tag), "verify", vec![short(&m2.value)], false, &[], || s1.verify(pk, &bases, &m2));
            // F7 on the single-attribute verifier: (v * a^k, e, s) verifies for m + k*e
            let (e, v) = (sig_get(&s1, "e"), sig_get(&s1, "v"));
            let f = sig_with(&s1, "v", &(v.clone() * &bases.0[0] % &pk.N));
            let mm = CL03Message::new(m[0].value.clone() + &e);
            out.check(&format!("{}/single/malleable-plus-e", tag), "verify", vec![short(&mm.value), "v' = v*a_0 mod N".into()], false, &["malleable", "no-secret-key"], || f.verify(pk, &bases, &mm));
            let ainv = bases.0[0].clone().invert(&pk.N).unwrap();
            let f = sig_with(&s1, "v", &(v.clone() * &ainv % &pk.N));
            let mm = CL03Message::new(m[0].value.clone() - &e);
            out.check(&format!("{}/single/malleable-minus-e", tag), "verify", vec![short(&mm.value), "v' = v*a_0^-1 mod N".into()], false, &["malleable", "no-secret-key"], || f.verify(pk, &bases, &mm));
        }
        let s = Signature::<CL03<CS>>::sign_multiattr(pk, sk, &bases, &m);
        out.check(&format!("{}/multi/honest", tag), "sign_multiattr;verify_multiattr", vec![], true, &[], || s.verify_multiattr(pk, &bases, &m));
        let (e, sv, v) = (sig_get(&s, "e"), sig_get(&s, "s"), sig_get(&s, "v"));
        // e: prime, exactly le bits, coprime to phi(N)
        out.check(&format!("{}/multi/e-wellformed", tag), "sign_multiattr", vec![short(&e)], true, &[], || {
            e.is_probably_prime(40) != IsPrime::No && e.significant_bits() == le && Integer::from(e.gcd_ref(&phi(sk))) == 1
        });
        out.check(&format!("{}/multi/s-length", tag), "sign_multiattr", vec![format!("{} bits", sv.significant_bits())], true, &[], || sv.significant_bits() == <CS as CLCiphersuite>::ls);
        // encodings
        out.check(&format!("{}/multi/bytes-roundtrip", tag), "to_bytes;from_bytes", vec![], true, &[], || Signature::<CL03<CS>>::from_bytes(&s.to_bytes()) == s);
        out.check(&format!("{}/multi/json-roundtrip", tag), "serde_json", vec![], true, &[], || {
            let t: Signature<CL03<CS>> = serde_json::from_str(&serde_json::to_string(&s).unwrap()).unwrap();
            t == s && t.verify_multiattr(pk, &bases, &m)
        });
        // selective disclosure of bases, all subsets
        for u in subsets(n, true) {
            let (sdm, sdb) = s.disclose_selectively(&m, bases.clone(), pk, &u);
            out.check(&format!("{}/multi/disclose/{:?}", tag, u), "disclose_selectively;verify_multiattr", vec![format!("{:?}", u)], true, &[], || s.verify_multiattr(pk, &sdb, &sdm));
        }
        // ---- nothing else verifies ------------------------------------------------------------------------------
        for i in 0..n {
            let mut m2 = m.clone();
            m2[i].value += 1;
            out.check(&format!("{}/multi/changed/{}", tag, i), "verify_multiattr", vec![format!("m[{}] + 1", i)], false, &[], || s.verify_multiattr(pk, &bases, &m2));
            // m_i + k*e with v' = v * a_i^k  (k = 1, 2): derivable without the secret key
            for k in [1u32, 2] {
                let mut m3 = m.clone();
                m3[i].value += e.clone() * k;
                let f = sig_with(&s, "v", &(v.clone() * powm(&bases.0[i], &Integer::from(k), &pk.N) % &pk.N));
                out.check(&format!("{}/multi/malleable-plus-{}e/{}", tag, k, i), "verify_multiattr", vec![format!("m[{}] + {}e, v' = v*a_{}^{}", i, k, i, k)], false, &["malleable", "no-secret-key"], || f.verify_multiattr(pk, &bases, &m3));
            }
            let mut m4 = m.clone();
            m4[i].value -= e.clone();
            let ainv = bases.0[i].clone().invert(&pk.N).unwrap();
            let f = sig_with(&s, "v", &(v.clone() * &ainv % &pk.N));
            out.check(&format!("{}/multi/malleable-minus-e/{}", tag, i), "verify_multiattr", vec![format!("m[{}] - e (negative), v' = v*a_{}^-1", i, i)], false, &["malleable", "no-secret-key"], || f.verify_multiattr(pk, &bases, &m4));
            let mut m5 = m.clone();
            m5[i].value += pow2(lm);
            out.check(&format!("{}/multi/oversized/{}", tag, i), "verify_multiattr", vec![format!("m[{}] + 2^lm", i)], false, &[], || s.verify_multiattr(pk, &bases, &m5));
        }
        if n >= 2 {
            let mut m6 = m.clone();
            m6.swap(0, 1);
            out.check(&format!("{}/multi/swapped", tag), "verify_multiattr", vec!["m[0] <-> m[1]".into()], false, &[], || s.verify_multiattr(pk, &bases, &m6));
            out.check(&format!("{}/multi/truncated", tag), "verify_multiattr", vec!["last attribute dropped".into()], false, &[], || s.verify_multiattr(pk, &bases, &m[..n - 1]));
        }
        for (field, val) in [("e", e.clone() + 2), ("s", sv.clone() + 1), ("v", v.clone() + 1), ("v", Integer::from(1)), ("e", Integer::from(0))] {
            let f = sig_with(&s, field, &val);
            out.check(&format!("{}/multi/edit-{}-{}", tag, field, short(&val)), "verify_multiattr", vec![format!("{} := {}", field, short(&val))], false, &[], || f.verify_multiattr(pk, &bases, &m));
        }
        out.check(&format!("{}/multi/other-bases", tag), "verify_multiattr", vec![], false, &[], || s.verify_multiattr(pk, &bases2, &m));
        out.check(&format!("{}/multi/other-key", tag), "verify_multiattr", vec![], false, &[], || s.verify_multiattr(kp2.public_key(), &bases, &m));
        // exponent outside (2^(le-1), 2^le): made with the secret key, must still be refused by the verifier
        for (name, bits) in [("oversized-e", le + 8), ("undersized-e", 17)] {
            let mut e2 = pow2(bits - 1).next_prime();
            while Integer::from(e2.gcd_ref(&phi(sk))) != 1 {
                e2 = e2.next_prime();
            }
            let d = e2.clone().invert(&phi(sk)).unwrap();
            let v2 = powm(&rhs(pk, &bases, &m, &sv), &d, &pk.N);
            let f = sig_with(&sig_with(&s, "e", &e2), "v", &v2);
            out.check(&format!("{}/multi/{}", tag, name), "verify_multiattr", vec![format!("e' = {} ({} bits), v' = rhs^(1/e')", short(&e2), e2.significant_bits())], false, &["range-e"], || f.verify_multiattr(pk, &bases, &m));
            if n == 1 {
                out.check(&format!("{}/single/{}", tag, name), "verify", vec![format!("e' = {} ({} bits)", short(&e2), e2.significant_bits())], false, &["range-e"], || f.verify(pk, &bases, &m[0]));
            }
        }
    }
}
