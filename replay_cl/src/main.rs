// cl_replay — runs witness families against the REAL zkryptium CL03 code (path dependency on /repo, feature cl03,
// rebuilt from the current working tree on every check).
// Usage: cl_replay <family> [quick|thorough]  -> JSON {family, probes:[{id, call, inputs, outcome, tags}]}
//   outcome: "accept" | "reject" | "panic:<msg>"   (a panic of a verifier / issuer is a refusal)
//   tags:    "expect-accept" | "expect-reject" (+ free-form context tags)
// The Python side (replay/run_replay.py) decides which probes contradict a property and filters the ones that
// /verif/known_findings.json lists by id.
#![allow(non_snake_case)]
use rug::Integer;
use serde::{de::DeserializeOwned, Serialize};
use serde_json::{json, Value};
use std::panic;

mod history;
mod issue;
mod keys;
mod range;
mod sig;
mod spok;

pub use zkryptium::cl03::ciphersuites::{CL1024Sha256, CL2048Sha256, CLCiphersuite};
pub type CS = CL1024Sha256;

pub struct Out {
    pub fam: String,
    pub probes: Vec<Value>,
}

impl Out {
    pub fn push(&mut self, id: &str, call: &str, inputs: Vec<String>, outcome: String, tags: &[&str]) {
        self.probes.push(json!({"id": format!("{}/{}", self.fam, id), "call": call, "inputs": inputs, "outcome": outcome, "tags": tags}));
    }
    /// boolean-valued call: true -> accept, false -> reject, panic -> panic:<msg>
    pub fn check<F: FnOnce() -> bool>(&mut self, id: &str, call: &str, inputs: Vec<String>, expect_accept: bool, extra: &[&str], f: F) -> String {
        let o = guard(f);
        let mut tags: Vec<&str> = vec![if expect_accept { "expect-accept" } else { "expect-reject" }];
        tags.extend_from_slice(extra);
        self.push(id, call, inputs, o.clone(), &tags);
        o
    }
}

pub fn guard<F: FnOnce() -> bool>(f: F) -> String {
    match panic::catch_unwind(panic::AssertUnwindSafe(f)) {
        Ok(true) => "accept".into(),
        Ok(false) => "reject".into(),
        Err(e) => {
            let msg = if let Some(s) = e.downcast_ref::<&str>() {
                s.to_string()
            } else if let Some(s) = e.downcast_ref::<String>() {
                s.clone()
            } else {
                "?".to_string()
            };
            format!("panic:{}", msg.chars().take(120).collect::<String>())
        }
    }
}

pub fn try_call<T, F: FnOnce() -> T>(f: F) -> Result<T, String> {
    panic::catch_unwind(panic::AssertUnwindSafe(f)).map_err(|e| {
        if let Some(s) = e.downcast_ref::<&str>() {
            s.to_string()
        } else if let Some(s) = e.downcast_ref::<String>() {
            s.clone()
        } else {
            "?".to_string()
        }
    })
}

// ---- JSON helpers (private struct fields are reached through their serde form) -------------------------------
pub fn jv<T: Serialize>(x: &T) -> Value {
    serde_json::to_value(x).expect("serialize")
}
pub fn from_jv<T: DeserializeOwned>(v: &Value) -> T {
    serde_json::from_value(v.clone()).expect("deserialize")
}
pub fn is_int(v: &Value) -> bool {
    v.is_object() && v.get("radix").is_some() && v.get("value").is_some() && v.as_object().unwrap().len() == 2
}
pub fn get_int(v: &Value) -> Integer {
    let radix = v["radix"].as_i64().unwrap() as i32;
    Integer::from_str_radix(v["value"].as_str().unwrap(), radix).unwrap()
}
pub fn int_json(i: &Integer) -> Value {
    jv(i)
}
/// paths of all integer leaves
pub fn int_paths(v: &Value, pre: &str, out: &mut Vec<String>) {
    if is_int(v) {
        out.push(pre.to_string());
        return;
    }
    match v {
        Value::Object(m) => {
            for (k, x) in m {
                int_paths(x, &format!("{}/{}", pre, k), out);
            }
        }
        Value::Array(a) => {
            for (i, x) in a.iter().enumerate() {
                int_paths(x, &format!("{}/{}", pre, i), out);
            }
        }
        _ => {}
    }
}
pub fn at<'a>(v: &'a Value, path: &str) -> &'a Value {
    v.pointer(path).unwrap_or_else(|| panic!("no path {}", path))
}
pub fn set(v: &mut Value, path: &str, x: Value) {
    *v.pointer_mut(path).unwrap_or_else(|| panic!("no path {}", path)) = x;
}
pub fn short(i: &Integer) -> String {
    let s = i.to_string_radix(16);
    if s.len() > 24 {
        format!("0x{}..{}({}b)", &s[..8], &s[s.len() - 8..], i.significant_bits())
    } else {
        format!("0x{}", s)
    }
}
pub fn subsets(n: usize, include_empty: bool) -> Vec<Vec<usize>> {
    let mut r = Vec::new();
    for mask in 0..(1u32 << n) {
        if mask == 0 && !include_empty {
            continue;
        }
        r.push((0..n).filter(|i| mask & (1 << i) != 0).collect());
    }
    r
}
pub fn pow2(k: u32) -> Integer {
    Integer::from(1) << k
}
pub fn powm(b: &Integer, e: &Integer, n: &Integer) -> Integer {
    Integer::from(b.pow_mod_ref(e, n).expect("pow_mod"))
}

fn main() {
    if std::env::var("CL_DEBUG").is_err() {
        panic::set_hook(Box::new(|_| {}));
    }
    let args: Vec<String> = std::env::args().collect();
    if args.len() < 2 {
        eprintln!("usage: cl_replay <family> [quick|thorough]");
        std::process::exit(2);
    }
    if args[1] == "gen-key-2048" {
        // one-off: a CL2048Sha256 issuer key made by the real KeyPair::generate (kept as fixtures/cl2048_keypair.json: 2048-bit
        // safe-prime generation takes from ten seconds to minutes, too long for every check)
        let kp = zkryptium::keys::pair::KeyPair::<zkryptium::schemes::algorithms::CL03<CL2048Sha256>>::generate();
        println!("{}", serde_json::to_string(&kp).unwrap());
        return;
    }
    let thorough = args.get(2).map(|s| s == "thorough").unwrap_or(false);
    let mut out = Out { fam: args[1].clone(), probes: Vec::new() };
    match args[1].as_str() {
        "cl_sig" => sig::run(&mut out, thorough),
        "cl_issue" => issue::run(&mut out, thorough),
        "cl_spok" => spok::run(&mut out, thorough),
        "cl_range" => range::run(&mut out, thorough),
        "cl_wire" => {
            issue::wire(&mut out, thorough);
            spok::wire(&mut out, thorough);
        }
        "cl_mask" => {
            issue::mask(&mut out, thorough);
            spok::mask(&mut out, thorough);
        }
        "cl_keys" => keys::run(&mut out, thorough),
        "cl_history" => history::run(&mut out, thorough),
        f => {
            eprintln!("unknown family {}", f);
            std::process::exit(2);
        }
    }
    // the library prints diagnostics on stdout: the result is the line that starts with the marker
    println!("\n@@JSON {}", json!({"family": args[1], "probes": out.probes}));
}
