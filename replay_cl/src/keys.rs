// C18 — keys and parameters are well formed and survive their encodings.
use crate::sig::msgs;
use crate::*;
use rug::integer::IsPrime;
use zkryptium::{
    cl03::{bases::Bases, keys::{CL03CommitmentPublicKey, CL03PublicKey, CL03SecretKey}},
    keys::pair::KeyPair,
    schemes::algorithms::{CL03, CL03_CL1024_SHA256},
    schemes::generics::Signature,
    utils::random::{rand_int, random_bits},
};

fn prime(x: &Integer) -> bool {
    x.is_probably_prime(40) != IsPrime::No
}
fn qr_ok(x: &Integer, n: &Integer, p: &Integer, q: &Integer) -> bool {
    *x > 1 && x < n && Integer::from(x.gcd_ref(n)) == 1 && x.jacobi(p) == 1 && x.jacobi(q) == 1
}

pub fn run(out: &mut Out, thorough: bool) {
    let reps = if thorough { 6 } else { 2 };
    let sec = <CS as CLCiphersuite>::SECPARAM;
    for k in 0..reps {
        let kp = KeyPair::<CL03<CS>>::generate();
        let (pk, sk) = (kp.public_key(), kp.private_key());
        let (p, q) = (&sk.p, &sk.q);
        let tag = format!("key{}", k);
        out.check(&format!("{}/modulus", tag), "KeyPair::generate", vec![], true, &[], || pk.N == Integer::from(p * q) && p != q);
        out.check(&format!("{}/safe-primes", tag), "KeyPair::generate", vec![], true, &[], || {
            prime(p) && prime(q) && prime(&((p.clone() - 1) / 2)) && prime(&((q.clone() - 1) / 2))
        });
        out.check(&format!("{}/prime-sizes", tag), "KeyPair::generate", vec![format!("|p| = {}, |q| = {}", p.significant_bits(), q.significant_bits())], true, &[], || {
            p.significant_bits() == sec + 1 && q.significant_bits() == sec + 1
        });
        out.check(&format!("{}/b-c-quadratic-residues", tag), "KeyPair::generate", vec![], true, &[], || qr_ok(&pk.b, &pk.N, p, q) && qr_ok(&pk.c, &pk.N, p, q));
        let bases = Bases::generate(pk, 4);
        out.check(&format!("{}/bases-quadratic-residues", tag), "Bases::generate", vec![], true, &[], || bases.0.iter().all(|a| qr_ok(a, &pk.N, p, q)));
        let cpk = CL03CommitmentPublicKey::generate::<CS>(Some(pk.N.clone()), Some(3));
        out.check(&format!("{}/commitment-key-issuer-modulus", tag), "CL03CommitmentPublicKey::generate(Some(N))", vec![], true, &[], || {
            cpk.N == pk.N && qr_ok(&cpk.h, &pk.N, p, q) && cpk.g_bases.len() == 3 && cpk.g_bases.iter().all(|g| qr_ok(g, &pk.N, p, q))
        });
        let own = CL03CommitmentPublicKey::generate::<CS>(None, Some(2));
        out.check(&format!("{}/commitment-key-own-modulus", tag), "CL03CommitmentPublicKey::generate(None)", vec![format!("|N| = {}", own.N.significant_bits())], true, &[], || {
            let n = &own.N;
            let ok = |x: &Integer| *x > 1 && x < n && Integer::from(x.gcd_ref(n)) == 1 && x.jacobi(n) == 1;
            (own.N.significant_bits() == 2 * sec + 1 || own.N.significant_bits() == 2 * sec + 2) && ok(&own.h) && own.g_bases.iter().all(ok) && !prime(n)
        });
        // a product of two safe primes of SECPARAM + 1 bits has no small prime factor (the factors are not available for an own modulus)
        for rep in 0..(if thorough { 6 } else { 3 }) {
            let m = if rep == 0 { own.N.clone() } else { CL03CommitmentPublicKey::generate::<CS>(None, Some(1)).N };
            out.check(&format!("{}/commitment-key-own-modulus-no-small-factor/{}", tag, rep), "CL03CommitmentPublicKey::generate(None)", vec!["trial division by the primes below 2^20".into()], true, &[], || {
                let mut pr = Integer::from(2);
                let lim = Integer::from(1u32 << 20);
                while pr < lim {
                    if m.is_divisible(&pr) {
                        return false;
                    }
                    pr = pr.next_prime();
                }
                true
            });
        }
        // encodings
        out.check(&format!("{}/pk-bytes-roundtrip", tag), "CL03PublicKey::to_bytes;from_bytes", vec![], true, &[], || CL03PublicKey::from_bytes::<CL03_CL1024_SHA256>(&pk.to_bytes::<CL03_CL1024_SHA256>()) == *pk);
        out.check(&format!("{}/sk-bytes-roundtrip", tag), "CL03SecretKey::to_bytes;from_bytes", vec![], true, &[], || CL03SecretKey::from_bytes::<CL03_CL1024_SHA256>(&sk.to_bytes::<CL03_CL1024_SHA256>()) == *sk);
        out.check(&format!("{}/serde-roundtrip", tag), "serde_json", vec![], true, &[], || {
            let pk2: CL03PublicKey = serde_json::from_str(&serde_json::to_string(pk).unwrap()).unwrap();
            let sk2: CL03SecretKey = serde_json::from_str(&serde_json::to_string(sk).unwrap()).unwrap();
            let c2: CL03CommitmentPublicKey = serde_json::from_str(&serde_json::to_string(&cpk).unwrap()).unwrap();
            pk2 == *pk && sk2 == *sk && c2 == cpk
        });
        let m = msgs(2, 9);
        let b2 = Bases::generate(pk, 2);
        let s = Signature::<CL03<CS>>::sign_multiattr(pk, sk, &b2, &m);
        out.check(&format!("{}/signature-codecs", tag), "Signature::to_bytes;from_bytes;serde_json", vec![], true, &[], || {
            let t: Signature<CL03<CS>> = serde_json::from_str(&serde_json::to_string(&s).unwrap()).unwrap();
            Signature::<CL03<CS>>::from_bytes(&s.to_bytes()) == s && t == s
        });
    }
    for n in [2u32, 8, 64, 256, 258, 1024, 1536] {
        out.check(&format!("random_bits/{}", n), "random_bits", vec![format!("n = {}", n)], true, &[], || {
            (0..(if thorough { 200 } else { 40 })).all(|_| {
                let r = random_bits(n);
                r.significant_bits() == n
            })
        });
    }
    for (a, b) in [(0i64, 0i64), (0, 1), (-5, 5), (7, 9), (-1000000, -999999)] {
        out.check(&format!("rand_int/[{},{}]", a, b), "rand_int", vec![format!("[{}, {}]", a, b)], true, &[], || {
            (0..(if thorough { 400 } else { 60 })).all(|_| {
                let r = rand_int(Integer::from(a), Integer::from(b));
                r >= a && r <= b
            })
        });
    }
}
