//! Leaf proofs on the REAL zkryptium functions (path dependency on /repo).
//! Loop-free harnesses over the full input domain are complete proofs, not bounded checks.
#![allow(non_snake_case)]

#[cfg(kani)]
mod leaves {
    use zkryptium::utils::util::bbsplus_utils::i2osp;

    /// C10.leaf.i2osp8: for EVERY x: usize, i2osp::<8>(x) is the 8-octet big-endian representation,
    /// i.e. octet 7-k is (x / 256^k) mod 256 — the unrolled form of specs/bbs_spec.rs::i2osp_spec(x, 8).
    #[kani::proof]
    fn i2osp8_spec() {
        let x: usize = kani::any();
        let o = i2osp::<8>(x);
        assert!(o[7] as usize == x % 256);
        assert!(o[6] as usize == (x / 256) % 256);
        assert!(o[5] as usize == (x / 65536) % 256);
        assert!(o[4] as usize == (x / 16777216) % 256);
        assert!(o[3] as usize == (x / 4294967296) % 256);
        assert!(o[2] as usize == (x / 1099511627776) % 256);
        assert!(o[1] as usize == (x / 281474976710656) % 256);
        assert!(o[0] as usize == (x / 72057594037927936) % 256);
    }

    /// C10.leaf.i2osp2: for every x < 65536, i2osp::<2>(x) = [x / 256, x mod 256]
    #[kani::proof]
    fn i2osp2_spec() {
        let x: usize = kani::any();
        kani::assume(x < 65536);
        let o = i2osp::<2>(x);
        assert!(o[1] as usize == x % 256);
        assert!(o[0] as usize == (x / 256) % 256);
    }

    /// C10.leaf.i2osp2_panics: for every x >= 65536, i2osp::<2>(x) panics ("i2osp overflow") — the
    /// precondition assumed by the Verus contract is exactly the function's own assertion.
    #[kani::proof]
    #[kani::should_panic]
    fn i2osp2_panics() {
        let x: usize = kani::any();
        kani::assume(x >= 65536);
        let _ = i2osp::<2>(x);
    }
}
