#!/usr/bin/env python3
"""Leaf proofs on the real functions: Kani harnesses (loop-free, full domain => complete) and
closed-term evaluation of constant facts by the replay driver.  JSON on stdout:
 {cmd, harnesses:[{name,label,status(ok|failed|error),kind,wall_s,bound,output,concrete}]}"""
import json, os, re, subprocess, sys, time

VERIF = os.path.dirname(os.path.dirname(os.path.abspath(__file__)))
KDIR = os.path.join(VERIF, "kani")
TARGET = os.path.join(VERIF, "build", "kani-target")
REPLAY_BIN = os.path.join(VERIF, "build", "replay-target", "release", "zk_replay")

LEAVES = {
    "i2osp": [
        ("i2osp8_spec", "C10.leaf.i2osp8", "kani loop-free, all 2^64 inputs (complete)"),
        ("i2osp2_spec", "C10.leaf.i2osp2", "kani loop-free, all x < 65536 (complete)"),
        ("i2osp2_panics", "C10.leaf.i2osp2_panics", "kani loop-free, all x >= 65536 (complete)"),
    ],
}


def run_kani(h):
    env = dict(os.environ, CARGO_NET_OFFLINE="true", CARGO_TARGET_DIR=TARGET)
    t0 = time.time()
    try:
        p = subprocess.run(["cargo", "kani", "--harness", h], cwd=KDIR, env=env, capture_output=True, text=True, timeout=1500)
    except subprocess.TimeoutExpired:
        return "error", "timeout", time.time() - t0
    out = p.stdout + p.stderr
    if "VERIFICATION:- SUCCESSFUL" in out:
        return "ok", out[-600:], time.time() - t0
    if "VERIFICATION:- FAILED" in out:
        return "failed", out[-3000:], time.time() - t0
    return "error", out[-1500:], time.time() - t0


def main():
    args = sys.argv[1:]
    tier = "quick"
    if "--tier" in args:
        i = args.index("--tier")
        tier = args[i + 1]
        del args[i:i + 2]
    res = {"cmd": "", "harnesses": []}
    cmds = []
    for leaf in args:
        if leaf in LEAVES:
            for h, label, kind in LEAVES[leaf]:
                st, out, w = run_kani(h)
                cmds.append(f"cargo kani --harness {h}")
                res["harnesses"].append({"name": h, "label": label, "status": st, "kind": kind, "wall_s": round(w, 1), "bound": None, "output": out if st != "ok" else "", "concrete": None})
        elif leaf == "consts":
            t0 = time.time()
            env = dict(os.environ, CARGO_NET_OFFLINE="true", CARGO_TARGET_DIR=os.path.join(VERIF, "build", "replay-target"))
            b = subprocess.run(["cargo", "build", "--release", "--offline"], cwd=os.path.join(VERIF, "replay"), env=env, capture_output=True, text=True)
            if b.returncode != 0:
                res["harnesses"].append({"name": "consts", "label": "C11.consts", "status": "error", "kind": "closed-term evaluation", "wall_s": 0, "bound": None, "output": b.stderr[-1500:], "concrete": None})
                continue
            p = subprocess.run([REPLAY_BIN, "consts"], capture_output=True, text=True, timeout=300)
            cmds.append("zk_replay consts")
            try:
                probes = json.loads(p.stdout)["probes"]
            except Exception:
                res["harnesses"].append({"name": "consts", "label": "C11.consts", "status": "error", "kind": "closed-term evaluation", "wall_s": 0, "bound": None, "output": p.stderr[-800:], "concrete": None})
                continue
            bad = [q for q in probes if not q["outcome"].startswith("ok:")]
            res["harnesses"].append({
                "name": f"consts ({len(probes)} closed facts about the real ciphersuite constants)", "label": "C11.consts",
                "status": "ok" if not bad and probes else "failed", "kind": "evaluation of closed terms on the real crate (no input: complete)",
                "wall_s": round(time.time() - t0, 1), "bound": None, "output": json.dumps(bad)[:3000], "concrete": [q["id"] for q in bad] or None})
        else:
            res["harnesses"].append({"name": leaf, "label": "leaf." + leaf, "status": "error", "kind": "?", "wall_s": 0, "bound": None, "output": "unknown leaf", "concrete": None})
    res["cmd"] = "; ".join(cmds)
    print(json.dumps(res))


if __name__ == "__main__":
    main()
