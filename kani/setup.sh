#!/bin/sh
# pre-build the Kani leaf crate (offline) so that the first check does not pay the dependency compile
set -e
cd /verif/kani
CARGO_NET_OFFLINE=true CARGO_TARGET_DIR=/verif/build/kani-target cargo kani --harness i2osp2_spec >/dev/null 2>&1 || true
