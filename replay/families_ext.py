"""Replay plans for labels beyond the codec families: label -> [(family, predicate, description)]."""
import re


def _ok(p):
    return p["outcome"].startswith("ok:")


def _panic(p):
    return p["outcome"].startswith("panic:")


def plan_total(key):
    # C08.<fn>.total for non-decoder entry points
    table = {
        "core_proof_verify": "verify_entry", "proof_verify_init": "verify_entry", "PoKSignature.proof_verify": "verify_entry",
        "PoKSignature.blind_proof_verify": "blind_counts", "PoKSignature.blind_proof_gen": "blind_counts",
        "BlindSignature.blind_sign": "blind_counts", "Commitment.deserialize_and_validate_commit": "blind_counts",
        "core_commit_verify": "blind_counts", "prepare_parameters": "blind_counts", "finalize_blind_sign": "blind_counts",
        "core_proof_gen": "verify_entry", "PoKSignature.proof_gen": "verify_entry",
    }
    fam = table.get(key)
    if fam in ("verify_entry",):
        return [("proof_sound", _viol, "entry point panics / accepts"), ("proof_complete", _viol, "entry point panics / refuses")]
    return [(fam, _panic, "entry point panics")] if fam else []


def _viol(p):
    t = p["tags"]
    o = p["outcome"]
    call = p.get("call", "")
    if call.endswith("from_bytes") or call.endswith("from_coordinates") or call.endswith("from_bytes_be"):
        # decoder probes: never panic; an accepted string must re-encode to itself; forbidden / non-canonical strings must be
        # refused; the honest encoding must be accepted
        if o.startswith("panic:"):
            return True
        ok = o.startswith("ok:")
        if "exact" in t:
            return not (ok and o[3:] == p["inputs"][0])
        if ok and o[3:] != p["inputs"][0]:
            return True
        # (truncations / extensions by whole scalars are valid encodings of OTHER objects for the variable-length codecs:
        #  only the re-encoding test applies to them)
        return ok and any(x.startswith("forbidden") or x in ("noncanonical", "swapped") for x in t)
    if "forgery" in t:
        return o.startswith("ok:") or o.startswith("panic:")
    if "expect-accept" in t or "expect-reject" in t:
        # CL03 probes: a panic of a verifier / issuer is a refusal; edits of fields no verifier reads are not edits of the statement
        if "unused-field" in t:
            return False
        return ("expect-accept" in t and o != "accept") or ("expect-reject" in t and o == "accept")
    return o.startswith("panic:") or ("expect-ok" in t and not o.startswith("ok:")) or ("expect-err" in t and o.startswith("ok:"))


PREFIX_FAMILIES = [
    ("C13.", ["cl_sig"]), ("C14.", ["cl_issue"]), ("C15.", ["cl_spok"]), ("C16.", ["cl_range"]), ("C17.", ["cl_wire"]),
    ("C18.", ["cl_keys", "cl_sig"]), ("C19.", ["cl_mask"]),
    ("C01.core_verify", ["sig_complete", "sig_binding"]), ("C01.verify", ["sig_complete", "sig_binding"]), ("C01.", ["sig_complete"]),
    ("C02.", ["sig_binding"]), ("C10.core_sign", ["sig_complete"]), ("C10.sign", ["sig_complete"]),
    ("C03.", ["proof_complete"]), ("C04.proof_verify", ["proof_sound", "proof_complete", "forgery"]), ("C04.", ["proof_sound", "forgery"]),
    ("C05.cverify", ["blind_sound", "blind_complete"]), ("C05.validate", ["blind_sound", "blind_complete"]), ("C05.bverify", ["blind_sound", "blind_complete"]),
    ("C05.blind_proof_verify", ["blind_sound", "blind_complete"]), ("C05.", ["blind_complete"]), ("C06.", ["blind_sound"]), ("C07.", ["fresh"]), ("C12.", ["update_history", "update_signature"]),
    ("C10.domain", ["sig_complete", "proof_complete"]), ("C10.h2s", ["limits", "sig_complete"]), ("C10.keygen", ["limits", "sig_complete"]), ("C10.challenge", ["proof_complete", "proof_sound"]),
    ("C10.blind_challenge", ["blind_complete", "blind_sound"]), ("C10.generators", ["generators", "sig_complete", "blind_complete"]),
    ("C10.msgs_to_scalars", ["sig_complete", "sig_binding"]), ("C10.map_msg", ["update_history"]), ("C10.", ["sig_complete", "proof_complete"]),
    ("C11.", ["generators", "sig_binding", "proof_sound"]),
]
FN_FAMILIES = [
    ("blind_proof", ["blind_complete", "blind_counts"]), ("blind", ["blind_complete", "blind_sound"]), ("commit", ["blind_complete", "blind_sound"]),
    ("proof_verify", ["proof_sound", "proof_complete"]), ("proof", ["proof_complete", "proof_sound"]),
    ("update_signature", ["update_history", "update_signature"]), ("signature", ["sig_complete", "sig_binding"]),
    ("calculate_domain", ["sig_complete", "proof_complete", "blind_complete"]), ("generators", ["sig_complete", "blind_complete"]),
    ("util", ["sig_complete", "proof_complete", "blind_complete"]), ("message", ["sig_complete"]), ("keys", ["sig_complete"]),
]


def _fams_for_fn(fn):
    for key, fams in FN_FAMILIES:
        if key in (fn or ""):
            return fams
    return []


def plan(label, fn):
    if label.startswith("C08.") and label.endswith(".total"):
        fams = _fams_for_fn(fn)
        return [(f, _viol, "the entry point panics / contradicts the property on this input") for f in fams]
    for pre, fams in PREFIX_FAMILIES:
        if label.startswith(pre):
            out = []
            for f in fams:
                if f == "forgery":
                    out.append((f, lambda p: "forgery" in p["tags"] and _ok(p), "a proof assembled from public data only is accepted"))
                elif f in ("update_signature", "blind_counts"):
                    out.append((f, _panic, "entry point panics"))
                else:
                    out.append((f, _viol, "observed outcome contradicts the property (expect-ok refused / expect-err accepted / panic)"))
            return out
    return _plan_old(label, fn)


def _plan_old(label, fn):
    if label.startswith("C04.verify") or label.startswith("C04.nonidentity") or label.startswith("C04.vinit"):
        return [("forgery", lambda p: "forgery" in p["tags"] and _ok(p), "a proof assembled from public data only is accepted")]
    if label.startswith("C06.") or label.startswith("C05."):
        return [("blind_counts", _panic, "entry point panics")]
    return []
