"""Replay plans for labels beyond the codec families: label -> [(family, predicate, description)]."""
import re


def _ok(p):
    return p["outcome"].startswith("ok:")


def _panic(p):
    return p["outcome"].startswith("panic:")


def plan_total(key):
    # C08.<fn>.total for non-decoder entry points
    table = {
        "core_proof_verify": "verify_entry", "proof_verify_init": "verify_entry", "PoKSignature.proof_verify": "verify_entry",
        "PoKSignature.blind_proof_verify": "blind_counts", "PoKSignature.blind_proof_gen": "blind_counts",
        "BlindSignature.blind_sign": "blind_counts", "Commitment.deserialize_and_validate_commit": "blind_counts",
        "core_commit_verify": "blind_counts", "prepare_parameters": "blind_counts", "finalize_blind_sign": "blind_counts",
        "core_proof_gen": "verify_entry", "PoKSignature.proof_gen": "verify_entry",
    }
    fam = table.get(key)
    return [(fam, _panic, "entry point panics")] if fam else []


def plan(label, fn):
    if label.startswith("C04.verify") or label.startswith("C04.nonidentity") or label.startswith("C04.vinit"):
        return [("forgery", lambda p: "forgery" in p["tags"] and _ok(p), "a proof assembled from public data only is accepted")]
    if label.startswith("C06.") or label.startswith("C05."):
        return [("blind_counts", _panic, "entry point panics")]
    return []
