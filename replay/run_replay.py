#!/usr/bin/env python3
"""Replay search: given a failed obligation label, run its witness family on the REAL crate
(zk_replay, path-dependent on /repo, rebuilt from the current working tree) and report the inputs
whose observed outcome contradicts the clause.

  run_replay.py --label L --fn F --tier quick|thorough     -> JSON {family, tried, failing_inputs:[..]}
  run_replay.py --rerun <replay file>                       -> re-runs the recorded inputs; exit 1 if any still fails
"""
import argparse, json, os, re, subprocess, sys

VERIF = os.path.dirname(os.path.dirname(os.path.abspath(__file__)))
TARGET = os.path.join(VERIF, "build", "replay-target")
BIN = os.path.join(TARGET, "release", "zk_replay")


def build_cl():
    import cl_env
    p = subprocess.run(["cargo", "build", "--release", "--offline"], cwd=os.path.join(VERIF, "replay_cl"), env=cl_env.env(), capture_output=True, text=True)
    if p.returncode != 0:
        return p.stderr[-3000:]
    return None


def build():
    env = dict(os.environ, CARGO_TARGET_DIR=TARGET, CARGO_NET_OFFLINE="true")
    p = subprocess.run(["cargo", "build", "--release", "--offline"], cwd=os.path.join(VERIF, "replay"), env=env, capture_output=True, text=True)
    if p.returncode != 0:
        return p.stderr[-3000:]
    return None


# clause kind -> predicate(probe) -> bool (True = the real code contradicts the clause on this input)
def is_ok(p):
    return p["outcome"].startswith("ok:")


def reenc(p):
    return p["outcome"][3:]


def pred_canonical(p):
    return is_ok(p) and reenc(p) != p["inputs"][0]


def pred_total(p):
    return p["outcome"].startswith("panic:")


def pred_roundtrip(p):
    return "exact" in p["tags"] and not (is_ok(p) and reenc(p) == p["inputs"][0])


def pred_forbidden(tag):
    return lambda p: tag in p["tags"] and is_ok(p)


CODEC_FAMILY = {
    "pk": "pk", "pk_unc": "pk_coord", "pk_coord": "pk_coord", "sk": "sk", "sig": "sig", "pok": "pok", "zkpok": "zkpok",
    "commitment": "commitment", "blindfactor": "blindfactor", "message": "message", "scalar": "blindfactor",
    "parse_g1": "sig_allflips", "parse_g2": "pk", "parse_g2u": "pk_coord",
}
TOTAL_FAMILY = {
    "BBSplusPublicKey.from_bytes": "pk", "BBSplusSecretKey.from_bytes": "sk", "BBSplusSignature.from_bytes": "sig",
    "BBSplusPoKSignature.from_bytes": "pok", "PoKSignature.from_bytes": "pok", "BBSplusZKPoK.from_bytes": "zkpok",
    "BBSplusCommitment.from_bytes": "commitment", "Commitment.from_bytes": "commitment", "BlindFactor.from_bytes": "blindfactor",
    "BBSplusPublicKey.from_coordinates": "pk_coord",
    "Signature.update_signature": "update_signature", "create_generators": "update_signature", "Generators.create": "update_signature",
}


def plan(label, fn):
    """-> list of (family, predicate, description)"""
    m = re.match(r"^C09\.([a-z0-9_]+)\.([a-z_]+)$", label)
    if m and m.group(1) == "parse_g1":
        # the shared G1 point parser: every decoder that uses it, plus the public-data forgery family
        import families_ext
        return [(f, families_ext._viol, "decoder accepts a string that is not the strict encoding of a valid object / forged proof accepted") for f in ("sig", "pok", "commitment", "forgery", "sig_allflips")]
    if m and m.group(1) in CODEC_FAMILY:
        fam = CODEC_FAMILY[m.group(1)]
        kind = m.group(2)
        if kind in ("canonical", "accepts_iff_valid", "value"):
            return [(fam, pred_canonical, "decoder accepts an octet string that is not the encoding of the decoded object")]
        if kind == "accepts_only_valid":
            return [(fam, lambda p: pred_canonical(p) or (is_ok(p) and any(t.startswith("forbidden") or t == "noncanonical" for t in p["tags"])),
                     "decoder accepts an octet string that is not the strict encoding of a valid object")]
        if kind == "accepts_all_valid":
            return [(fam, lambda p: pred_roundtrip(p) or pred_total(p), "decoder refuses (or panics on) input / the honest encoding")]
        if kind == "roundtrip" or kind == "enc":
            return [(fam, pred_roundtrip, "decode(encode(x)) != x")]
        if kind == "forbidden_identity":
            return [(fam, pred_forbidden("forbidden-identity"), "decoder accepts the identity element")]
        if kind == "forbidden_zero_e":
            return [(fam, pred_forbidden("forbidden-zero-e"), "decoder accepts e = 0")]
        return [(fam, pred_canonical, "non-canonical acceptance")]
    m = re.match(r"^C08\.(.+)\.total$", label)
    if m:
        key = m.group(1)
        if key in TOTAL_FAMILY:
            return [(TOTAL_FAMILY[key], pred_total, "entry point panics")]
        import families_ext
        pl = families_ext.plan_total(key)
        return pl if pl else families_ext.plan(label, fn)
    try:
        import families_ext
        return families_ext.plan(label, fn)
    except ImportError:
        return []


CL_BUILT = {}


def run_family(fam, tier):
    if fam.startswith("cl_"):
        import cl_env
        if "done" not in CL_BUILT:
            err = build_cl()
            if err:
                raise RuntimeError("cl_replay does not build against the current tree: " + err)
            CL_BUILT["done"] = True
        p = subprocess.run([cl_env.BIN, fam, tier], capture_output=True, text=True, timeout=3000)
        if p.returncode != 0:
            raise RuntimeError(f"cl_replay {fam} failed: {p.stderr[-500:]}")
        line = [l for l in p.stdout.splitlines() if l.startswith("@@JSON ")][-1]
        return json.loads(line[7:])["probes"]
    p = subprocess.run([BIN, fam, tier], capture_output=True, text=True, timeout=800)
    if p.returncode != 0:
        raise RuntimeError(f"zk_replay {fam} failed: {p.stderr[-500:]}")
    probes = json.loads(p.stdout)["probes"]
    for pr in probes:
        if "driver-error" in pr.get("tags", []) and pr.get("id", "").endswith("-honest-setup-step"):
            # a negative family whose honest setup does not run on this tree cannot say anything: undecided, not a violation
            # (the completeness families report the failed honest operation itself)
            raise RuntimeError(f"zk_replay {fam}: an honest step of the family's setup failed on the current tree: {pr.get('outcome')}")
    return probes


def relevant(p, prop):
    """probes tagged prop:Cxx speak for those properties only; C08 (nothing panics) additionally counts every panic"""
    if prop == "C08":
        # "every entry point returns Ok or Err for every input": only a panic (or a hang, which kills the run) contradicts it
        return str(p.get("outcome", "")).startswith("panic:")
    tags = [t for t in p.get("tags", []) if t.startswith("prop:")]
    if not tags or not prop:
        return True
    return ("prop:" + prop) in tags or (prop == "C08" and str(p.get("outcome", "")).startswith("panic:"))


def main():
    ap = argparse.ArgumentParser()
    ap.add_argument("--label")
    ap.add_argument("--fn", default="")
    ap.add_argument("--tier", default="quick")
    ap.add_argument("--rerun")
    ap.add_argument("--sweep")
    ap.add_argument("--prop", default="", help="count only probes that speak for this property (tags prop:Cxx; untagged probes always count)")
    a = ap.parse_args()
    sys.path.insert(0, os.path.dirname(os.path.abspath(__file__)))
    err = build()
    if err:
        print(json.dumps({"error": "replay driver does not build against the current tree: " + err, "failing_inputs": []}))
        return 0
    if a.rerun:
        doc = json.load(open(a.rerun))
        bad = 0
        cl_cache = {}
        for fi in (doc.get("replay") or {}).get("failing_inputs", []):
            if fi["id"].startswith("cl_"):
                # CL03 probes are identified structurally (keys are drawn afresh): re-run the family and look the probe up
                fam = fi["id"].split("/")[0]
                if fam not in cl_cache:
                    cl_cache[fam] = {}
                    for tier in ("quick", "thorough"):
                        for p in run_family(fam, tier):
                            cl_cache[fam].setdefault(p["id"], p)
                        if all(x["id"] in cl_cache[fam] for x in doc["replay"]["failing_inputs"] if x["id"].startswith(fam + "/")):
                            break
                now = cl_cache[fam].get(fi["id"], {}).get("outcome", "probe-not-found")
                same = now.split(":")[0] == fi["outcome"].split(":")[0]
                bad += 1 if same else 0
                print(f"{fi['id']}: recorded {fi['outcome'][:60]} | now {now[:60]} | {'STILL FAILS' if same else 'changed'}")
                continue
            p = subprocess.run([BIN, "one", fi["call"]] + fi["inputs"], capture_output=True, text=True)
            try:
                now = json.loads(p.stdout)["outcome"]
            except Exception:
                now = "driver-error: " + p.stderr[-200:]
            same = now == fi["outcome"]
            bad += 1 if same else 0
            print(f"{fi['id']}: recorded {fi['outcome'][:60]} | now {now[:60]} | {'STILL FAILS' if same else 'changed'}")
        return 1 if bad else 0
    if a.sweep:
        import families_ext
        tried = 0
        failing = []
        for fam in a.sweep.split(","):
            try:
                probes = run_family(fam, a.tier)
            except Exception as e:
                print(json.dumps({"error": repr(e)[:1500], "failing_inputs": []}))
                return 0
            tried += len(probes)
            for p in probes:
                if families_ext._viol(p) and relevant(p, a.prop) and not any(t.startswith("known-") for t in p["tags"]):
                    failing.append({"id": p["id"], "call": p["call"], "inputs": p["inputs"], "outcome": p["outcome"], "why": "outcome contradicts the property"})
        print(json.dumps({"families": a.sweep.split(","), "tried": tried, "failing_count": len(failing), "failing_inputs": failing[:400]}))
        return 0
    steps = plan(a.label, a.fn)
    tried = 0
    failing = []
    fams = []
    for fam, pred, desc in steps:
        fams.append(fam)
        try:
            probes = run_family(fam, a.tier)
        except Exception as e:
            print(json.dumps({"error": repr(e), "failing_inputs": []}))
            return 0
        tried += len(probes)
        for p in probes:
            if pred(p) and relevant(p, a.prop):
                failing.append({"id": p["id"], "call": p["call"], "inputs": p["inputs"], "outcome": p["outcome"], "why": desc})
    print(json.dumps({"families": fams, "tried": tried, "failing_count": len(failing), "failing_inputs": failing[:12]}))
    return 0


if __name__ == "__main__":
    sys.exit(main())
