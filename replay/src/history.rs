// Family `history`: call histories and sizes far from the fixtures, on the REAL crate.
// Everything runs in ONE thread (plus explicit fresh threads where said), so state kept across calls — caches keyed too
// coarsely, thread-locals, statics shared by the two ciphersuites — shows up as a contradiction of a property that must
// hold "for every call history".  Each probe records the history in its id.
use crate::families::{msgs, HEADER, IKM, PH};
use crate::*;
use elliptic_curve::hash2curve::ExpandMsg;
use serde_json::{json, Value};
use zkryptium::bbsplus::ciphersuites::BbsCiphersuite;

/// `props`: the properties this probe speaks for ("C01,C10"): a sweep for property P counts a contradiction only when P is
/// listed (C08, "never panics", additionally counts every panic)
fn push_p(out: &mut Vec<Value>, props: &str, id: String, call: &str, outcome: String, expect: &str) {
    let mut tags: Vec<String> = vec![expect.to_string()];
    for p in props.split(',') {
        tags.push(format!("prop:{}", p.trim()));
    }
    out.push(json!({"id": id, "call": call, "inputs": [], "outcome": outcome, "tags": tags}));
}

fn res(r: Result<(), ZkError>) -> String {
    match r {
        Ok(()) => "ok:accepted".to_string(),
        Err(e) => format!("err:{e:?}"),
    }
}

/// C01: signatures of suite A keep verifying (same thread and a fresh thread) after suite B was used with other sizes
fn interleave<A: BbsCiphersuite, B: BbsCiphersuite>(an: &str, bn: &str, out: &mut Vec<Value>)
where
    A::Expander: for<'a> ExpandMsg<'a>,
    B::Expander: for<'a> ExpandMsg<'a>,
{
    let ka = KP::<A>::generate(IKM, None, None).unwrap();
    let kb = KP::<B>::generate(IKM, Some(b"b"), None).unwrap();
    let (ma, mb, ma2) = (msgs(3), msgs(6), msgs(8));
    let sa = Sig::<A>::sign(Some(&ma), ka.private_key(), ka.public_key(), Some(HEADER));
    let sb = Sig::<B>::sign(Some(&mb), kb.private_key(), kb.public_key(), Some(HEADER));
    let mut steps: Vec<(String, String)> = vec![];
    match (&sa, &sb) {
        (Ok(sa), Ok(sb)) => {
            steps.push((format!("verify {bn} L=6"), guard(|| res(sb.verify(kb.public_key(), Some(&mb), Some(HEADER))))));
            steps.push((format!("verify {an} L=3 after {bn} activity"), guard(|| res(sa.verify(ka.public_key(), Some(&ma), Some(HEADER))))));
            let sa2 = Sig::<A>::sign(Some(&ma2), ka.private_key(), ka.public_key(), None);
            match &sa2 {
                Ok(s) => steps.push((format!("sign+verify {an} L=8"), guard(|| res(s.verify(ka.public_key(), Some(&ma2), None))))),
                Err(e) => steps.push((format!("sign {an} L=8"), format!("err:{e:?}"))),
            }
            steps.push((format!("verify {bn} L=6 again"), guard(|| res(sb.verify(kb.public_key(), Some(&mb), Some(HEADER))))));
            steps.push((format!("verify {an} L=3 again"), guard(|| res(sa.verify(ka.public_key(), Some(&ma), Some(HEADER))))));
            // a signature made on this (used) thread verifies on a fresh thread
            let (pkb, sbytes, m) = (ka.public_key().to_bytes(), sa.to_bytes(), ma.clone());
            let o = std::thread::spawn(move || {
                guard(move || {
                    let pk = BBSplusPublicKey::from_bytes(&pkb).unwrap();
                    let s = Sig::<A>::from_bytes(&sbytes).unwrap();
                    res(s.verify(&pk, Some(&m), Some(HEADER)))
                })
            })
            .join()
            .unwrap_or_else(|_| "panic:thread".into());
            steps.push((format!("verify {an} L=3 on a fresh thread"), o));
        }
        _ => steps.push(("sign".into(), "err:sign failed".into())),
    }
    for (k, (what, o)) in steps.into_iter().enumerate() {
        push_p(out, "C01,C10,C11", format!("history-interleave-{an}-then-{bn}-step{k}-{}", what.replace(' ', "_")), "sign / verify sequence across suites in one thread", o, "expect-ok");
    }
}

/// C02: every message of a long vector is bound (sizes around multiples of 32)
fn tail_binding<CS: BbsCiphersuite>(name: &str, out: &mut Vec<Value>, thorough: bool)
where
    CS::Expander: for<'a> ExpandMsg<'a>,
{
    let kp = KP::<CS>::generate(IKM, None, None).unwrap();
    let ls: Vec<usize> = if thorough { vec![33, 34, 40, 63, 65, 100] } else { vec![33, 34, 65] };
    for l in ls {
        let m = msgs(l);
        let sig = match Sig::<CS>::sign(Some(&m), kp.private_key(), kp.public_key(), Some(HEADER)) {
            Ok(s) => s,
            Err(e) => {
                push_p(out, "C01", format!("history-{name}-L{l}-sign"), "sign", format!("err:{e:?}"), "expect-ok");
                continue;
            }
        };
        push_p(out, "C01", format!("history-{name}-L{l}-honest"), "verify", guard(|| res(sig.verify(kp.public_key(), Some(&m), Some(HEADER)))), "expect-ok");
        let mut idxs = vec![0usize, 31, 32, l - 2, l - 1];
        idxs.dedup();
        for i in idxs {
            let mut m2 = m.clone();
            m2[i] = b"altered".to_vec();
            push_p(out, "C02", format!("history-{name}-L{l}-message-{i}-altered"), "verify(altered message)", guard(|| res(sig.verify(kp.public_key(), Some(&m2), Some(HEADER)))), "expect-err");
        }
        if l == 33 {
            // long messages: every octet is bound (sizes around 255 / 256 / 1000 octets)
            for len in [255usize, 256, 300, 1000] {
                let mut ml = msgs(2);
                ml[1] = vec![0x5a; len];
                if let Ok(sg) = Sig::<CS>::sign(Some(&ml), kp.private_key(), kp.public_key(), Some(HEADER)) {
                    push_p(out, "C01", format!("history-{name}-message-of-{len}-octets-honest"), "sign+verify", guard(|| res(sg.verify(kp.public_key(), Some(&ml), Some(HEADER)))), "expect-ok");
                    let mut e1 = ml.clone();
                    e1[1][len - 1] ^= 1;
                    push_p(out, "C02", format!("history-{name}-message-of-{len}-octets-last-octet-changed"), "verify(altered message)", guard(|| res(sg.verify(kp.public_key(), Some(&e1), Some(HEADER)))), "expect-err");
                    let mut e2 = ml.clone();
                    e2[1].truncate(len - 1);
                    push_p(out, "C02", format!("history-{name}-message-of-{len}-octets-truncated-by-one"), "verify(altered message)", guard(|| res(sg.verify(kp.public_key(), Some(&e2), Some(HEADER)))), "expect-err");
                    let mut e3 = ml.clone();
                    e3[1].push(0);
                    push_p(out, "C02", format!("history-{name}-message-of-{len}-octets-extended-by-one"), "verify(altered message)", guard(|| res(sg.verify(kp.public_key(), Some(&e3), Some(HEADER)))), "expect-err");
                }
            }
        }
        let mut m3 = m.clone();
        m3.swap(l - 1, l - 2);
        push_p(out, "C02", format!("history-{name}-L{l}-last-two-swapped"), "verify(moved messages)", guard(|| res(sig.verify(kp.public_key(), Some(&m3), Some(HEADER)))), "expect-err");
        push_p(out, "C02", format!("history-{name}-L{l}-last-removed"), "verify(removed message)", guard(|| res(sig.verify(kp.public_key(), Some(&m[..l - 1]), Some(HEADER)))), "expect-err");
    }
}

/// C04: a proof is bound to its header also when the same verifier thread verified before (same pk, same L), large and small L
fn header_history<CS: BbsCiphersuite>(name: &str, out: &mut Vec<Value>)
where
    CS::Expander: for<'a> ExpandMsg<'a>,
{
    let kp = KP::<CS>::generate(IKM, None, None).unwrap();
    for l in [4usize, 40] {
        let m = msgs(l);
        let d = vec![0usize, l - 1];
        let dm = vec![m[0].clone(), m[l - 1].clone()];
        let (h1, h2): (&[u8], &[u8]) = (b"header-one", b"header-two");
        let mk = |h: &[u8]| -> Result<Vec<u8>, String> {
            let sig = Sig::<CS>::sign(Some(&m), kp.private_key(), kp.public_key(), Some(h)).map_err(|e| format!("{e:?}"))?;
            let p = Pok::<CS>::proof_gen(kp.public_key(), &sig.to_bytes(), Some(h), Some(PH), Some(&m), Some(&d)).map_err(|e| format!("{e:?}"))?;
            Ok(p.to_bytes())
        };
        let (p1, p2) = match (mk(h1), mk(h2)) {
            (Ok(a), Ok(b)) => (a, b),
            (a, b) => {
                push_p(out, "C03", format!("history-{name}-L{l}-header-setup"), "sign+proof_gen", format!("err:{:?} {:?}", a.err(), b.err()), "expect-ok");
                continue;
            }
        };
        let ver = |pb: &Vec<u8>, h: Option<&[u8]>| -> String {
            let (pb, dm, d) = (pb.clone(), dm.clone(), d.clone());
            let pk = kp.public_key().clone();
            let h = h.map(|x| x.to_vec());
            guard(move || match Pok::<CS>::from_bytes(&pb) {
                Ok(p) => res(p.proof_verify(&pk, Some(&dm), Some(&d), h.as_deref(), Some(PH))),
                Err(e) => format!("err:decode:{e:?}"),
            })
        };
        let seq: Vec<(&str, String, &str)> = vec![
            ("1-proof1-under-header1", ver(&p1, Some(h1)), "expect-ok"),
            ("2-proof1-under-header2", ver(&p1, Some(h2)), "expect-err"),
            ("3-proof1-without-header", ver(&p1, None), "expect-err"),
            ("4-proof2-under-header2", ver(&p2, Some(h2)), "expect-ok"),
            ("5-proof2-under-header1", ver(&p2, Some(h1)), "expect-err"),
            ("6-proof1-under-header1-again", ver(&p1, Some(h1)), "expect-ok"),
        ];
        for (what, o, exp) in seq {
            push_p(out, if exp == "expect-ok" { "C03" } else { "C04" }, format!("history-{name}-L{l}-header-{what}"), "proof_verify sequence in one thread", o, exp);
        }
    }
}

/// C06: a commitment accepted by suite A is refused by a signer of suite B afterwards (same process), for M = 0, 1, 2
fn cross_replay<A: BbsCiphersuite, B: BbsCiphersuite>(an: &str, bn: &str, out: &mut Vec<Value>)
where
    A::Expander: for<'a> ExpandMsg<'a>,
    B::Expander: for<'a> ExpandMsg<'a>,
{
    let ka = KP::<A>::generate(IKM, None, None).unwrap();
    let kb = KP::<B>::generate(IKM, None, None).unwrap();
    for mm in [0usize, 1, 2] {
        let cm: Vec<Vec<u8>> = (0..mm).map(|i| format!("committed-{i}").into_bytes()).collect();
        let cmo: Option<&[Vec<u8>]> = if cm.is_empty() { None } else { Some(&cm) };
        let cb = match Com::<A>::commit(cmo) {
            Ok((c, _)) => c.to_bytes(),
            Err(e) => {
                push_p(out, "C05", format!("history-replay-{an}-M{mm}-commit"), "commit", format!("err:{e:?}"), "expect-ok");
                continue;
            }
        };
        let m = msgs(1);
        let o1 = guard(|| match BSig::<A>::blind_sign(ka.private_key(), ka.public_key(), Some(&cb), Some(HEADER), Some(&m)) { Ok(_) => "ok:accepted".into(), Err(e) => format!("err:{e:?}") });
        push_p(out, "C05", format!("history-replay-{an}-M{mm}-honest-blind_sign"), "blind_sign", o1, "expect-ok");
        let o2 = guard(|| match BSig::<B>::blind_sign(kb.private_key(), kb.public_key(), Some(&cb), Some(HEADER), Some(&m)) { Ok(_) => "ok:accepted".into(), Err(e) => format!("err:{e:?}") });
        push_p(out, "C06", format!("history-replay-{an}-commitment-M{mm}-to-{bn}-signer-after-acceptance"), "blind_sign (cross-suite replay after an honest acceptance)", o2, "expect-err");
        // a flipped bit after acceptance is still refused by the accepting suite
        let mut bad = cb.clone();
        let n = bad.len();
        bad[n - 1] ^= 1;
        let o3 = guard(|| match BSig::<A>::blind_sign(ka.private_key(), ka.public_key(), Some(&bad), Some(HEADER), Some(&m)) { Ok(_) => "ok:accepted".into(), Err(e) => format!("err:{e:?}") });
        push_p(out, "C06", format!("history-replay-{an}-M{mm}-bitflip-after-acceptance"), "blind_sign(edited commitment)", o3, "expect-err");
    }
}

/// C05: two issuances in a row in one thread, the second with more committed messages (and the reverse order)
fn growing_commitments<CS: BbsCiphersuite>(name: &str, out: &mut Vec<Value>)
where
    CS::Expander: for<'a> ExpandMsg<'a>,
{
    let kp = KP::<CS>::generate(IKM, None, None).unwrap();
    for (k, mm) in [1usize, 3, 2, 6, 0, 4].into_iter().enumerate() {
        let cm: Vec<Vec<u8>> = (0..mm).map(|i| format!("committed-{i}").into_bytes()).collect();
        let cmo: Option<&[Vec<u8>]> = if cm.is_empty() { None } else { Some(&cm) };
        let m = msgs(2);
        let o = guard(|| {
            let (c, b) = match Com::<CS>::commit(cmo) { Ok(x) => x, Err(e) => return format!("err:commit:{e:?}") };
            let bs = match BSig::<CS>::blind_sign(kp.private_key(), kp.public_key(), Some(&c.to_bytes()), Some(HEADER), Some(&m)) { Ok(s) => s, Err(e) => return format!("err:blind_sign:{e:?}") };
            res(bs.verify_blind_sign(kp.public_key(), Some(HEADER), Some(&m), cmo, Some(&b)))
        });
        push_p(out, "C05,C10", format!("history-{name}-issuance-{k}-M{mm}"), "commit + blind_sign + verify_blind_sign sequence", o, "expect-ok");
    }
}

/// C08 / C03 / C05: holder and signer entry points at sizes far above the fixtures return instead of panicking
fn large_sizes<CS: BbsCiphersuite>(name: &str, out: &mut Vec<Value>, thorough: bool)
where
    CS::Expander: for<'a> ExpandMsg<'a>,
{
    let kp = KP::<CS>::generate(IKM, None, None).unwrap();
    let ls: Vec<usize> = if thorough { vec![165, 166, 170, 300, 1400] } else { vec![166, 170] };
    for l in ls {
        let m = msgs(l);
        let o = guard(|| {
            let sig = match Sig::<CS>::sign(Some(&m), kp.private_key(), kp.public_key(), Some(HEADER)) { Ok(s) => s, Err(e) => return format!("err:sign:{e:?}") };
            let p = match Pok::<CS>::proof_gen(kp.public_key(), &sig.to_bytes(), Some(HEADER), Some(PH), Some(&m), None) { Ok(p) => p, Err(e) => return format!("err:proof_gen:{e:?}") };
            res(p.proof_verify(kp.public_key(), None, None, Some(HEADER), Some(PH)))
        });
        push_p(out, "C03", format!("history-{name}-proof-all-hidden-L{l}"), "sign + proof_gen + proof_verify, nothing disclosed", o, "expect-ok");
        let o = guard(|| {
            let (c, b) = match Com::<CS>::commit(Some(&m)) { Ok(x) => x, Err(e) => return format!("err:commit:{e:?}") };
            let bs = match BSig::<CS>::blind_sign(kp.private_key(), kp.public_key(), Some(&c.to_bytes()), Some(HEADER), None) { Ok(s) => s, Err(e) => return format!("err:blind_sign:{e:?}") };
            res(bs.verify_blind_sign(kp.public_key(), Some(HEADER), None, Some(&m), Some(&b)))
        });
        push_p(out, "C05", format!("history-{name}-commit-M{l}"), "commit + blind_sign + verify_blind_sign, many committed messages", o, "expect-ok");
    }
}

pub fn run(out: &mut Vec<Value>, thorough: bool) {
    interleave::<Sha, Shake>("sha256", "shake256", out);
    interleave::<Shake, Sha>("shake256", "sha256", out);
    tail_binding::<Sha>("sha256", out, thorough);
    tail_binding::<Shake>("shake256", out, thorough);
    header_history::<Sha>("sha256", out);
    header_history::<Shake>("shake256", out);
    cross_replay::<Sha, Shake>("sha256", "shake256", out);
    cross_replay::<Shake, Sha>("shake256", "sha256", out);
    growing_commitments::<Sha>("sha256", out);
    growing_commitments::<Shake>("shake256", out);
    large_sizes::<Sha>("sha256", out, thorough);
    large_sizes::<Shake>("shake256", out, thorough);
}
