// zk_replay — runs witness families against the REAL zkryptium crate (path dependency on /repo).
// Usage: zk_replay <family> [quick|thorough]   -> JSON {family, probes:[{id, call, inputs, outcome, tags}]}
//        zk_replay one <call> <hex input> ...  -> outcome of a single recorded input
// The Python side (run_replay.py) decides, per obligation label, which outcomes contradict the clause.
#![allow(non_snake_case)]
use serde_json::{json, Value};
use std::panic;
use zkryptium::bbsplus::commitment::{BBSplusCommitment, BlindFactor};
use zkryptium::bbsplus::keys::{BBSplusPublicKey, BBSplusSecretKey};
use zkryptium::bbsplus::proof::{BBSplusPoKSignature, BBSplusZKPoK};
use zkryptium::bbsplus::signature::BBSplusSignature;
use zkryptium::keys::pair::KeyPair;
use zkryptium::schemes::algorithms::{BBSplus, BbsBls12381Sha256, BbsBls12381Shake256};
use zkryptium::bbsplus::ciphersuites::{Bls12381Sha256, Bls12381Shake256};
use zkryptium::schemes::generics::{BlindSignature, Commitment, PoKSignature, Signature};
use zkryptium::utils::message::bbsplus_message::BBSplusMessage;

mod families;
mod history;
mod props;

pub type Sha = Bls12381Sha256;
pub type Shake = Bls12381Shake256;

pub fn guard<F: FnOnce() -> String>(f: F) -> String {
    match panic::catch_unwind(panic::AssertUnwindSafe(f)) {
        Ok(s) => s,
        Err(e) => {
            let msg = if let Some(s) = e.downcast_ref::<&str>() {
                s.to_string()
            } else if let Some(s) = e.downcast_ref::<String>() {
                s.clone()
            } else {
                "?".to_string()
            };
            format!("panic:{}", msg)
        }
    }
}

/// decode `input` with decoder `call`; Ok -> "ok:<hex of re-encoding>"
pub fn decode_call(call: &str, input: &[u8]) -> String {
    let call = call.to_string();
    let input = input.to_vec();
    guard(move || {
        let r: Result<Vec<u8>, String> = match call.as_str() {
            "pk.from_bytes" => BBSplusPublicKey::from_bytes(&input).map(|x| x.to_bytes().to_vec()).map_err(|e| format!("{e:?}")),
            "pk.from_coordinates" => {
                if input.len() != 192 {
                    Err("driver: need 192 bytes".into())
                } else {
                    let x: [u8; 96] = input[..96].try_into().unwrap();
                    let y: [u8; 96] = input[96..].try_into().unwrap();
                    BBSplusPublicKey::from_coordinates(&x, &y)
                        .map(|k| {
                            let (a, b) = k.to_coordinates();
                            [a.to_vec(), b.to_vec()].concat()
                        })
                        .map_err(|e| format!("{e:?}"))
                }
            }
            "sk.from_bytes" => BBSplusSecretKey::from_bytes(&input).map(|x| x.to_bytes().to_vec()).map_err(|e| format!("{e:?}")),
            "sig.from_bytes" => match <[u8; 80]>::try_from(&input[..]) {
                Ok(a) => BBSplusSignature::from_bytes(&a).map(|x| x.to_bytes().to_vec()).map_err(|e| format!("{e:?}")),
                Err(_) => Err("driver: need 80 bytes".into()),
            },
            "pok.from_bytes" => BBSplusPoKSignature::from_bytes(&input).map(|x| x.to_bytes()).map_err(|e| format!("{e:?}")),
            "zkpok.from_bytes" => BBSplusZKPoK::from_bytes(&input).map(|x| x.to_bytes()).map_err(|e| format!("{e:?}")),
            "commitment.from_bytes" => BBSplusCommitment::from_bytes(&input).map(|x| x.to_bytes()).map_err(|e| format!("{e:?}")),
            "blindfactor.from_bytes" => match <[u8; 32]>::try_from(&input[..]) {
                Ok(a) => BlindFactor::from_bytes(&a).map(|x| x.to_bytes().to_vec()).map_err(|e| format!("{e:?}")),
                Err(_) => Err("driver: need 32 bytes".into()),
            },
            "message.from_bytes_be" => match <[u8; 32]>::try_from(&input[..]) {
                Ok(a) => BBSplusMessage::from_bytes_be(&a).map(|x| x.to_bytes_be().to_vec()).map_err(|e| format!("{e:?}")),
                Err(_) => Err("driver: need 32 bytes".into()),
            },
            _ => Err(format!("driver: unknown call {call}")),
        };
        match r {
            Ok(b) => format!("ok:{}", hex::encode(b)),
            Err(e) => format!("err:{e}"),
        }
    })
}

fn main() {
    panic::set_hook(Box::new(|_| {}));
    let args: Vec<String> = std::env::args().collect();
    if args.len() < 2 {
        eprintln!("usage: zk_replay <family> [tier] | one <call> <hex>...");
        std::process::exit(2);
    }
    if args[1] == "one" {
        let call = &args[2];
        let ins: Vec<Vec<u8>> = args[3..].iter().map(|h| hex::decode(h).expect("hex")).collect();
        let out = families::run_one(call, &ins);
        println!("{}", json!({"call": call, "outcome": out}));
        return;
    }
    let thorough = args.get(2).map(|s| s == "thorough").unwrap_or(false);
    // an honest step of a family's setup that panics or refuses on the real code (unwrap in the driver) must not kill the run
    // silently: completeness families report it as a failed honest operation, the others as a driver error (undecided)
    let fam = args[1].clone();
    let probes: Vec<Value> = match panic::catch_unwind(|| families::run_family(&fam, thorough)) {
        Ok(p) => p,
        Err(e) => {
            let msg = if let Some(s) = e.downcast_ref::<&str>() { s.to_string() } else if let Some(s) = e.downcast_ref::<String>() { s.clone() } else { "?".to_string() };
            let positive = ["sig_complete", "proof_complete", "blind_complete", "update_history", "fresh", "generators", "history", "limits"].contains(&fam.as_str());
            vec![json!({"id": format!("{}-honest-setup-step", fam), "call": "honest operation in the family's setup", "inputs": [],
                "outcome": format!("panic:{}", msg.chars().take(200).collect::<String>()), "tags": [if positive { "expect-ok" } else { "driver-error" }]})]
        }
    };
    println!("{}", json!({"family": args[1], "probes": probes}));
}

// re-exports for families.rs
pub use zkryptium::errors::Error as ZkError;
pub type KP<CS> = KeyPair<BBSplus<CS>>;
pub type Sig<CS> = Signature<BBSplus<CS>>;
pub type Pok<CS> = PoKSignature<BBSplus<CS>>;
pub type Com<CS> = Commitment<BBSplus<CS>>;
pub type BSig<CS> = BlindSignature<BBSplus<CS>>;
#[allow(dead_code)]
pub type _A = (BbsBls12381Sha256, BbsBls12381Shake256);
