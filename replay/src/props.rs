// Property-level witness families: honest runs and single edits on the REAL crate.
// Every probe records what was called, with which inputs, and the observed outcome; tags say which
// outcome the property requires ("expect-ok" / "expect-err").
use crate::families::{msgs, HEADER, IKM, PH};
use crate::*;
use elliptic_curve::hash2curve::ExpandMsg;
use serde_json::{json, Value};
use zkryptium::bbsplus::ciphersuites::BbsCiphersuite;

fn res(r: Result<(), ZkError>) -> String {
    match r {
        Ok(()) => "ok:accepted".to_string(),
        Err(e) => format!("err:{e:?}"),
    }
}

fn push(out: &mut Vec<Value>, id: String, call: &str, inputs: Vec<String>, outcome: String, expect: &str) {
    out.push(json!({"id": id, "call": call, "inputs": inputs, "outcome": outcome, "tags": [expect]}));
}

fn hdr_variants() -> Vec<(&'static str, Option<Vec<u8>>)> {
    vec![("none", None), ("empty", Some(vec![])), ("bytes", Some(HEADER.to_vec()))]
}

fn subsets(l: usize) -> Vec<Vec<usize>> {
    (0..(1usize << l)).map(|mask| (0..l).filter(|i| mask & (1 << i) != 0).collect()).collect()
}

pub fn sig_complete<CS: BbsCiphersuite>(name: &str, out: &mut Vec<Value>, thorough: bool)
where
    CS::Expander: for<'a> ExpandMsg<'a>,
{
    // key material of exactly 32 octets (the minimum), with and without key_info / key_dst: a key pair that signs and verifies
    for (kn, ki, kd) in [("plain", None, None), ("info", Some(b"key-info".to_vec()), None), ("info+dst", Some(b"key-info".to_vec()), Some(b"custom-key-dst_".to_vec()))] {
        let o = guard(move || {
            let k = match KP::<CS>::generate(&[7u8; 32], ki.as_deref(), kd.as_deref()) { Ok(k) => k, Err(e) => return format!("err:generate:{e:?}") };
            let m = msgs(2);
            match Sig::<CS>::sign(Some(&m), k.private_key(), k.public_key(), None) {
                Ok(s) => match s.verify(k.public_key(), Some(&m), None) { Ok(()) => "ok:accepted".to_string(), Err(e) => format!("err:verify:{e:?}") },
                Err(e) => format!("err:sign:{e:?}"),
            }
        });
        push(out, format!("{name}-key-material-32-octets-{kn}"), "KeyPair::generate(32 octets) + sign + verify", vec![kn.to_string()], o, "expect-ok");
    }
    let kp = KP::<CS>::generate(IKM, None, None).unwrap();
    let ls: Vec<usize> = if thorough { vec![0, 1, 2, 3, 5, 11, 31, 32, 33, 64, 70, 100, 200] } else { vec![0, 1, 2, 5, 31, 32, 33, 70] };
    for l in ls {
        let m = msgs(l);
        for (hn, h) in hdr_variants() {
            for mopt in ["some", "none"] {
                if mopt == "none" && l != 0 {
                    continue;
                }
                let (m2, h2, pkb, skb) = (m.clone(), h.clone(), kp.public_key().to_bytes(), kp.private_key().to_bytes());
                let outcome = guard(move || {
                    let pk = BBSplusPublicKey::from_bytes(&pkb).unwrap();
                    let sk = BBSplusSecretKey::from_bytes(&skb).unwrap();
                    let mo: Option<&[Vec<u8>]> = if mopt == "none" { None } else { Some(&m2) };
                    let sig = match Sig::<CS>::sign(mo, &sk, &pk, h2.as_deref()) {
                        Ok(s) => s,
                        Err(e) => return format!("err:sign:{e:?}"),
                    };
                    if let Err(e) = sig.verify(&pk, mo, h2.as_deref()) {
                        return format!("err:verify:{e:?}");
                    }
                    let rt = match Sig::<CS>::from_bytes(&sig.to_bytes()) {
                        Ok(s) => s,
                        Err(e) => return format!("err:from_bytes:{e:?}"),
                    };
                    if let Err(e) = rt.verify(&pk, mo, h2.as_deref()) {
                        return format!("err:verify-after-roundtrip:{e:?}");
                    }
                    // absent == empty
                    let other_h: Option<&[u8]> = match &h2 { None => Some(&[]), Some(v) if v.is_empty() => None, Some(v) => Some(v) };
                    if let Err(e) = sig.verify(&pk, mo, other_h) {
                        return format!("err:verify-absent-vs-empty-header:{e:?}");
                    }
                    if m2.is_empty() {
                        let other_m: Option<&[Vec<u8>]> = if mo.is_none() { Some(&[]) } else { None };
                        if let Err(e) = sig.verify(&pk, other_m, h2.as_deref()) {
                            return format!("err:verify-absent-vs-empty-messages:{e:?}");
                        }
                    }
                    "ok:accepted".to_string()
                });
                push(out, format!("{name}-L{l}-hdr-{hn}-msgs-{mopt}"), "sign+verify+roundtrip", vec![format!("L={l}"), format!("header={hn}")], outcome, "expect-ok");
            }
        }
    }
}

pub fn sig_binding<CS: BbsCiphersuite>(name: &str, out: &mut Vec<Value>, thorough: bool)
where
    CS::Expander: for<'a> ExpandMsg<'a>,
{
    let kp = KP::<CS>::generate(IKM, None, None).unwrap();
    let kp2 = KP::<CS>::generate(IKM, Some(b"other"), None).unwrap();
    let m = msgs(3);
    let sig = Sig::<CS>::sign(Some(&m), kp.private_key(), kp.public_key(), Some(HEADER)).unwrap();
    let sb = sig.to_bytes();
    let pkb = kp.public_key().to_bytes();
    let pk2b = kp2.public_key().to_bytes();
    let mut cases: Vec<(String, Vec<Vec<u8>>, Option<Vec<u8>>, Vec<u8>, Vec<u8>)> = vec![];
    let mut m_byte = m.clone();
    m_byte[1][0] ^= 1;
    cases.push(("message-byte-changed".into(), m_byte, Some(HEADER.to_vec()), pkb.to_vec(), sb.to_vec()));
    cases.push(("message-removed".into(), m[..2].to_vec(), Some(HEADER.to_vec()), pkb.to_vec(), sb.to_vec()));
    let mut m_add = m.clone();
    m_add.push(b"extra".to_vec());
    cases.push(("message-added".into(), m_add, Some(HEADER.to_vec()), pkb.to_vec(), sb.to_vec()));
    let mut m_sw = m.clone();
    m_sw.swap(0, 2);
    cases.push(("messages-swapped".into(), m_sw, Some(HEADER.to_vec()), pkb.to_vec(), sb.to_vec()));
    cases.push(("no-messages".into(), vec![], Some(HEADER.to_vec()), pkb.to_vec(), sb.to_vec()));
    // octet-level edits that a text canonicalisation would hide: leading / trailing whitespace, zero octets, letter case
    for (wn, edit) in [("leading-space-added", b" message-1".to_vec()), ("leading-newline-added", b"\nmessage-1".to_vec()), ("trailing-space-added", b"message-1 ".to_vec()),
                       ("trailing-zero-added", b"message-1\0".to_vec()), ("leading-zero-added", b"\0message-1".to_vec()), ("case-changed", b"Message-1".to_vec())] {
        let mut mw = m.clone();
        mw[1] = edit;
        cases.push((format!("message-{wn}"), mw, Some(HEADER.to_vec()), pkb.to_vec(), sb.to_vec()));
    }
    cases.push(("header-changed".into(), m.clone(), Some(b"other header".to_vec()), pkb.to_vec(), sb.to_vec()));
    cases.push(("header-absent".into(), m.clone(), None, pkb.to_vec(), sb.to_vec()));
    cases.push(("header-empty".into(), m.clone(), Some(vec![]), pkb.to_vec(), sb.to_vec()));
    cases.push(("other-pk".into(), m.clone(), Some(HEADER.to_vec()), pk2b.to_vec(), sb.to_vec()));
    let step = 1;
    let _ = thorough;
    let mut i = 0;
    while i < 640 {
        let mut s2 = sb.to_vec();
        s2[i / 8] ^= 1 << (i % 8);
        cases.push((format!("sig-bitflip-{i}"), m.clone(), Some(HEADER.to_vec()), pkb.to_vec(), s2));
        i += step;
    }
    {
        let mut mp = m.clone();
        mp[1] = b" \t message-1".to_vec();
        let sp = Sig::<CS>::sign(Some(&mp), kp.private_key(), kp.public_key(), Some(HEADER)).unwrap().to_bytes();
        let mut stripped = mp.clone();
        stripped[1] = b"message-1".to_vec();
        cases.push(("leading-whitespace-stripped".into(), stripped, Some(HEADER.to_vec()), pkb.to_vec(), sp.to_vec()));
        let mut one = mp.clone();
        one[1] = b"\t message-1".to_vec();
        cases.push(("one-leading-whitespace-octet-removed".into(), one, Some(HEADER.to_vec()), pkb.to_vec(), sp.to_vec()));
    }
    for (id, mm, hh, pkk, ss) in cases {
        let outcome = guard(move || {
            let pk = match BBSplusPublicKey::from_bytes(&pkk) { Ok(p) => p, Err(e) => return format!("err:pk:{e:?}") };
            let arr: [u8; 80] = ss.as_slice().try_into().unwrap();
            let s = match Sig::<CS>::from_bytes(&arr) { Ok(s) => s, Err(e) => return format!("err:decode:{e:?}") };
            res(s.verify(&pk, Some(&mm), hh.as_deref()))
        });
        push(out, format!("{name}-{id}"), "verify(edited)", vec![id.clone()], outcome, "expect-err");
    }
    // cross-interface: a plain signature must not verify through the blind interface and vice versa
    let (m2, pkb2, sb2) = (m.clone(), pkb.to_vec(), sb.to_vec());
    let outcome = guard(move || {
        let pk = BBSplusPublicKey::from_bytes(&pkb2).unwrap();
        let arr: [u8; 80] = sb2.as_slice().try_into().unwrap();
        let b = BSig::<CS>::from_bytes(&arr).unwrap();
        res(b.verify_blind_sign(&pk, Some(HEADER), Some(&m2), None, None))
    });
    push(out, format!("{name}-cross-interface-plain-as-blind"), "verify_blind_sign(plain signature)", vec![], outcome, "expect-err");
}

pub fn cross_suite(out: &mut Vec<Value>) {
    let kp = KP::<Sha>::generate(IKM, None, None).unwrap();
    let m = msgs(2);
    let sig = Sig::<Sha>::sign(Some(&m), kp.private_key(), kp.public_key(), Some(HEADER)).unwrap();
    let (sb, pkb, m2) = (sig.to_bytes(), kp.public_key().to_bytes(), m.clone());
    let outcome = guard(move || {
        let pk = BBSplusPublicKey::from_bytes(&pkb).unwrap();
        let s = Sig::<Shake>::from_bytes(&sb).unwrap();
        res(s.verify(&pk, Some(&m2), Some(HEADER)))
    });
    push(out, "cross-suite-sha-signature-under-shake".into(), "verify", vec![], outcome, "expect-err");
    let proof = Pok::<Sha>::proof_gen(kp.public_key(), &sig.to_bytes(), Some(HEADER), Some(PH), Some(&m), Some(&[0usize])).unwrap();
    let (pb, pkb, m0) = (proof.to_bytes(), kp.public_key().to_bytes(), m[0].clone());
    let outcome = guard(move || {
        let pk = BBSplusPublicKey::from_bytes(&pkb).unwrap();
        let p = Pok::<Shake>::from_bytes(&pb).unwrap();
        res(p.proof_verify(&pk, Some(&[m0]), Some(&[0usize]), Some(HEADER), Some(PH)))
    });
    push(out, "cross-suite-sha-proof-under-shake".into(), "proof_verify", vec![], outcome, "expect-err");
}

pub fn proof_complete<CS: BbsCiphersuite>(name: &str, out: &mut Vec<Value>, thorough: bool)
where
    CS::Expander: for<'a> ExpandMsg<'a>,
{
    let kp = KP::<CS>::generate(IKM, None, None).unwrap();
    let maxl = if thorough { 6 } else { 4 };
    for l in 0..=maxl {
        let m = msgs(l);
        for (hn, h) in hdr_variants() {
            if !thorough && l > 2 && hn != "bytes" {
                continue;
            }
            let sig = Sig::<CS>::sign(Some(&m), kp.private_key(), kp.public_key(), h.as_deref()).unwrap();
            for d in subsets(l) {
                for (pn, ph) in hdr_variants() {
                    if pn != "bytes" && !(l <= 2 || thorough) {
                        continue;
                    }
                    let (m2, h2, ph2, d2, pkb, sb) = (m.clone(), h.clone(), ph.clone(), d.clone(), kp.public_key().to_bytes(), sig.to_bytes());
                    let outcome = guard(move || {
                        let pk = BBSplusPublicKey::from_bytes(&pkb).unwrap();
                        let mo: Option<&[Vec<u8>]> = if m2.is_empty() { None } else { Some(&m2) };
                        let dopt: Option<&[usize]> = if d2.is_empty() { None } else { Some(&d2) };
                        let p = match Pok::<CS>::proof_gen(&pk, &sb, h2.as_deref(), ph2.as_deref(), mo, dopt) {
                            Ok(p) => p,
                            Err(e) => return format!("err:proof_gen:{e:?}"),
                        };
                        let bytes = p.to_bytes();
                        if bytes.len() != 272 + 32 * (m2.len() - d2.len()) {
                            return format!("err:length:{}", bytes.len());
                        }
                        let p2 = match Pok::<CS>::from_bytes(&bytes) {
                            Ok(p) => p,
                            Err(e) => return format!("err:from_bytes:{e:?}"),
                        };
                        let dm: Vec<Vec<u8>> = d2.iter().map(|i| m2[*i].clone()).collect();
                        match p2.proof_verify(&pk, Some(&dm), Some(&d2), h2.as_deref(), ph2.as_deref()) {
                            Ok(()) => "ok:accepted".to_string(),
                            Err(e) => format!("err:proof_verify:{e:?}"),
                        }
                    });
                    push(out, format!("{name}-L{l}-D{d:?}-hdr-{hn}-ph-{pn}"), "proof_gen+roundtrip+proof_verify", vec![format!("L={l}"), format!("D={d:?}")], outcome, "expect-ok");
                }
            }
        }
    }
    // many messages / many undisclosed messages (thresholds of batching, buffers, expand_message limits)
    let mut large: Vec<(usize, Vec<usize>)> = vec![(40, vec![0, 39]), (170, vec![]), (170, vec![0, 169]), (300, vec![7])];
    if thorough {
        large.push((1400, vec![]));
        large.push((700, vec![0, 350, 699]));
    }
    for (l, d) in large {
        let m = msgs(l);
        let sig = Sig::<CS>::sign(Some(&m), kp.private_key(), kp.public_key(), Some(HEADER)).unwrap();
        let (m2, d2, pkb, sb) = (m.clone(), d.clone(), kp.public_key().to_bytes(), sig.to_bytes());
        let outcome = guard(move || {
            let pk = BBSplusPublicKey::from_bytes(&pkb).unwrap();
            let dopt: Option<&[usize]> = if d2.is_empty() { None } else { Some(&d2) };
            let p = match Pok::<CS>::proof_gen(&pk, &sb, Some(HEADER), Some(PH), Some(&m2), dopt) {
                Ok(p) => p,
                Err(e) => return format!("err:proof_gen:{e:?}"),
            };
            let dm: Vec<Vec<u8>> = d2.iter().map(|i| m2[*i].clone()).collect();
            match p.proof_verify(&pk, Some(&dm), Some(&d2), Some(HEADER), Some(PH)) {
                Ok(()) => "ok:accepted".to_string(),
                Err(e) => format!("err:proof_verify:{e:?}"),
            }
        });
        push(out, format!("{name}-large-L{l}-D{d:?}"), "proof_gen+proof_verify", vec![format!("L={l}"), format!("D={d:?}")], outcome, "expect-ok");
    }
}

pub fn proof_sound<CS: BbsCiphersuite>(name: &str, out: &mut Vec<Value>, thorough: bool)
where
    CS::Expander: for<'a> ExpandMsg<'a>,
{
    let kp = KP::<CS>::generate(IKM, None, None).unwrap();
    let kp2 = KP::<CS>::generate(IKM, Some(b"other"), None).unwrap();
    let m = msgs(4);
    let sig = Sig::<CS>::sign(Some(&m), kp.private_key(), kp.public_key(), Some(HEADER)).unwrap();
    let d = vec![0usize, 2];
    let proof = Pok::<CS>::proof_gen(kp.public_key(), &sig.to_bytes(), Some(HEADER), Some(PH), Some(&m), Some(&d)).unwrap();
    let pb = proof.to_bytes();
    let pkb = kp.public_key().to_bytes().to_vec();
    let dm = vec![m[0].clone(), m[2].clone()];
    // (id, proof bytes, pk, disclosed msgs (None = absent), indexes (None = absent), header, ph)
    type Case = (String, Vec<u8>, Vec<u8>, Option<Vec<Vec<u8>>>, Option<Vec<usize>>, Option<Vec<u8>>, Option<Vec<u8>>);
    let mut cases: Vec<Case> = vec![];
    let base = |id: &str| -> Case { (id.to_string(), pb.clone(), pkb.clone(), Some(dm.clone()), Some(d.clone()), Some(HEADER.to_vec()), Some(PH.to_vec())) };
    let mut c = base("disclosed-message-changed"); c.3 = Some(vec![b"forged".to_vec(), m[2].clone()]); cases.push(c);
    let mut c = base("disclosed-messages-swapped"); c.3 = Some(vec![m[2].clone(), m[0].clone()]); cases.push(c);
    let mut c = base("index-moved"); c.4 = Some(vec![0, 1]); cases.push(c);
    let mut c = base("index-moved-2"); c.4 = Some(vec![1, 2]); cases.push(c);
    let mut c = base("surplus-message-appended"); c.3 = Some(vec![m[0].clone(), m[2].clone(), b"role=administrator".to_vec()]); cases.push(c);
    let mut c = base("repeated-index-with-second-message"); c.3 = Some(vec![m[0].clone(), m[2].clone(), b"role=administrator".to_vec()]); c.4 = Some(vec![0, 2, 2]); cases.push(c);
    let mut c = base("messages-without-indexes"); c.4 = None; cases.push(c);
    let mut c = base("indexes-without-messages"); c.3 = None; cases.push(c);
    let mut c = base("fewer-messages"); c.3 = Some(vec![m[0].clone()]); cases.push(c);
    let mut c = base("extra-index"); c.4 = Some(vec![0, 2, 3]); c.3 = Some(vec![m[0].clone(), m[2].clone(), m[3].clone()]); cases.push(c);
    let mut c = base("fewer-disclosed"); c.4 = Some(vec![0]); c.3 = Some(vec![m[0].clone()]); cases.push(c);
    let mut c = base("index-equal-L"); c.4 = Some(vec![0, 4]); cases.push(c);
    let mut c = base("index-L-plus-1"); c.4 = Some(vec![0, 5]); cases.push(c);
    let mut c = base("index-usize-max"); c.4 = Some(vec![0, usize::MAX]); cases.push(c);
    let mut c = base("single-index-equal-L"); c.4 = Some(vec![3]); c.3 = Some(vec![m[0].clone()]); cases.push(c);
    let mut c = base("unsorted-indexes"); c.4 = Some(vec![2, 0]); cases.push(c);
    let mut c = base("header-changed"); c.5 = Some(b"x".to_vec()); cases.push(c);
    let mut c = base("header-absent"); c.5 = None; cases.push(c);
    let mut c = base("ph-changed"); c.6 = Some(b"x".to_vec()); cases.push(c);
    let mut c = base("ph-absent"); c.6 = None; cases.push(c);
    let mut c = base("ph-empty"); c.6 = Some(vec![]); cases.push(c);
    let mut c = base("other-pk"); c.2 = kp2.public_key().to_bytes().to_vec(); cases.push(c);
    let mut c = base("truncated-by-one-scalar"); c.1 = pb[..pb.len() - 32].to_vec(); cases.push(c);
    let mut c = base("extended-by-one-scalar"); c.1 = [pb.clone(), pb[pb.len() - 32..].to_vec()].concat(); cases.push(c);
    let mut c = base("extended-scalar-inside"); { let mut v = pb[..pb.len() - 32].to_vec(); v.extend_from_slice(&pb[240..272]); v.extend_from_slice(&pb[pb.len() - 32..]); c.1 = v; } cases.push(c);
    let step = if thorough { 1 } else { 7 };
    let mut i = 0;
    while i < pb.len() * 8 {
        let mut c = base(&format!("proof-bitflip-{i}"));
        c.1[i / 8] ^= 1 << (i % 8);
        cases.push(c);
        i += step;
    }
    // a proof made WITHOUT presentation header / header, presented with one (api id, header, arbitrary) and the converse
    {
        let p_noph = Pok::<CS>::proof_gen(kp.public_key(), &sig.to_bytes(), Some(HEADER), None, Some(&m), Some(&d)).unwrap().to_bytes();
        for (nm, phx) in [("api-id", CS::API_ID.to_vec()), ("header", HEADER.to_vec()), ("x", b"x".to_vec())] {
            cases.push((format!("made-without-ph-presented-with-ph-{nm}"), p_noph.clone(), pkb.clone(), Some(dm.clone()), Some(d.clone()), Some(HEADER.to_vec()), Some(phx)));
        }
        let p_api = Pok::<CS>::proof_gen(kp.public_key(), &sig.to_bytes(), Some(HEADER), Some(CS::API_ID), Some(&m), Some(&d)).unwrap().to_bytes();
        cases.push(("made-with-ph-api-id-presented-without-ph".into(), p_api.clone(), pkb.clone(), Some(dm.clone()), Some(d.clone()), Some(HEADER.to_vec()), None));
        cases.push(("made-with-ph-api-id-presented-with-empty-ph".into(), p_api, pkb.clone(), Some(dm.clone()), Some(d.clone()), Some(HEADER.to_vec()), Some(vec![])));
        let sig_nh = Sig::<CS>::sign(Some(&m), kp.private_key(), kp.public_key(), None).unwrap();
        let p_nh = Pok::<CS>::proof_gen(kp.public_key(), &sig_nh.to_bytes(), None, Some(PH), Some(&m), Some(&d)).unwrap().to_bytes();
        cases.push(("made-without-header-presented-with-header-api-id".into(), p_nh.clone(), pkb.clone(), Some(dm.clone()), Some(d.clone()), Some(CS::API_ID.to_vec()), Some(PH.to_vec())));
        cases.push(("made-without-header-presented-with-header-ph".into(), p_nh, pkb.clone(), Some(dm.clone()), Some(d.clone()), Some(PH.to_vec()), Some(PH.to_vec())));
    }
    // the honest call itself must verify (sanity of the family)
    cases.push(("honest".to_string(), pb.clone(), pkb.clone(), Some(dm.clone()), Some(d.clone()), Some(HEADER.to_vec()), Some(PH.to_vec())));
    for (id, pbytes, pkk, dmm, dii, hh, phh) in cases {
        // known finding F14: non-ascending indexes are accepted on the pinned tree (not counted as a new violation)
        let expect = if id == "honest" { "expect-ok" } else if id == "unsorted-indexes" { "known-F14" } else { "expect-err" };
        let id2 = id.clone();
        let outcome = guard(move || {
            let pk = match BBSplusPublicKey::from_bytes(&pkk) { Ok(p) => p, Err(e) => return format!("err:pk:{e:?}") };
            let p = match Pok::<CS>::from_bytes(&pbytes) { Ok(p) => p, Err(e) => return format!("err:decode:{e:?}") };
            res(p.proof_verify(&pk, dmm.as_deref(), dii.as_deref(), hh.as_deref(), phh.as_deref()))
        });
        push(out, format!("{name}-{id2}"), "proof_verify(edited statement)", vec![id], outcome, expect);
    }
}

pub fn blind_complete<CS: BbsCiphersuite>(name: &str, out: &mut Vec<Value>, thorough: bool)
where
    CS::Expander: for<'a> ExpandMsg<'a>,
{
    let kp = KP::<CS>::generate(IKM, None, None).unwrap();
    let shapes: Vec<(usize, usize)> = if thorough {
        vec![(0, 0), (0, 1), (1, 0), (1, 1), (1, 2), (2, 1), (0, 3), (3, 0), (2, 2), (1, 3), (3, 2)]
    } else {
        vec![(0, 0), (0, 1), (1, 0), (1, 2), (2, 1), (0, 2), (2, 2)]
    };
    for (l, mm) in shapes {
        let m = msgs(l);
        let cm: Vec<Vec<u8>> = (0..mm).map(|i| format!("committed-{i}").into_bytes()).collect();
        for (hn, h) in hdr_variants() {
            if hn != "bytes" && (l + mm > 2) && !thorough {
                continue;
            }
            for d in subsets(l) {
                for dj in subsets(mm) {
                    let (m2, cm2, h2, d2, dj2, pkb, skb) = (m.clone(), cm.clone(), h.clone(), d.clone(), dj.clone(), kp.public_key().to_bytes(), kp.private_key().to_bytes());
                    let with_commit = mm > 0 || hn == "bytes";
                    let outcome = guard(move || {
                        let pk = BBSplusPublicKey::from_bytes(&pkb).unwrap();
                        let sk = BBSplusSecretKey::from_bytes(&skb).unwrap();
                        let mo: Option<&[Vec<u8>]> = if m2.is_empty() { None } else { Some(&m2) };
                        let cmo: Option<&[Vec<u8>]> = if cm2.is_empty() { None } else { Some(&cm2) };
                        let (cbytes, blind) = if with_commit {
                            match Com::<CS>::commit(cmo) {
                                Ok((c, b)) => (Some(c.to_bytes()), Some(b)),
                                Err(e) => return format!("err:commit:{e:?}"),
                            }
                        } else {
                            (None, None)
                        };
                        let bs = match BSig::<CS>::blind_sign(&sk, &pk, cbytes.as_deref(), h2.as_deref(), mo) {
                            Ok(s) => s,
                            Err(e) => return format!("err:blind_sign:{e:?}"),
                        };
                        if let Err(e) = bs.verify_blind_sign(&pk, h2.as_deref(), mo, cmo, blind.as_ref()) {
                            return format!("err:verify_blind_sign:{e:?}");
                        }
                        let p = match Pok::<CS>::blind_proof_gen(&pk, &bs.to_bytes(), h2.as_deref(), Some(PH), mo, cmo, Some(&d2), Some(&dj2), blind.as_ref()) {
                            Ok(p) => p,
                            Err(e) => return format!("err:blind_proof_gen:{e:?}"),
                        };
                        let dm: Vec<Vec<u8>> = d2.iter().map(|i| m2[*i].clone()).collect();
                        let dcm: Vec<Vec<u8>> = dj2.iter().map(|i| cm2[*i].clone()).collect();
                        match p.blind_proof_verify(&pk, h2.as_deref(), Some(PH), Some(m2.len()), Some(&dm), Some(&dcm), Some(&d2), Some(&dj2)) {
                            Ok(()) => "ok:accepted".to_string(),
                            Err(e) => format!("err:blind_proof_verify:{e:?}"),
                        }
                    });
                    push(out, format!("{name}-L{l}-M{mm}-D{d:?}-DJ{dj:?}-hdr-{hn}"), "commit+blind_sign+verify+blind_proof", vec![format!("L={l}"), format!("M={mm}"), format!("D={d:?}"), format!("DJ={dj:?}")], outcome, "expect-ok");
                }
            }
        }
    }
}

pub fn blind_sound<CS: BbsCiphersuite>(name: &str, out: &mut Vec<Value>, thorough: bool)
where
    CS::Expander: for<'a> ExpandMsg<'a>,
{
    let kp = KP::<CS>::generate(IKM, None, None).unwrap();
    let m = msgs(2);
    let cm: Vec<Vec<u8>> = (0..2).map(|i| format!("committed-{i}").into_bytes()).collect();
    let (com, blind) = Com::<CS>::commit(Some(&cm)).unwrap();
    let cb = com.to_bytes();
    let (pkb, skb) = (kp.public_key().to_bytes(), kp.private_key().to_bytes());
    // blind_sign must refuse every altered commitment
    let mut alts: Vec<(String, Vec<u8>)> = vec![];
    let step = if thorough { 1 } else { 9 };
    let mut i = 0;
    while i < cb.len() * 8 {
        let mut v = cb.clone();
        v[i / 8] ^= 1 << (i % 8);
        alts.push((format!("commitment-bitflip-{i}"), v));
        i += step;
    }
    alts.push(("commitment-truncated-scalar".into(), cb[..cb.len() - 32].to_vec()));
    alts.push(("commitment-extended-scalar".into(), [cb.clone(), cb[cb.len() - 32..].to_vec()].concat()));
    // a commitment to no messages still carries a proof of knowledge of the blind factor
    let (com0, _b0) = Com::<CS>::commit(None).unwrap();
    let c0 = com0.to_bytes();
    let mut i0 = 384;
    while i0 < c0.len() * 8 {
        let mut v = c0.clone();
        v[i0 / 8] ^= 1 << (i0 % 8);
        alts.push((format!("empty-commitment-proof-bitflip-{i0}"), v));
        i0 += if thorough { 1 } else { 5 };
    }
    alts.push(("one-message-proof-truncated-to-no-message-shape".into(), {
        let (c1, _b1) = Com::<CS>::commit(Some(&[b"one".to_vec()])).unwrap();
        let b = c1.to_bytes();
        b[..b.len() - 32].to_vec()
    }));
    let (com_other, _b2) = Com::<CS>::commit(Some(&[b"other".to_vec(), b"msgs".to_vec()])).unwrap();
    let ob = com_other.to_bytes();
    let mut spliced = cb.clone();
    spliced[..48].copy_from_slice(&ob[..48]);
    alts.push(("proof-for-other-commitment".into(), spliced));
    for (id, bytes) in alts {
        let (pkb2, skb2, m2) = (pkb.clone(), skb.clone(), m.clone());
        let outcome = guard(move || {
            let pk = BBSplusPublicKey::from_bytes(&pkb2).unwrap();
            let sk = BBSplusSecretKey::from_bytes(&skb2).unwrap();
            match BSig::<CS>::blind_sign(&sk, &pk, Some(&bytes), Some(HEADER), Some(&m2)) {
                Ok(_) => "ok:accepted".to_string(),
                Err(e) => format!("err:{e:?}"),
            }
        });
        push(out, format!("{name}-{id}"), "blind_sign(altered commitment)", vec![id.clone()], outcome, "expect-err");
    }
    // verify_blind_sign must refuse edited statements
    let bs = BSig::<CS>::blind_sign(kp.private_key(), kp.public_key(), Some(&cb), Some(HEADER), Some(&m)).unwrap();
    let bsb = bs.to_bytes();
    let blind_b = blind.to_bytes();
    type VC = (String, Vec<Vec<u8>>, Vec<Vec<u8>>, Option<[u8; 32]>, Option<Vec<u8>>);
    let mut vcs: Vec<VC> = vec![];
    let mut cm_e = cm.clone(); cm_e[0][0] ^= 1;
    vcs.push(("committed-message-changed".into(), m.clone(), cm_e, Some(blind_b), Some(HEADER.to_vec())));
    let mut m_e = m.clone(); m_e[1][0] ^= 1;
    vcs.push(("signer-message-changed".into(), m_e, cm.clone(), Some(blind_b), Some(HEADER.to_vec())));
    vcs.push(("blind-factor-absent".into(), m.clone(), cm.clone(), None, Some(HEADER.to_vec())));
    let mut bl_e = blind_b; bl_e[31] ^= 1;
    vcs.push(("blind-factor-changed".into(), m.clone(), cm.clone(), Some(bl_e), Some(HEADER.to_vec())));
    vcs.push(("header-changed".into(), m.clone(), cm.clone(), Some(blind_b), Some(b"x".to_vec())));
    vcs.push(("committed-moved-to-signer".into(), [m.clone(), cm.clone()].concat(), vec![], Some(blind_b), Some(HEADER.to_vec())));
    vcs.push(("honest".into(), m.clone(), cm.clone(), Some(blind_b), Some(HEADER.to_vec())));
    for (id, mm, cmm, bl, hh) in vcs {
        let expect = if id == "honest" { "expect-ok" } else { "expect-err" };
        let (pkb2, bsb2) = (pkb.clone(), bsb);
        let outcome = guard(move || {
            let pk = BBSplusPublicKey::from_bytes(&pkb2).unwrap();
            let s = BSig::<CS>::from_bytes(&bsb2).unwrap();
            let bf = bl.map(|b| BlindFactor::from_bytes(&b).unwrap());
            res(s.verify_blind_sign(&pk, hh.as_deref(), Some(&mm), Some(&cmm), bf.as_ref()))
        });
        push(out, format!("{name}-verify_blind_sign-{id}"), "verify_blind_sign(edited)", vec![id.clone()], outcome, expect);
    }
    // blind_proof_verify must refuse edited statements (L = 3 signer messages, M = 2 committed; disclosed signer {0, 2}, committed {1})
    let m3 = msgs(3);
    let bs3 = BSig::<CS>::blind_sign(kp.private_key(), kp.public_key(), Some(&cb), Some(HEADER), Some(&m3)).unwrap();
    let (di, dj) = (vec![0usize, 2], vec![1usize]);
    let proof = Pok::<CS>::blind_proof_gen(kp.public_key(), &bs3.to_bytes(), Some(HEADER), Some(PH), Some(&m3), Some(&cm), Some(&di), Some(&dj), Some(&blind)).unwrap();
    let pb = proof.to_bytes();
    let dm: Vec<Vec<u8>> = di.iter().map(|i| m3[*i].clone()).collect();
    let dcm: Vec<Vec<u8>> = dj.iter().map(|j| cm[*j].clone()).collect();
    let other_pk = KP::<CS>::generate(IKM, Some(b"other"), None).unwrap().public_key().to_bytes();
    // (id, pk, proof bytes, header, ph, L, disclosed msgs, disclosed committed msgs, indexes, commitment indexes)
    type PC = (String, Vec<u8>, Vec<u8>, Vec<u8>, Vec<u8>, usize, Vec<Vec<u8>>, Vec<Vec<u8>>, Vec<usize>, Vec<usize>);
    let base = |id: &str| -> PC { (id.to_string(), pkb.to_vec(), pb.clone(), HEADER.to_vec(), PH.to_vec(), 3, dm.clone(), dcm.clone(), di.clone(), dj.clone()) };
    let mut pcs: Vec<PC> = vec![base("honest")];
    let mut c = base("disclosed-message-changed"); c.6[0][0] ^= 1; pcs.push(c);
    let mut c = base("disclosed-committed-message-changed"); c.7[0][0] ^= 1; pcs.push(c);
    let mut c = base("L-minus-1"); c.5 = 2; pcs.push(c);
    let mut c = base("L-plus-1"); c.5 = 4; pcs.push(c);
    let mut c = base("header-changed"); c.3 = b"x".to_vec(); pcs.push(c);
    let mut c = base("ph-changed"); c.4 = b"x".to_vec(); pcs.push(c);
    let mut c = base("other-pk"); c.1 = other_pk.to_vec(); pcs.push(c);
    let mut c = base("index-moved"); c.8 = vec![0, 1]; pcs.push(c);
    let mut c = base("commitment-index-moved"); c.9 = vec![0]; pcs.push(c);
    // the disclosed committed message cm[1] presented as if it were signer message number L + 1 + 1
    let mut c = base("committed-message-as-signer-message"); c.6 = vec![m3[0].clone(), m3[2].clone(), cm[1].clone()]; c.8 = vec![0, 2, 5]; c.7 = vec![]; c.9 = vec![]; pcs.push(c);
    let mut c = base("fewer-disclosed-messages-than-indexes"); c.6 = vec![m3[0].clone()]; pcs.push(c);
    let mut c = base("fewer-committed-messages-than-indexes"); c.7 = vec![]; pcs.push(c);
    let mut c = base("more-disclosed-messages-than-indexes"); c.6.push(b"extra".to_vec()); pcs.push(c);
    let stepb = if thorough { 3 } else { 41 };
    let mut k = 0;
    while k < pb.len() * 8 {
        let mut c = base(&format!("proof-bitflip-{k}"));
        c.2[k / 8] ^= 1 << (k % 8);
        pcs.push(c);
        k += stepb;
    }
    for (id, pkx, pbx, hh, phh, l, dmx, dcmx, dix, djx) in pcs {
        let expect = if id == "honest" { "expect-ok" } else { "expect-err" };
        let outcome = guard(move || {
            let pk = match BBSplusPublicKey::from_bytes(&pkx) { Ok(p) => p, Err(e) => return format!("err:pk:{e:?}") };
            let p = match Pok::<CS>::from_bytes(&pbx) { Ok(p) => p, Err(e) => return format!("err:decode:{e:?}") };
            res(p.blind_proof_verify(&pk, Some(&hh), Some(&phh), Some(l), Some(&dmx), Some(&dcmx), Some(&dix), Some(&djx)))
        });
        push(out, format!("{name}-blind_proof_verify-{id}"), "blind_proof_verify(edited)", vec![id.clone()], outcome, expect);
    }
    // optional arguments OMITTED (None) instead of edited: a proof that discloses every signer message, verified without L,
    // without ph, without header (absent means 0 / empty, which is not what the proof was made for)
    {
        let all: Vec<usize> = vec![0, 1, 2];
        let pr = Pok::<CS>::blind_proof_gen(kp.public_key(), &bs3.to_bytes(), Some(HEADER), Some(PH), Some(&m3), Some(&cm), Some(&all), Some(&dj), Some(&blind)).unwrap();
        let prb = pr.to_bytes();
        for (id, l, hh, phh, expect) in [
            ("honest", Some(3usize), Some(HEADER), Some(PH), "expect-ok"),
            ("L-omitted", None, Some(HEADER), Some(PH), "expect-err"),
            ("ph-omitted", Some(3), Some(HEADER), None, "expect-err"),
            ("header-omitted", Some(3), None, Some(PH), "expect-err"),
            ("L-zero", Some(0), Some(HEADER), Some(PH), "expect-err"),
        ] {
            let (pkb2, prb2, m32, dcm2, all2, dj2) = (pkb.clone(), prb.clone(), m3.clone(), dcm.clone(), all.clone(), dj.clone());
            let outcome = guard(move || {
                let pk = BBSplusPublicKey::from_bytes(&pkb2).unwrap();
                let p = match Pok::<CS>::from_bytes(&prb2) { Ok(p) => p, Err(e) => return format!("err:decode:{e:?}") };
                res(p.blind_proof_verify(&pk, hh, phh, l, Some(&m32), Some(&dcm2), Some(&all2), Some(&dj2)))
            });
            push(out, format!("{name}-blind_proof_verify-all-signer-messages-disclosed-{id}"), "blind_proof_verify(optional argument omitted)", vec![id.to_string()], outcome, expect);
        }
    }
}

pub fn update_history<CS: BbsCiphersuite>(name: &str, out: &mut Vec<Value>, thorough: bool)
where
    CS::Expander: for<'a> ExpandMsg<'a>,
{
    let kp = KP::<CS>::generate(IKM, None, None).unwrap();
    for l in [1usize, 2, 4] {
        let mut cur = msgs(l);
        let mut sig = Sig::<CS>::sign(Some(&cur), kp.private_key(), kp.public_key(), Some(HEADER)).unwrap();
        let steps = if thorough { 32 } else { 8 };
        let mut outcome = "ok:accepted".to_string();
        let mut history: Vec<Vec<Vec<u8>>> = vec![cur.clone()];
        for k in 0..steps {
            let i = (k * 7 + 3) % l;
            let newv = format!("updated-{k}").into_bytes();
            let r = std::panic::catch_unwind(std::panic::AssertUnwindSafe(|| sig.update_signature(kp.private_key(), &cur[i], &newv, i, l)));
            match r {
                Ok(Ok(s2)) => {
                    cur[i] = newv;
                    sig = s2;
                    if let Err(e) = sig.verify(kp.public_key(), Some(&cur), Some(HEADER)) {
                        outcome = format!("err:step{k}:verify-current:{e:?}");
                        break;
                    }
                    for old in history.iter() {
                        if *old != cur && sig.verify(kp.public_key(), Some(old), Some(HEADER)).is_ok() {
                            outcome = format!("err:step{k}:verifies-for-earlier-vector");
                        }
                    }
                    // equals the signature the key holder would issue with the same e?  A' = B(cur)/(sk+e) is checked by verify.
                    history.push(cur.clone());
                }
                Ok(Err(e)) => { outcome = format!("err:step{k}:update:{e:?}"); break; }
                Err(_) => { outcome = format!("panic:step{k}"); break; }
            }
        }
        push(out, format!("{name}-L{l}-history"), "update_signature sequence", vec![format!("L={l}")], outcome, "expect-ok");
        // out of range and wrong old value
        let r = guard(|| match sig.update_signature(kp.private_key(), &cur[0], b"x", l, l) { Ok(_) => "ok:accepted".into(), Err(e) => format!("err:{e:?}") });
        push(out, format!("{name}-L{l}-index-out-of-range"), "update_signature(i = L)", vec![], r, "expect-err");
        let r = guard(|| match sig.update_signature(kp.private_key(), b"not the old value", b"x", 0, l) {
            Ok(s2) => { let mut want = cur.clone(); want[0] = b"x".to_vec(); res(s2.verify(kp.public_key(), Some(&want), Some(HEADER))) }
            Err(e) => format!("err:{e:?}"),
        });
        push(out, format!("{name}-L{l}-wrong-old-value"), "update_signature(wrong old) then verify(new vector)", vec![], r, "expect-err");
    }
    // values related by prefix / length / emptiness: each single update must give a signature valid for the new vector only
    let pairs: Vec<(&str, Vec<u8>, Vec<u8>)> = vec![
        ("truncate", b"attribute-value".to_vec(), b"attribute".to_vec()),
        ("append", b"attribute".to_vec(), b"attribute-value".to_vec()),
        ("to-empty", b"attribute".to_vec(), vec![]),
        ("from-empty", vec![], b"attribute".to_vec()),
        ("trailing-zero", b"ab".to_vec(), b"ab\0".to_vec()),
        ("same-length", b"aaaa".to_vec(), b"aaab".to_vec()),
        ("same-value", b"unchanged".to_vec(), b"unchanged".to_vec()),
        ("long", vec![7u8; 100], vec![7u8; 1000]),
    ];
    for (pn, oldv, newv) in pairs {
        for (l, i) in [(1usize, 0usize), (3, 1)] {
            let mut cur = msgs(l);
            cur[i] = oldv.clone();
            let sig = Sig::<CS>::sign(Some(&cur), kp.private_key(), kp.public_key(), Some(HEADER)).unwrap();
            let (cur2, oldv2, newv2) = (cur.clone(), oldv.clone(), newv.clone());
            let (pk, sk) = (kp.public_key().clone(), kp.private_key().clone());
            let outcome = guard(move || match sig.update_signature(&sk, &oldv2, &newv2, i, l) {
                Ok(s2) => {
                    let mut want = cur2.clone();
                    want[i] = newv2.clone();
                    if let Err(e) = s2.verify(&pk, Some(&want), Some(HEADER)) {
                        return format!("err:verify-current:{e:?}");
                    }
                    if oldv2 != newv2 && s2.verify(&pk, Some(&cur2), Some(HEADER)).is_ok() {
                        return "err:verifies-for-earlier-vector".to_string();
                    }
                    "ok:accepted".to_string()
                }
                Err(e) => format!("err:update:{e:?}"),
            });
            push(out, format!("{name}-L{l}-update-{pn}"), "update_signature(old, new related by prefix/length) then verify", vec![hex::encode(&oldv), hex::encode(&newv)], outcome, "expect-ok");
        }
    }
}

/// C07: blinding scalars recomputed by a party who knows the witness (e~ = e^ - e*c, m~_j = m^_j - m_j*c,
/// s~ = s^ - blind*c) are non-zero and pairwise distinct within and across transcripts; points and
/// blind factors / random keys do not repeat across runs (production randomness path).
pub fn fresh<CS: BbsCiphersuite>(name: &str, out: &mut Vec<Value>)
where
    CS::Expander: for<'a> ExpandMsg<'a>,
{
    use bls12_381_plus::Scalar;
    let sc = |b: &[u8]| -> Scalar { Scalar::from_be_bytes(&<[u8; 32]>::try_from(b).unwrap()).unwrap() };
    let kp = KP::<CS>::generate(IKM, None, None).unwrap();
    let mut seen: std::collections::HashSet<Vec<u8>> = std::collections::HashSet::new();
    let mut problems: Vec<String> = vec![];
    let mut total = 0usize;
    let mut note = |what: String, v: Vec<u8>, seen: &mut std::collections::HashSet<Vec<u8>>, problems: &mut Vec<String>, total: &mut usize| {
        *total += 1;
        if v.iter().all(|b| *b == 0) {
            problems.push(format!("{what} is zero"));
        }
        if !seen.insert(v) {
            problems.push(format!("{what} repeats an earlier point/scalar"));
        }
    };
    // distinct values, and a vector in which several hidden attributes hold the SAME value (their blindings must still differ)
    let dup: Vec<Vec<u8>> = vec![b"false".to_vec(), b"x".to_vec(), b"false".to_vec(), b"false".to_vec(), vec![], vec![], b"x".to_vec()];
    for m in [msgs(3), msgs(20), msgs(40), dup] {
        let l = m.len();
        let ms = BBSplusMessage::messages_to_scalar::<CS>(&m, CS::API_ID).unwrap();
        let sig = Sig::<CS>::sign(Some(&m), kp.private_key(), kp.public_key(), Some(HEADER)).unwrap();
        let e = sc(&sig.to_bytes()[48..80]);
        for run in 0..2 {
            let p = Pok::<CS>::proof_gen(kp.public_key(), &sig.to_bytes(), Some(HEADER), Some(PH), Some(&m), None).unwrap().to_bytes();
            let c = sc(&p[p.len() - 32..]);
            for (k, nm) in [(0usize, "Abar"), (48, "Bbar"), (96, "D")] {
                note(format!("L={l} run={run} {nm}"), p[k..k + 48].to_vec(), &mut seen, &mut problems, &mut total);
            }
            let e_tilde = sc(&p[144..176]) - e * c;
            note(format!("L={l} run={run} e~"), e_tilde.to_be_bytes().to_vec(), &mut seen, &mut problems, &mut total);
            note(format!("L={l} run={run} r1^"), p[176..208].to_vec(), &mut seen, &mut problems, &mut total);
            note(format!("L={l} run={run} r3^"), p[208..240].to_vec(), &mut seen, &mut problems, &mut total);
            for j in 0..l {
                let m_cap = sc(&p[240 + 32 * j..272 + 32 * j]);
                let m_tilde = m_cap - ms[j].value * c;
                note(format!("L={l} run={run} m~_{j}"), m_tilde.to_be_bytes().to_vec(), &mut seen, &mut problems, &mut total);
                // the encoding must not contain a hidden message scalar, A or e
                if p[240 + 32 * j..272 + 32 * j] == ms[j].value.to_be_bytes() {
                    problems.push(format!("L={l} run={run}: proof contains hidden message scalar {j}"));
                }
            }
        }
    }
    let dupc: Vec<Vec<u8>> = vec![b"same".to_vec(), b"same".to_vec(), vec![], vec![], b"same".to_vec()];
    for cm in [msgs(2), msgs(20), dupc] {
        let mm = cm.len();
        let cms = BBSplusMessage::messages_to_scalar::<CS>(&cm, CS::API_ID_BLIND).unwrap();
        for run in 0..2 {
            let (c, b) = Com::<CS>::commit(Some(&cm)).unwrap();
            let cb = c.to_bytes();
            let ch = sc(&cb[cb.len() - 32..]);
            let blind = sc(&b.to_bytes());
            note(format!("M={mm} run={run} C"), cb[0..48].to_vec(), &mut seen, &mut problems, &mut total);
            note(format!("M={mm} run={run} secret_prover_blind"), b.to_bytes().to_vec(), &mut seen, &mut problems, &mut total);
            let s_tilde = sc(&cb[48..80]) - blind * ch;
            note(format!("M={mm} run={run} s~"), s_tilde.to_be_bytes().to_vec(), &mut seen, &mut problems, &mut total);
            for j in 0..mm {
                let m_tilde = sc(&cb[80 + 32 * j..112 + 32 * j]) - cms[j].value * ch;
                note(format!("M={mm} run={run} m~_{j}"), m_tilde.to_be_bytes().to_vec(), &mut seen, &mut problems, &mut total);
            }
        }
    }
    for run in 0..4 {
        let k = KP::<CS>::random().unwrap();
        note(format!("run={run} random sk"), k.private_key().to_bytes().to_vec(), &mut seen, &mut problems, &mut total);
        let bf = BlindFactor::random();
        note(format!("run={run} BlindFactor::random"), bf.to_bytes().to_vec(), &mut seen, &mut problems, &mut total);
    }
    // the same operations on several threads at once: nothing may repeat across threads either
    {
        let m = msgs(3);
        let sig = Sig::<CS>::sign(Some(&m), kp.private_key(), kp.public_key(), Some(HEADER)).unwrap();
        let (pkb, sb) = (kp.public_key().to_bytes(), sig.to_bytes());
        let mut handles = vec![];
        for t in 0..4 {
            let (pkb, sb, m) = (pkb.clone(), sb.clone(), m.clone());
            handles.push(std::thread::spawn(move || {
                let pk = BBSplusPublicKey::from_bytes(&pkb).unwrap();
                let mut v: Vec<(String, Vec<u8>)> = vec![];
                for run in 0..2 {
                    let (c, b) = Com::<CS>::commit(Some(&[b"x".to_vec()])).unwrap();
                    v.push((format!("thread={t} run={run} C"), c.to_bytes()[0..48].to_vec()));
                    v.push((format!("thread={t} run={run} secret_prover_blind"), b.to_bytes().to_vec()));
                    let p = Pok::<CS>::proof_gen(&pk, &sb, Some(HEADER), Some(PH), Some(&m), None).unwrap().to_bytes();
                    v.push((format!("thread={t} run={run} Abar"), p[0..48].to_vec()));
                    v.push((format!("thread={t} run={run} r1^"), p[176..208].to_vec()));
                    v.push((format!("thread={t} run={run} random sk"), KP::<CS>::random().unwrap().private_key().to_bytes().to_vec()));
                    v.push((format!("thread={t} run={run} BlindFactor::random"), BlindFactor::random().to_bytes().to_vec()));
                }
                v
            }));
        }
        for h in handles {
            for (what, v) in h.join().unwrap() {
                note(what, v, &mut seen, &mut problems, &mut total);
            }
        }
    }
    let outcome = if problems.is_empty() { "ok:accepted".to_string() } else { format!("err:{} of {} recomputed blindings/points bad: {}", problems.len(), total, problems[..problems.len().min(4)].join("; ")) };
    push(out, format!("{name}-fresh"), "witness-side recomputation of blindings over repeated generations", vec![format!("{total} elements")], outcome, "expect-ok");
}

/// C11 / C10: generator derivation — absent api_id == empty api_id, prefix consistency, no identity / P1 /
/// repetition, disjointness across api ids (both suites, plain / blind / "BLIND_" prefixed).
pub fn generators<CS: BbsCiphersuite>(name: &str, out: &mut Vec<Value>, thorough: bool)
where
    CS::Expander: for<'a> ExpandMsg<'a>,
{
    use elliptic_curve::group::Curve;
    use zkryptium::bbsplus::generators::Generators;
    let n = if thorough { 40 } else { 12 };
    let enc = |g: &Generators| -> Vec<Vec<u8>> { g.values.iter().map(|p| p.to_affine().to_compressed().to_vec()).collect() };
    let blind_prefixed = [b"BLIND_".as_slice(), CS::API_ID_BLIND].concat();
    let mut ids: Vec<(&str, Option<Vec<u8>>)> = vec![("none", None), ("empty", Some(vec![])), ("API_ID", Some(CS::API_ID.to_vec())), ("API_ID_BLIND", Some(CS::API_ID_BLIND.to_vec())), ("BLIND_||API_ID_BLIND", Some(blind_prefixed))];
    // long api ids that differ only in their last octets (around the 255-octet DST limit of expand_message and well beyond it)
    let long = |n: usize, tail: &[u8]| -> Vec<u8> { let mut v = vec![b'x'; n]; v.extend_from_slice(tail); v };
    ids.push(("long-230-A", Some(long(230, b"_TENANT_A_"))));
    ids.push(("long-230-B", Some(long(230, b"_TENANT_B_"))));
    ids.push(("long-300-A", Some(long(300, b"_TENANT_A_"))));
    ids.push(("long-300-B", Some(long(300, b"_TENANT_B_"))));
    ids.push(("long-1000-A", Some(long(1000, b"A"))));
    ids.push(("long-1000-B", Some(long(1000, b"B"))));
    // api ids that are not valid UTF-8 (octet strings, not text)
    ids.push(("octets-ff", Some(vec![0xff])));
    ids.push(("octets-fe", Some(vec![0xfe])));
    ids.push(("octets-c3", Some(vec![0xc3])));
    ids.push(("octets-efbfbd", Some(vec![0xef, 0xbf, 0xbd])));
    ids.push(("API_ID-80", Some([CS::API_ID, &[0x80u8][..]].concat())));
    ids.push(("API_ID-81", Some([CS::API_ID, &[0x81u8][..]].concat())));
    let mut sets: Vec<(String, Vec<Vec<u8>>)> = vec![];
    for (idn, id) in ids.iter() {
        let full = Generators::create::<CS>(n, id.as_deref());
        let e = enc(&full);
        let p1 = full.g1_base_point.to_affine().to_compressed().to_vec();
        let mut problems: Vec<String> = vec![];
        let mut identity = vec![0u8; 48];
        identity[0] = 0xc0;
        for (k, g) in e.iter().enumerate() {
            if *g == identity { problems.push(format!("generator {k} is the identity")); }
            if *g == p1 { problems.push(format!("generator {k} equals P1")); }
            if e[..k].contains(g) { problems.push(format!("generator {k} repeats")); }
        }
        for k in [0usize, 1, 2, n / 2, n - 1] {
            let pre = enc(&Generators::create::<CS>(k, id.as_deref()));
            if pre[..] != e[..k] { problems.push(format!("create({k}) is not a prefix of create({n})")); }
        }
        let outcome = if problems.is_empty() { "ok:accepted".to_string() } else { format!("err:{}", problems[..problems.len().min(3)].join("; ")) };
        push(out, format!("{name}-generators-{idn}"), "Generators::create", vec![format!("n={n}"), idn.to_string()], outcome, "expect-ok");
        sets.push((idn.to_string(), e));
    }
    // the blind interface's parameter preparation: for each api id (absent = empty) the generators are
    // create(L + 1, api_id) ++ create(M + 1, "BLIND_" || api_id), so they share nothing with the sets of the OTHER api ids above
    {
        use zkryptium::bbsplus::blind::prepare_parameters;
        let (l, mm) = (2usize, 3usize);
        let (ms, cms) = (msgs(l), msgs(mm));
        for (idn, id) in [("none", None), ("empty", Some(vec![])), ("API_ID_BLIND", Some(CS::API_ID_BLIND.to_vec())), ("custom", Some(b"some-other-api-id_".to_vec()))] {
            let idb: Vec<u8> = id.clone().unwrap_or_default();
            let outcome = guard(|| match prepare_parameters::<CS>(Some(&ms), Some(&cms), l + 1, mm + 1, None, id.as_deref()) {
                Ok((_scalars, g)) => {
                    let got = enc(&g);
                    let mut want = enc(&Generators::create::<CS>(l + 1, Some(&idb)));
                    want.extend(enc(&Generators::create::<CS>(mm + 1, Some(&[b"BLIND_".as_slice(), &idb].concat()))));
                    if got != want {
                        return format!("err:prepare_parameters(api_id = {idn}) does not return create(L+1, api_id) ++ create(M+1, BLIND_ || api_id)");
                    }
                    for (other, set) in sets.iter() {
                        let same = (idb.is_empty() && (other == "none" || other == "empty")) || (other == idn) || (*other == format!("BLIND_||{idn}"));
                        if !same && set.iter().any(|x| got.contains(x)) {
                            return format!("err:prepare_parameters(api_id = {idn}) shares a generator with api id {other}");
                        }
                    }
                    "ok:accepted".to_string()
                }
                Err(e) => format!("err:{e:?}"),
            });
            push(out, format!("{name}-prepare_parameters-{idn}"), "blind::prepare_parameters generators", vec![idn.to_string()], outcome, "expect-ok");
        }
    }
    // absent == empty; every other pair of api ids gives disjoint sets
    for i in 0..sets.len() {
        for j in (i + 1)..sets.len() {
            let same_expected = (sets[i].0 == "none" && sets[j].0 == "empty");
            let overlap = sets[i].1.iter().any(|g| sets[j].1.contains(g));
            let equal = sets[i].1 == sets[j].1;
            let outcome = if same_expected { if equal { "ok:accepted".to_string() } else { "err:create(n, None) != create(n, Some(\"\"))".to_string() } }
                else if overlap { format!("err:generator sets of api ids {} and {} overlap", sets[i].0, sets[j].0) } else { "ok:accepted".to_string() };
            push(out, format!("{name}-generators-{}-vs-{}", sets[i].0, sets[j].0), "Generators::create pair", vec![], outcome, "expect-ok");
        }
    }
}


/// C11: the same api id (custom or absent) under the two ciphersuites gives disjoint generators, in either call order, and
/// repeated calls with different counts stay prefix-consistent (no state may leak between calls, suites or threads).
pub fn generators_cross(out: &mut Vec<Value>) {
    use elliptic_curve::group::Curve;
    use zkryptium::bbsplus::generators::Generators;
    let enc = |g: &Generators| -> Vec<Vec<u8>> { g.values.iter().map(|p| p.to_affine().to_compressed().to_vec()).collect() };
    let ids: Vec<(&str, Option<Vec<u8>>, bool)> = vec![("custom-a", Some(b"custom-api-id-a_".to_vec()), true), ("custom-b", Some(b"custom-api-id-b_".to_vec()), false), ("none", None, true)];
    for (idn, id, sha_first) in ids {
        let (a, b) = if sha_first {
            let a = enc(&Generators::create::<Sha>(6, id.as_deref()));
            let b = enc(&Generators::create::<Shake>(6, id.as_deref()));
            (a, b)
        } else {
            let b = enc(&Generators::create::<Shake>(6, id.as_deref()));
            let a = enc(&Generators::create::<Sha>(6, id.as_deref()));
            (a, b)
        };
        let overlap = a.iter().any(|g| b.contains(g));
        let outcome = if overlap { format!("err:api id {idn}: the two ciphersuites share generators") } else { "ok:accepted".to_string() };
        push(out, format!("cross-suite-generators-{idn}-{}", if sha_first { "sha-first" } else { "shake-first" }), "Generators::create::<Sha> vs ::<Shake>", vec![idn.to_string()], outcome, "expect-ok");
    }
    // call sequences with varying counts, also from another thread
    let id = Some(b"sequence-api-id_".to_vec());
    let full = enc(&Generators::create::<Sha>(12, id.as_deref()));
    let mut problems: Vec<String> = vec![];
    for k in [5usize, 9, 3, 12, 0, 1, 12] {
        let g = enc(&Generators::create::<Sha>(k, id.as_deref()));
        if g.len() != k || g[..] != full[..k] { problems.push(format!("create({k}) after earlier calls is not the prefix of create(12)")); }
    }
    let id2 = id.clone();
    let from_thread = std::thread::spawn(move || enc(&Generators::create::<Sha>(12, id2.as_deref()))).join().unwrap();
    if from_thread != full { problems.push("create(12) on another thread differs".into()); }
    let outcome = if problems.is_empty() { "ok:accepted".to_string() } else { format!("err:{}", problems.join("; ")) };
    push(out, "generators-call-sequences".to_string(), "Generators::create sequence", vec![], outcome, "expect-ok");
}

/// C10: size limits of key generation and hash_to_scalar
pub fn limits<CS: BbsCiphersuite>(name: &str, out: &mut Vec<Value>)
where
    CS::Expander: for<'a> ExpandMsg<'a>,
{
    use zkryptium::utils::util::bbsplus_utils::hash_to_scalar;
    let cases: Vec<(&str, Vec<u8>, Option<Vec<u8>>, Option<Vec<u8>>, &str)> = vec![
        ("ikm-32", vec![7u8; 32], None, None, "expect-ok"),
        ("ikm-31", vec![7u8; 31], None, None, "expect-err"),
        ("ikm-0", vec![], None, None, "expect-err"),
        ("key_info-65535", IKM.to_vec(), Some(vec![1u8; 65535]), None, "expect-ok"),
        ("key_info-65536", IKM.to_vec(), Some(vec![1u8; 65536]), None, "expect-err"),
        ("key_dst-255", IKM.to_vec(), None, Some(vec![b'd'; 255]), "expect-ok"),
        ("key_dst-256", IKM.to_vec(), None, Some(vec![b'd'; 256]), "expect-err"),
        ("key_dst-1000", IKM.to_vec(), None, Some(vec![b'd'; 1000]), "expect-err"),
    ];
    for (id, ikm, ki, kd, expect) in cases {
        let outcome = guard(move || match KP::<CS>::generate(&ikm, ki.as_deref(), kd.as_deref()) {
            Ok(_) => "ok:accepted".to_string(),
            Err(e) => format!("err:{e:?}"),
        });
        push(out, format!("{name}-keygen-{id}"), "KeyPair::generate", vec![id.to_string()], outcome, expect);
    }
    // an absent key_dst is the draft's default api_id || "KEYGEN_DST_"; an absent key_info is the empty string
    let o = guard(|| {
        let dflt = [CS::API_ID, CS::KEYGEN_DST].concat();
        let a = KP::<CS>::generate(IKM, Some(b"info"), None).map(|k| k.private_key().to_bytes());
        let b = KP::<CS>::generate(IKM, Some(b"info"), Some(&dflt)).map(|k| k.private_key().to_bytes());
        let c = KP::<CS>::generate(IKM, None, None).map(|k| k.private_key().to_bytes());
        let d = KP::<CS>::generate(IKM, Some(b""), Some(&dflt)).map(|k| k.private_key().to_bytes());
        match (a, b, c, d) {
            (Ok(a), Ok(b), Ok(c), Ok(d)) => if a != b { "err:generate(.., key_dst = None) differs from the explicit default api_id || KEYGEN_DST_".into() } else if c != d { "err:generate(ikm, None, None) differs from generate(ikm, Some(\"\"), default)".into() } else { "ok:accepted".into() },
            _ => "err:key generation failed".into(),
        }
    });
    push(out, format!("{name}-keygen-default-key_dst"), "KeyPair::generate(key_dst = None) vs explicit default", vec![], o, "expect-ok");
    for (id, n, expect) in [("dst-255", 255usize, "expect-ok"), ("dst-256", 256, "expect-err"), ("dst-300", 300, "expect-err"), ("dst-0", 0, "expect-ok")] {
        let outcome = guard(move || match hash_to_scalar::<CS>(b"msg", &vec![b'x'; n]) {
            Ok(_) => "ok:accepted".to_string(),
            Err(e) => format!("err:{e:?}"),
        });
        push(out, format!("{name}-hash_to_scalar-{id}"), "hash_to_scalar", vec![id.to_string()], outcome, expect);
    }
}
