// Witness families: concrete inputs derived from honest artefacts, keyed by family name.
use crate::*;
use serde_json::{json, Value};

pub const IKM: &[u8] = b"this-IS-just-an-Test-IKM-to-generate-$e(r@t#-key";
pub const HEADER: &[u8] = b"\x11\x22\x33\x44\x55\x66\x77\x88\x99\x00\xaa\xbb\xcc\xdd\xee\xff";
pub const PH: &[u8] = b"presentation-header";

pub fn msgs(n: usize) -> Vec<Vec<u8>> {
    (0..n).map(|i| format!("message-{}", i).into_bytes()).collect()
}

pub struct Fix {
    pub pk: Vec<u8>,
    pub sk: Vec<u8>,
    pub sig: Vec<u8>,
    pub proof: Vec<u8>,
    pub commitment: Vec<u8>,
    pub blind: Vec<u8>,
}

pub fn fix() -> Fix {
    let kp = KP::<Sha>::generate(IKM, None, None).unwrap();
    let m = msgs(3);
    let sig = Sig::<Sha>::sign(Some(&m), kp.private_key(), kp.public_key(), Some(HEADER)).unwrap();
    let proof = Pok::<Sha>::proof_gen(kp.public_key(), &sig.to_bytes(), Some(HEADER), Some(PH), Some(&m), Some(&[0usize, 2usize])).unwrap();
    let (com, blind) = Com::<Sha>::commit(Some(&msgs(2))).unwrap();
    Fix {
        pk: kp.public_key().to_bytes().to_vec(),
        sk: kp.private_key().to_bytes().to_vec(),
        sig: sig.to_bytes().to_vec(),
        proof: proof.to_bytes(),
        commitment: com.to_bytes(),
        blind: blind.to_bytes().to_vec(),
    }
}

fn g1_identity() -> Vec<u8> {
    let mut v = vec![0u8; 48];
    v[0] = 0xc0;
    v
}
fn g2_identity() -> Vec<u8> {
    let mut v = vec![0u8; 96];
    v[0] = 0xc0;
    v
}
/// a point of E(Fp) outside the prime-order subgroup G1: (0, 2) has order 3 (compressed: 0x80 then zeros)
pub fn g1_low_order() -> Vec<u8> {
    let mut v = vec![0u8; 48];
    v[0] = 0x80;
    v
}
/// a point of the twist E'(Fp2) outside G2 (found by search; almost every point of the twist is outside G2)
pub fn g2_outside_subgroup() -> Option<bls12_381_plus::G2Affine> {
    for k in 0..=255u8 {
        for f in [0x80u8, 0xa0u8] {
            let mut v = [0u8; 96];
            v[0] = f;
            v[95] = k;
            let pt = bls12_381_plus::G2Affine::from_compressed_unchecked(&v);
            if bool::from(pt.is_some()) {
                let pt = pt.unwrap();
                if !bool::from(pt.is_torsion_free()) && !bool::from(pt.is_identity()) {
                    return Some(pt);
                }
            }
        }
    }
    None
}
/// the BLS12-381 scalar field modulus r, big endian (smallest non-canonical scalar encoding)
fn modulus_r() -> Vec<u8> {
    hex::decode("73eda753299d7d483339d80809a1d80553bda402fffe5bfeffffffff00000001").unwrap()
}

struct Probes {
    out: Vec<Value>,
}
impl Probes {
    fn dec(&mut self, id: String, call: &str, input: &[u8], tags: &[&str]) {
        let outcome = decode_call(call, input);
        self.out.push(json!({"id": id, "call": call, "inputs": [hex::encode(input)], "outcome": outcome, "tags": tags}));
    }
}

/// generic decoder family around an honest encoding `h`
fn decoder_family(p: &mut Probes, call: &str, h: &[u8], thorough: bool, fixed_len: bool) {
    p.dec("exact".into(), call, h, &["exact"]);
    // truncations: every length
    if !fixed_len {
        for l in 0..h.len() {
            p.dec(format!("trunc-{}", l), call, &h[..l], &["truncated"]);
        }
        // extensions by 1..=64 bytes (zeros, 0xff, and a repeat of the trailing scalar)
        for k in 1..=64usize {
            let mut a = h.to_vec();
            a.extend(std::iter::repeat(0u8).take(k));
            p.dec(format!("ext0-{}", k), call, &a, &["extended"]);
            if thorough || k <= 34 {
                let mut b = h.to_vec();
                b.extend(std::iter::repeat(0xffu8).take(k));
                p.dec(format!("extff-{}", k), call, &b, &["extended"]);
            }
        }
        if h.len() >= 32 {
            for reps in 1..=2 {
                let mut c = h.to_vec();
                for _ in 0..reps {
                    c.extend_from_slice(&h[h.len() - 32..]);
                }
                p.dec(format!("ext-scalar-{}", reps), call, &c, &["extended", "extended-by-scalars"]);
            }
        }
    }
    // single-bit flips
    let step = if thorough { 1 } else { 3 };
    let mut i = 0;
    while i < h.len() * 8 {
        let mut a = h.to_vec();
        a[i / 8] ^= 1 << (i % 8);
        p.dec(format!("flip-{}", i), call, &a, &["bitflip"]);
        i += step;
    }
}

/// probes of a statement-edit family speak for `base`; the cross-suite / cross-interface ones also for `cross`
fn tag_props(out: &mut Vec<Value>, base: &str, cross: Option<&str>) {
    for pr in out.iter_mut() {
        let is_cross = pr["id"].as_str().map(|s| s.contains("cross-")).unwrap_or(false);
        let honest = pr["tags"].as_array().map(|t| t.iter().any(|x| x == "expect-ok")).unwrap_or(false);
        if let Some(t) = pr["tags"].as_array_mut() {
            if !t.iter().any(|x| x.as_str().map(|s| s.starts_with("prop:")).unwrap_or(false)) {
                t.push(json!(format!("prop:{}", base)));
                if is_cross {
                    if let Some(c) = cross {
                        t.push(json!(format!("prop:{}", c)));
                    }
                }
                let _ = honest;
            }
        }
    }
}

fn replace(h: &[u8], off: usize, with: &[u8]) -> Vec<u8> {
    let mut a = h.to_vec();
    a[off..off + with.len()].copy_from_slice(with);
    a
}

pub fn run_family(name: &str, thorough: bool) -> Vec<Value> {
    // the honest artefacts the decoder families start from; the other families build their own
    let needs_fix = ["pk", "pk_coord", "sk", "sig", "sig_allflips", "pok", "zkpok", "commitment", "blindfactor", "message"].contains(&name);
    let f = if needs_fix { fix() } else { Fix { pk: vec![], sk: vec![], sig: vec![], proof: vec![], commitment: vec![], blind: vec![] } };
    let mut p = Probes { out: vec![] };
    match name {
        "pk" => {
            decoder_family(&mut p, "pk.from_bytes", &f.pk, thorough, false);
            p.dec("identity".into(), "pk.from_bytes", &g2_identity(), &["forbidden-identity"]);
            p.dec("empty".into(), "pk.from_bytes", &[], &["truncated"]);
            if let Some(q) = g2_outside_subgroup() {
                p.dec("point-outside-G2".into(), "pk.from_bytes", &q.to_compressed(), &["forbidden-nonsubgroup"]);
            }
        }
        "pk_coord" => {
            let pk = BBSplusPublicKey::from_bytes(&f.pk).unwrap();
            let (x, y) = pk.to_coordinates();
            let h = [x.to_vec(), y.to_vec()].concat();
            decoder_family(&mut p, "pk.from_coordinates", &h, thorough, true);
            // uncompressed identity: 0x40 then zeros
            let mut id = vec![0u8; 192];
            id[0] = 0x40;
            p.dec("identity".into(), "pk.from_coordinates", &id, &["forbidden-identity"]);
            // swapped coordinates
            let sw = [y.to_vec(), x.to_vec()].concat();
            p.dec("swapped".into(), "pk.from_coordinates", &sw, &["swapped"]);
            if let Some(q) = g2_outside_subgroup() {
                p.dec("point-outside-G2".into(), "pk.from_coordinates", &q.to_uncompressed(), &["forbidden-nonsubgroup"]);
            }
        }
        "sk" => {
            decoder_family(&mut p, "sk.from_bytes", &f.sk, thorough, false);
            p.dec("modulus".into(), "sk.from_bytes", &modulus_r(), &["noncanonical"]);
            p.dec("ff".into(), "sk.from_bytes", &[0xffu8; 32], &["noncanonical"]);
        }
        "sig" => {
            decoder_family(&mut p, "sig.from_bytes", &f.sig, thorough, true);
            p.dec("identity-A".into(), "sig.from_bytes", &replace(&f.sig, 0, &g1_identity()), &["forbidden-identity"]);
            p.dec("zero-e".into(), "sig.from_bytes", &replace(&f.sig, 48, &[0u8; 32]), &["forbidden-zero-e"]);
            p.dec("low-order-A".into(), "sig.from_bytes", &replace(&f.sig, 0, &g1_low_order()), &["forbidden-nonsubgroup"]);
            p.dec("modulus-e".into(), "sig.from_bytes", &replace(&f.sig, 48, &modulus_r()), &["noncanonical"]);
        }
        "sig_allflips" => {
            decoder_family(&mut p, "sig.from_bytes", &f.sig, true, true);
            decoder_family(&mut p, "pok.from_bytes", &f.proof, true, false);
        }
        "pok" => {
            decoder_family(&mut p, "pok.from_bytes", &f.proof, thorough, false);
            for (k, nm) in [(0usize, "Abar"), (48, "Bbar"), (96, "D")] {
                p.dec(format!("identity-{}", nm), "pok.from_bytes", &replace(&f.proof, k, &g1_identity()), &["forbidden-identity"]);
                p.dec(format!("low-order-{}", nm), "pok.from_bytes", &replace(&f.proof, k, &g1_low_order()), &["forbidden-nonsubgroup"]);
            }
            p.dec("modulus-ecap".into(), "pok.from_bytes", &replace(&f.proof, 144, &modulus_r()), &["noncanonical"]);
            p.dec("empty".into(), "pok.from_bytes", &[], &["truncated"]);
            // honest proofs with many undisclosed messages decode to themselves
            let kp = KP::<Sha>::generate(IKM, None, None).unwrap();
            for l in [64usize, 127, 128, 129, 200] {
                let m = msgs(l);
                let sig = Sig::<Sha>::sign(Some(&m), kp.private_key(), kp.public_key(), Some(HEADER)).unwrap();
                // (a generator that panics or refuses here is reported by the completeness families, not by this decoder family)
                let r = std::panic::catch_unwind(std::panic::AssertUnwindSafe(|| Pok::<Sha>::proof_gen(kp.public_key(), &sig.to_bytes(), Some(HEADER), Some(PH), Some(&m), None)));
                if let Ok(Ok(pr)) = r {
                    p.dec(format!("honest-U{}", l), "pok.from_bytes", &pr.to_bytes(), &["exact"]);
                }
            }
        }
        "zkpok" => {
            let h = &f.commitment[48..];
            decoder_family(&mut p, "zkpok.from_bytes", h, thorough, false);
            p.dec("modulus".into(), "zkpok.from_bytes", &replace(h, 0, &modulus_r()), &["noncanonical"]);
            p.dec("empty".into(), "zkpok.from_bytes", &[], &["truncated"]);
        }
        "commitment" => {
            decoder_family(&mut p, "commitment.from_bytes", &f.commitment, thorough, false);
            p.dec("empty".into(), "commitment.from_bytes", &[], &["truncated"]);
            p.dec("low-order-C".into(), "commitment.from_bytes", &replace(&f.commitment, 0, &g1_low_order()), &["forbidden-nonsubgroup"]);
            // honest encodings with many committed messages decode to themselves (sizes far from the fixtures)
            for mm in [64usize, 127, 128, 129, 200] {
                let r = std::panic::catch_unwind(std::panic::AssertUnwindSafe(|| Com::<Sha>::commit(Some(&msgs(mm)))));
                let cb = match r { Ok(Ok((c, _b))) => c.to_bytes(), _ => continue };
                p.dec(format!("honest-M{}", mm), "commitment.from_bytes", &cb, &["exact"]);
                p.dec(format!("honest-M{}-zkpok", mm), "zkpok.from_bytes", &cb[48..], &["exact"]);
                let mut ext = cb.clone();
                ext.extend_from_slice(&cb[cb.len() - 32..]);
                p.dec(format!("honest-M{}-ext-scalar", mm), "commitment.from_bytes", &ext, &["extended", "extended-by-scalars"]);
            }
        }
        "blindfactor" => {
            decoder_family(&mut p, "blindfactor.from_bytes", &f.blind, thorough, true);
            p.dec("modulus".into(), "blindfactor.from_bytes", &modulus_r(), &["noncanonical"]);
        }
        "message" => {
            decoder_family(&mut p, "message.from_bytes_be", &f.blind, thorough, true);
            p.dec("modulus".into(), "message.from_bytes_be", &modulus_r(), &["noncanonical"]);
        }
        "sig_complete" => { crate::props::sig_complete::<Sha>("sha256", &mut p.out, thorough); crate::props::sig_complete::<Shake>("shake256", &mut p.out, thorough); }
        "sig_binding" => {
            crate::props::sig_binding::<Sha>("sha256", &mut p.out, thorough);
            crate::props::sig_binding::<Shake>("shake256", &mut p.out, thorough);
            crate::props::cross_suite(&mut p.out);
            // edits of the statement speak for C02; the cross-suite / cross-interface probes also for C11 (domain separation)
            for pr in p.out.iter_mut() {
                let cross = pr["id"].as_str().map(|s| s.contains("cross-")).unwrap_or(false);
                if let Some(t) = pr["tags"].as_array_mut() {
                    t.push(json!("prop:C02"));
                    if cross {
                        t.push(json!("prop:C11"));
                        t.push(json!("prop:C04"));
                    }
                }
            }
        }
        "proof_complete" => { crate::props::proof_complete::<Sha>("sha256", &mut p.out, thorough); crate::props::proof_complete::<Shake>("shake256", &mut p.out, thorough); }
        "proof_sound" => {
            crate::props::proof_sound::<Sha>("sha256", &mut p.out, thorough);
            crate::props::proof_sound::<Shake>("shake256", &mut p.out, thorough);
            crate::props::cross_suite(&mut p.out);
            tag_props(&mut p.out, "C04", Some("C11"));
        }
        "blind_complete" => { crate::props::blind_complete::<Sha>("sha256", &mut p.out, thorough); crate::props::blind_complete::<Shake>("shake256", &mut p.out, thorough); }
        "blind_sound" => {
            crate::props::blind_sound::<Sha>("sha256", &mut p.out, thorough);
            crate::props::blind_sound::<Shake>("shake256", &mut p.out, thorough);
            tag_props(&mut p.out, "C06", Some("C11"));
        }
        "update_history" => { crate::props::update_history::<Sha>("sha256", &mut p.out, thorough); crate::props::update_history::<Shake>("shake256", &mut p.out, thorough); }
        "generators" => { crate::props::generators::<Sha>("sha256", &mut p.out, thorough); crate::props::generators::<Shake>("shake256", &mut p.out, thorough); crate::props::generators_cross(&mut p.out); }
        "limits" => { crate::props::limits::<Sha>("sha256", &mut p.out); crate::props::limits::<Shake>("shake256", &mut p.out); }
        "fresh" => { crate::props::fresh::<Sha>("sha256", &mut p.out); crate::props::fresh::<Shake>("shake256", &mut p.out); }
        "history" => { crate::history::run(&mut p.out, thorough); }
        "consts" => {
            consts::run(&mut p.out);
        }
        "forgery" => {
            forgery::run_suite::<Sha>("sha256", &mut p.out);
            forgery::run_suite::<Shake>("shake256", &mut p.out);
        }
        "blind_counts" => {
            // blind_proof_verify with counts / indexes that do not fit the proof
            let kp = KP::<Sha>::generate(IKM, None, None).unwrap();
            let m = msgs(2);
            let cm = msgs(2);
            let (com, blind) = Com::<Sha>::commit(Some(&cm)).unwrap();
            let bsig = BSig::<Sha>::blind_sign(kp.private_key(), kp.public_key(), Some(&com.to_bytes()), Some(HEADER), Some(&m)).unwrap();
            let proof = Pok::<Sha>::blind_proof_gen(kp.public_key(), &bsig.to_bytes(), Some(HEADER), Some(PH), Some(&m), Some(&cm), Some(&[0usize]), Some(&[1usize]), Some(&blind)).unwrap();
            let pb = proof.to_bytes();
            let pkb = kp.public_key().to_bytes();
            let cases: Vec<(usize, Vec<usize>, Vec<usize>, &str)> = vec![
                (2, vec![0], vec![1], "honest"),
                (100, vec![0], vec![1], "L larger than the proof allows"),
                (usize::MAX, vec![0], vec![1], "L == usize::MAX"),
                (2, vec![0], vec![usize::MAX], "commitment index usize::MAX"),
                (2, vec![usize::MAX], vec![1], "index usize::MAX"),
                (0, vec![], vec![], "L = 0, nothing disclosed"),
            ];
            for (l, di, dj, d) in cases {
                let (pb2, pkb2, m2, cm2) = (pb.clone(), pkb.clone(), m.clone(), cm.clone());
                let (di2, dj2) = (di.clone(), dj.clone());
                let outcome = guard(move || {
                    let pk = BBSplusPublicKey::from_bytes(&pkb2).unwrap();
                    let p = Pok::<Sha>::from_bytes(&pb2).unwrap();
                    let dm: Vec<Vec<u8>> = di2.iter().filter(|i| **i < m2.len()).map(|i| m2[*i].clone()).collect();
                    let dcm: Vec<Vec<u8>> = dj2.iter().filter(|i| **i < cm2.len()).map(|i| cm2[*i].clone()).collect();
                    match p.blind_proof_verify(&pk, Some(HEADER), Some(PH), Some(l), Some(&dm), Some(&dcm), Some(&di2), Some(&dj2)) {
                        Ok(()) => "ok:verified".to_string(),
                        Err(e) => format!("err:{e:?}"),
                    }
                });
                p.out.push(json!({"id": d, "call": "blind_proof_verify", "inputs": [format!("{:x}", l), format!("{:?}", di), format!("{:?}", dj)], "outcome": outcome, "tags": ["counts"]}));
            }
        }
        "proof_gen_counts" => {
            // holder entry points with index lists that do not fit the message list: Err, never a panic
            let kp = KP::<Sha>::generate(IKM, None, None).unwrap();
            let m = msgs(3);
            let sig = Sig::<Sha>::sign(Some(&m), kp.private_key(), kp.public_key(), Some(HEADER)).unwrap();
            let cases: Vec<(Vec<usize>, &str)> = vec![
                (vec![usize::MAX], "index usize::MAX"), (vec![0, usize::MAX], "indexes 0, usize::MAX"), (vec![usize::MAX - 1], "index usize::MAX - 1"),
                (vec![3], "index == L"), (vec![4], "index L + 1"), (vec![0, 1, 2, 3], "more indexes than messages"), (vec![2, 2], "repeated index"),
                (vec![usize::MAX, usize::MAX], "two usize::MAX"), (vec![1usize << 63], "index 2^63"),
            ];
            for (di, d) in cases {
                let (sb, pkb, m2, di2) = (sig.to_bytes(), kp.public_key().to_bytes(), m.clone(), di.clone());
                let outcome = guard(move || {
                    let pk = BBSplusPublicKey::from_bytes(&pkb).unwrap();
                    match Pok::<Sha>::proof_gen(&pk, &sb, Some(HEADER), Some(PH), Some(&m2), Some(&di2)) {
                        Ok(_) => "ok:generated".to_string(),
                        Err(e) => format!("err:{e:?}"),
                    }
                });
                p.out.push(json!({"id": format!("proof_gen-{}", d), "call": "proof_gen", "inputs": [format!("{:?}", di)], "outcome": outcome, "tags": if d == "repeated index" { vec!["counts"] } else { vec!["expect-err", "counts"] }}));
                let (sb, pkb, m2, di2) = (sig.to_bytes(), kp.public_key().to_bytes(), m.clone(), di.clone());
                let outcome = guard(move || {
                    let pk = BBSplusPublicKey::from_bytes(&pkb).unwrap();
                    match Pok::<Sha>::blind_proof_gen(&pk, &sb, Some(HEADER), Some(PH), Some(&m2), None, Some(&di2), None, None) {
                        Ok(_) => "ok:generated".to_string(),
                        Err(e) => format!("err:{e:?}"),
                    }
                });
                p.out.push(json!({"id": format!("blind_proof_gen-{}", d), "call": "blind_proof_gen", "inputs": [format!("{:?}", di)], "outcome": outcome, "tags": if d == "repeated index" { vec!["counts"] } else { vec!["expect-err", "counts"] }}));
            }
        }
        "update_signature" => {
            let kp = KP::<Sha>::generate(IKM, None, None).unwrap();
            let m = msgs(3);
            let sig = Sig::<Sha>::sign(Some(&m), kp.private_key(), kp.public_key(), Some(HEADER)).unwrap();
            let cases: Vec<(usize, usize, &str)> = vec![
                (2, 3, "valid"),
                (3, 3, "index == n"),
                (0, usize::MAX, "n == usize::MAX"),
                (usize::MAX, 3, "update_index == usize::MAX"),
                (usize::MAX - 1, usize::MAX - 1, "n + 1 == usize::MAX, index out of range"),
                (usize::MAX, usize::MAX, "both max"),
            ];
            for (idx, n, d) in cases {
                let sigc = sig.clone();
                let skb = kp.private_key().to_bytes();
                let outcome = guard(move || {
                    let sk = BBSplusSecretKey::from_bytes(&skb).unwrap();
                    match sigc.update_signature(&sk, b"message-2", b"new", idx, n) {
                        Ok(s) => format!("ok:{}", hex::encode(s.to_bytes())),
                        Err(e) => format!("err:{e:?}"),
                    }
                });
                p.out.push(json!({"id": d, "call": "update_signature", "inputs": [format!("{:x}", idx), format!("{:x}", n)], "outcome": outcome, "tags": ["counts"]}));
            }
        }
        _ => {
            p.out.push(json!({"id": "unknown-family", "call": "", "inputs": [], "outcome": "err:driver: unknown family", "tags": ["driver-error"]}));
        }
    }
    p.out
}

pub fn run_one(call: &str, ins: &[Vec<u8>]) -> String {
    if ins.len() == 1 && call.ends_with("from_bytes") || call.ends_with("from_coordinates") || call.ends_with("from_bytes_be") {
        return decode_call(call, &ins[0]);
    }
    "err:driver: unknown call".to_string()
}

// ---- C04: degenerate-element forgery family (no signature, public data only) -------------------------
pub mod forgery {
    use super::*;
    use bls12_381_plus::{G1Projective, Scalar};
    use elliptic_curve::group::Curve;
    use elliptic_curve::hash2curve::ExpandMsg;
    use zkryptium::bbsplus::ciphersuites::BbsCiphersuite;
    use zkryptium::bbsplus::generators::Generators;
    use zkryptium::utils::util::bbsplus_utils::{hash_to_scalar, i2osp};

    fn domain<CS: BbsCiphersuite>(pk: &BBSplusPublicKey, gens: &Generators, header: &[u8], api_id: &[u8]) -> Scalar
    where
        CS::Expander: for<'a> ExpandMsg<'a>,
    {
        let l = gens.values.len() - 1;
        let mut dom: Vec<u8> = Vec::new();
        dom.extend_from_slice(&pk.to_bytes());
        dom.extend_from_slice(&i2osp::<8>(l));
        for g in gens.values.iter() {
            dom.extend_from_slice(&g.to_affine().to_compressed());
        }
        dom.extend_from_slice(api_id);
        dom.extend_from_slice(&i2osp::<8>(header.len()));
        dom.extend_from_slice(header);
        hash_to_scalar::<CS>(&dom, &[api_id, CS::H2S].concat()).unwrap()
    }

    /// Build, from PUBLIC data only, a proof whose points are degenerate and whose responses cancel the
    /// verifier's recomputation; returns the JSON of a PoKSignature.
    pub fn forge<CS: BbsCiphersuite>(pk: &BBSplusPublicKey, header: &[u8], ph: &[u8], claimed: &[Vec<u8>], idx: &[usize], u: usize, variant: &str) -> Value
    where
        CS::Expander: for<'a> ExpandMsg<'a>,
    {
        let api_id = CS::API_ID;
        let l = u + idx.len();
        let gens = Generators::create::<CS>(l + 1, Some(api_id));
        let dm = BBSplusMessage::messages_to_scalar::<CS>(claimed, api_id).unwrap();
        let dom = domain::<CS>(pk, &gens, header, api_id);
        let q1 = gens.values[0];
        let h = &gens.values[1..];
        let mut bv = gens.g1_base_point + q1 * dom;
        for (k, i) in idx.iter().enumerate() {
            bv += h[*i] * dm[k].value;
        }
        let und: Vec<usize> = (0..l).filter(|i| !idx.contains(i)).collect();
        let m_cap: Vec<Scalar> = (0..u).map(|j| Scalar::from(1000u64 + j as u64)).collect();
        let r1_cap = Scalar::from(7u64);
        let e_cap = Scalar::ZERO;
        let (abar, bbar, d) = match variant {
            "identity-Abar-Bbar" => (G1Projective::IDENTITY, G1Projective::IDENTITY, bv),
            _ => (G1Projective::IDENTITY, G1Projective::IDENTITY, bv),
        };
        // T1 = Bbar*c + Abar*e^ + D*r1^ = D*r1^ ;  T2 = Bv*c + D*r3^ + sum H_j m^_j = sum H_j m^_j  when D = Bv, r3^ = -c
        let t1 = d * r1_cap;
        let mut t2 = G1Projective::IDENTITY;
        for (j, i) in und.iter().enumerate() {
            t2 += h[*i] * m_cap[j];
        }
        let mut c_arr: Vec<u8> = Vec::new();
        c_arr.extend_from_slice(&i2osp::<8>(idx.len()));
        for (k, i) in idx.iter().enumerate() {
            c_arr.extend_from_slice(&i2osp::<8>(*i));
            c_arr.extend_from_slice(&dm[k].value.to_be_bytes());
        }
        for p in [abar, bbar, d, t1, t2] {
            c_arr.extend_from_slice(&p.to_affine().to_compressed());
        }
        c_arr.extend_from_slice(&dom.to_be_bytes());
        c_arr.extend_from_slice(&i2osp::<8>(ph.len()));
        c_arr.extend_from_slice(ph);
        let c = hash_to_scalar::<CS>(&c_arr, &[api_id, CS::H2S].concat()).unwrap();
        let r3_cap = -c;
        json!({"BBSplus": {
            "Abar": serde_json::to_value(&abar).unwrap(), "Bbar": serde_json::to_value(&bbar).unwrap(), "D": serde_json::to_value(&d).unwrap(),
            "e_cap": serde_json::to_value(&e_cap).unwrap(), "r1_cap": serde_json::to_value(&r1_cap).unwrap(), "r3_cap": serde_json::to_value(&r3_cap).unwrap(),
            "m_cap": serde_json::to_value(&m_cap).unwrap(), "challenge": serde_json::to_value(&c).unwrap(),
        }})
    }

    /// octets of a proof with Abar = Bbar = the order-3 point (0, 2), D = Bv, e^ = 0, r3^ = -c, built from public data only
    pub fn forge_low_order<CS: BbsCiphersuite>(pk: &BBSplusPublicKey, header: &[u8], ph: &[u8], claimed: &[Vec<u8>], idx: &[usize], u: usize) -> Option<Vec<u8>>
    where
        CS::Expander: for<'a> ExpandMsg<'a>,
    {
        let api_id = CS::API_ID;
        let l = u + idx.len();
        let gens = Generators::create::<CS>(l + 1, Some(api_id));
        let dm = BBSplusMessage::messages_to_scalar::<CS>(claimed, api_id).unwrap();
        let dom = domain::<CS>(pk, &gens, header, api_id);
        let h = &gens.values[1..];
        let mut bv = gens.g1_base_point + gens.values[0] * dom;
        for (k, i) in idx.iter().enumerate() {
            bv += h[*i] * dm[k].value;
        }
        let und: Vec<usize> = (0..l).filter(|i| !idx.contains(i)).collect();
        let m_cap: Vec<Scalar> = (0..u).map(|j| Scalar::from(1000u64 + j as u64)).collect();
        let mut t2 = G1Projective::IDENTITY;
        for (j, i) in und.iter().enumerate() {
            t2 += h[*i] * m_cap[j];
        }
        let low = super::g1_low_order();
        for k in 1..200u64 {
            let r1_cap = Scalar::from(k);
            let t1 = bv * r1_cap;
            let mut c_arr: Vec<u8> = Vec::new();
            c_arr.extend_from_slice(&i2osp::<8>(idx.len()));
            for (kk, i) in idx.iter().enumerate() {
                c_arr.extend_from_slice(&i2osp::<8>(*i));
                c_arr.extend_from_slice(&dm[kk].value.to_be_bytes());
            }
            c_arr.extend_from_slice(&low);
            c_arr.extend_from_slice(&low);
            for p in [bv, t1, t2] {
                c_arr.extend_from_slice(&p.to_affine().to_compressed());
            }
            c_arr.extend_from_slice(&dom.to_be_bytes());
            c_arr.extend_from_slice(&i2osp::<8>(ph.len()));
            c_arr.extend_from_slice(ph);
            let c = hash_to_scalar::<CS>(&c_arr, &[api_id, CS::H2S].concat()).unwrap();
            let rem = c.to_be_bytes().iter().fold(0u32, |acc, b| (acc * 256 + *b as u32) % 3);
            if rem != 0 {
                continue;
            }
            let mut out: Vec<u8> = Vec::new();
            out.extend_from_slice(&low);
            out.extend_from_slice(&low);
            out.extend_from_slice(&bv.to_affine().to_compressed());
            out.extend_from_slice(&Scalar::ZERO.to_be_bytes());
            out.extend_from_slice(&r1_cap.to_be_bytes());
            out.extend_from_slice(&(-c).to_be_bytes());
            for m in m_cap.iter() {
                out.extend_from_slice(&m.to_be_bytes());
            }
            out.extend_from_slice(&c.to_be_bytes());
            return Some(out);
        }
        None
    }

    pub fn run_suite<CS: BbsCiphersuite>(name: &str, out: &mut Vec<Value>)
    where
        CS::Expander: for<'a> ExpandMsg<'a>,
    {
        // an unrelated, honestly generated public key: the adversary has no signature under it
        let kp = KP::<CS>::generate(IKM, Some(b"victim"), None).unwrap();
        let pk = kp.public_key().clone();
        let cases: Vec<(Vec<Vec<u8>>, Vec<usize>, usize)> = vec![
            (vec![b"I am the admin".to_vec()], vec![0], 0),
            (vec![b"claim-0".to_vec(), b"claim-2".to_vec()], vec![0, 2], 2),
            (vec![], vec![], 3),
        ];
        for (ci, (claimed, idx, u)) in cases.iter().enumerate() {
            let js = forge::<CS>(&pk, HEADER, PH, claimed, idx, *u, "identity-Abar-Bbar");
            let js_s = js.to_string();
            let pkb = pk.to_bytes();
            let (claimed2, idx2) = (claimed.clone(), idx.clone());
            let js2 = js.clone();
            let outcome = guard(move || {
                let pk = BBSplusPublicKey::from_bytes(&pkb).unwrap();
                let proof: Pok<CS> = match serde_json::from_value(js2) {
                    Ok(p) => p,
                    Err(e) => return format!("err:deserialize:{e}"),
                };
                match proof.proof_verify(&pk, Some(&claimed2), Some(&idx2), Some(HEADER), Some(PH)) {
                    Ok(()) => "ok:forged proof ACCEPTED".to_string(),
                    Err(e) => format!("err:{e:?}"),
                }
            });
            out.push(json!({"id": format!("{}-forgery-{}", name, ci), "call": "proof_verify(json)", "inputs": [hex::encode(js_s.as_bytes())], "outcome": outcome, "tags": ["forgery", "identity"]}));
            // the same forgery with the order-3 point (0, 2) of E(Fp) in place of the identity: not the identity, pairs trivially;
            // needs a challenge c = 0 (mod 3) so that Bbar*c vanishes (one try in three over r1^)
            if let Some(bytes) = forge_low_order::<CS>(&pk, HEADER, PH, claimed, idx, *u) {
                let pkb = pk.to_bytes();
                let (claimed2, idx2, b2) = (claimed.clone(), idx.clone(), bytes.clone());
                let outcome = guard(move || {
                    let pk = BBSplusPublicKey::from_bytes(&pkb).unwrap();
                    let proof = match Pok::<CS>::from_bytes(&b2) {
                        Ok(p) => p,
                        Err(e) => return format!("err:decode:{e:?}"),
                    };
                    match proof.proof_verify(&pk, Some(&claimed2), Some(&idx2), Some(HEADER), Some(PH)) {
                        Ok(()) => "ok:forged proof ACCEPTED".to_string(),
                        Err(e) => format!("err:{e:?}"),
                    }
                });
                out.push(json!({"id": format!("{}-forgery-low-order-{}", name, ci), "call": "from_bytes;proof_verify", "inputs": [hex::encode(&bytes)], "outcome": outcome, "tags": ["forgery", "low-order"]}));
            }
        }
    }
}


// ---- closed facts about the real ciphersuite constants (evaluation of closed terms: complete) ---------
pub mod consts {
    use super::*;
    use bls12_381_plus::G1Projective;
    use elliptic_curve::Group;
    use zkryptium::bbsplus::ciphersuites::BbsCiphersuite;

    fn fact(out: &mut Vec<Value>, id: &str, ok: bool, detail: String) {
        out.push(json!({"id": id, "call": "const-eval", "inputs": [detail], "outcome": if ok { "ok:holds" } else { "err:VIOLATED" }, "tags": ["const"]}));
    }

    fn suite<CS: BbsCiphersuite>(name: &str, out: &mut Vec<Value>) -> Vec<(String, Vec<u8>)> {
        let p1 = G1Projective::from_compressed_hex(CS::P1);
        let ok = bool::from(p1.is_some());
        fact(out, &format!("{name}.P1.decodes"), ok, CS::P1.to_string());
        if ok {
            let p = p1.unwrap();
            fact(out, &format!("{name}.P1.not_identity"), !bool::from(p.is_identity()), String::new());
            fact(out, &format!("{name}.P1.not_generator"), p != G1Projective::GENERATOR, String::new());
        }
        fact(out, &format!("{name}.API_ID.len<=64"), CS::API_ID.len() <= 64, format!("{}", CS::API_ID.len()));
        fact(out, &format!("{name}.API_ID_BLIND.len<=64"), CS::API_ID_BLIND.len() <= 64, format!("{}", CS::API_ID_BLIND.len()));
        fact(out, &format!("{name}.API_ID == ID || H2G_HM2S_"), CS::API_ID == [CS::ID, b"H2G_HM2S_"].concat().as_slice(), String::new());
        fact(out, &format!("{name}.API_ID_BLIND == ID || BLIND_H2G_HM2S_"), CS::API_ID_BLIND == [CS::ID, b"BLIND_H2G_HM2S_"].concat().as_slice(), String::new());
        fact(out, &format!("{name}.IKM_LEN == 32 && EXPAND_LEN == 48"), CS::IKM_LEN == 32 && CS::EXPAND_LEN == 48, String::new());
        let blind_prefix = [b"BLIND_".as_slice(), CS::API_ID_BLIND].concat();
        vec![
            (format!("{name}.API_ID"), CS::API_ID.to_vec()),
            (format!("{name}.API_ID_BLIND"), CS::API_ID_BLIND.to_vec()),
            (format!("{name}.BLIND_||API_ID_BLIND"), blind_prefix),
        ]
    }

    pub fn run(out: &mut Vec<Value>) {
        let mut ids = suite::<Sha>("sha256", out);
        ids.extend(suite::<Shake>("shake256", out));
        // api ids: pairwise distinct, none a prefix of another
        for i in 0..ids.len() {
            for j in 0..ids.len() {
                if i != j {
                    let (a, b) = (&ids[i].1, &ids[j].1);
                    let is_prefix = b.len() >= a.len() && &b[..a.len()] == a.as_slice();
                    fact(out, &format!("not_prefix({}, {})", ids[i].0, ids[j].0), !is_prefix, String::new());
                }
            }
        }
        // every derived DST fits 255 octets and DSTs of different api ids differ
        let suffixes: Vec<&[u8]> = vec![b"H2S_", b"MAP_MSG_TO_SCALAR_AS_HASH_", b"SIG_GENERATOR_SEED_", b"SIG_GENERATOR_DST_", b"KEYGEN_DST_", b"MESSAGE_GENERATOR_SEED"];
        let mut dsts: Vec<(String, Vec<u8>)> = vec![];
        for (n, a) in ids.iter() {
            for s in suffixes.iter() {
                let d = [a.as_slice(), s].concat();
                fact(out, &format!("len({} || {}) <= 255", n, String::from_utf8_lossy(s)), d.len() <= 255, format!("{}", d.len()));
                dsts.push((format!("{}||{}", n, String::from_utf8_lossy(s)), d));
            }
        }
        let mut all_distinct = true;
        for i in 0..dsts.len() {
            for j in (i + 1)..dsts.len() {
                if dsts[i].1 == dsts[j].1 {
                    all_distinct = false;
                    fact(out, &format!("distinct({}, {})", dsts[i].0, dsts[j].0), false, String::new());
                }
            }
        }
        fact(out, "all derived DSTs pairwise distinct", all_distinct, format!("{} DSTs", dsts.len()));
    }
}
