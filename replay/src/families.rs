// Witness families: concrete inputs derived from honest artefacts, keyed by family name.
use crate::*;
use serde_json::{json, Value};

pub const IKM: &[u8] = b"this-IS-just-an-Test-IKM-to-generate-$e(r@t#-key";
pub const HEADER: &[u8] = b"\x11\x22\x33\x44\x55\x66\x77\x88\x99\x00\xaa\xbb\xcc\xdd\xee\xff";
pub const PH: &[u8] = b"presentation-header";

pub fn msgs(n: usize) -> Vec<Vec<u8>> {
    (0..n).map(|i| format!("message-{}", i).into_bytes()).collect()
}

pub struct Fix {
    pub pk: Vec<u8>,
    pub sk: Vec<u8>,
    pub sig: Vec<u8>,
    pub proof: Vec<u8>,
    pub commitment: Vec<u8>,
    pub blind: Vec<u8>,
}

pub fn fix() -> Fix {
    let kp = KP::<Sha>::generate(IKM, None, None).unwrap();
    let m = msgs(3);
    let sig = Sig::<Sha>::sign(Some(&m), kp.private_key(), kp.public_key(), Some(HEADER)).unwrap();
    let proof = Pok::<Sha>::proof_gen(kp.public_key(), &sig.to_bytes(), Some(HEADER), Some(PH), Some(&m), Some(&[0usize, 2usize])).unwrap();
    let (com, blind) = Com::<Sha>::commit(Some(&msgs(2))).unwrap();
    Fix {
        pk: kp.public_key().to_bytes().to_vec(),
        sk: kp.private_key().to_bytes().to_vec(),
        sig: sig.to_bytes().to_vec(),
        proof: proof.to_bytes(),
        commitment: com.to_bytes(),
        blind: blind.to_bytes().to_vec(),
    }
}

fn g1_identity() -> Vec<u8> {
    let mut v = vec![0u8; 48];
    v[0] = 0xc0;
    v
}
fn g2_identity() -> Vec<u8> {
    let mut v = vec![0u8; 96];
    v[0] = 0xc0;
    v
}
/// the BLS12-381 scalar field modulus r, big endian (smallest non-canonical scalar encoding)
fn modulus_r() -> Vec<u8> {
    hex::decode("73eda753299d7d483339d80809a1d80553bda402fffe5bfeffffffff00000001").unwrap()
}

struct Probes {
    out: Vec<Value>,
}
impl Probes {
    fn dec(&mut self, id: String, call: &str, input: &[u8], tags: &[&str]) {
        let outcome = decode_call(call, input);
        self.out.push(json!({"id": id, "call": call, "inputs": [hex::encode(input)], "outcome": outcome, "tags": tags}));
    }
}

/// generic decoder family around an honest encoding `h`
fn decoder_family(p: &mut Probes, call: &str, h: &[u8], thorough: bool, fixed_len: bool) {
    p.dec("exact".into(), call, h, &["exact"]);
    // truncations: every length
    if !fixed_len {
        for l in 0..h.len() {
            p.dec(format!("trunc-{}", l), call, &h[..l], &["truncated"]);
        }
        // extensions by 1..=64 bytes (zeros, 0xff, and a repeat of the trailing scalar)
        for k in 1..=64usize {
            let mut a = h.to_vec();
            a.extend(std::iter::repeat(0u8).take(k));
            p.dec(format!("ext0-{}", k), call, &a, &["extended"]);
            if thorough || k <= 34 {
                let mut b = h.to_vec();
                b.extend(std::iter::repeat(0xffu8).take(k));
                p.dec(format!("extff-{}", k), call, &b, &["extended"]);
            }
        }
        if h.len() >= 32 {
            for reps in 1..=2 {
                let mut c = h.to_vec();
                for _ in 0..reps {
                    c.extend_from_slice(&h[h.len() - 32..]);
                }
                p.dec(format!("ext-scalar-{}", reps), call, &c, &["extended", "extended-by-scalars"]);
            }
        }
    }
    // single-bit flips
    let step = if thorough { 1 } else { 3 };
    let mut i = 0;
    while i < h.len() * 8 {
        let mut a = h.to_vec();
        a[i / 8] ^= 1 << (i % 8);
        p.dec(format!("flip-{}", i), call, &a, &["bitflip"]);
        i += step;
    }
}

fn replace(h: &[u8], off: usize, with: &[u8]) -> Vec<u8> {
    let mut a = h.to_vec();
    a[off..off + with.len()].copy_from_slice(with);
    a
}

pub fn run_family(name: &str, thorough: bool) -> Vec<Value> {
    let f = fix();
    let mut p = Probes { out: vec![] };
    match name {
        "pk" => {
            decoder_family(&mut p, "pk.from_bytes", &f.pk, thorough, false);
            p.dec("identity".into(), "pk.from_bytes", &g2_identity(), &["forbidden-identity"]);
            p.dec("empty".into(), "pk.from_bytes", &[], &["truncated"]);
        }
        "pk_coord" => {
            let pk = BBSplusPublicKey::from_bytes(&f.pk).unwrap();
            let (x, y) = pk.to_coordinates();
            let h = [x.to_vec(), y.to_vec()].concat();
            decoder_family(&mut p, "pk.from_coordinates", &h, thorough, true);
            // uncompressed identity: 0x40 then zeros
            let mut id = vec![0u8; 192];
            id[0] = 0x40;
            p.dec("identity".into(), "pk.from_coordinates", &id, &["forbidden-identity"]);
            // swapped coordinates
            let sw = [y.to_vec(), x.to_vec()].concat();
            p.dec("swapped".into(), "pk.from_coordinates", &sw, &["swapped"]);
        }
        "sk" => {
            decoder_family(&mut p, "sk.from_bytes", &f.sk, thorough, false);
            p.dec("modulus".into(), "sk.from_bytes", &modulus_r(), &["noncanonical"]);
            p.dec("ff".into(), "sk.from_bytes", &[0xffu8; 32], &["noncanonical"]);
        }
        "sig" => {
            decoder_family(&mut p, "sig.from_bytes", &f.sig, thorough, true);
            p.dec("identity-A".into(), "sig.from_bytes", &replace(&f.sig, 0, &g1_identity()), &["forbidden-identity"]);
            p.dec("zero-e".into(), "sig.from_bytes", &replace(&f.sig, 48, &[0u8; 32]), &["forbidden-zero-e"]);
            p.dec("modulus-e".into(), "sig.from_bytes", &replace(&f.sig, 48, &modulus_r()), &["noncanonical"]);
        }
        "pok" => {
            decoder_family(&mut p, "pok.from_bytes", &f.proof, thorough, false);
            for (k, nm) in [(0usize, "Abar"), (48, "Bbar"), (96, "D")] {
                p.dec(format!("identity-{}", nm), "pok.from_bytes", &replace(&f.proof, k, &g1_identity()), &["forbidden-identity"]);
            }
            p.dec("modulus-ecap".into(), "pok.from_bytes", &replace(&f.proof, 144, &modulus_r()), &["noncanonical"]);
            p.dec("empty".into(), "pok.from_bytes", &[], &["truncated"]);
        }
        "zkpok" => {
            let h = &f.commitment[48..];
            decoder_family(&mut p, "zkpok.from_bytes", h, thorough, false);
            p.dec("modulus".into(), "zkpok.from_bytes", &replace(h, 0, &modulus_r()), &["noncanonical"]);
            p.dec("empty".into(), "zkpok.from_bytes", &[], &["truncated"]);
        }
        "commitment" => {
            decoder_family(&mut p, "commitment.from_bytes", &f.commitment, thorough, false);
            p.dec("empty".into(), "commitment.from_bytes", &[], &["truncated"]);
        }
        "blindfactor" => {
            decoder_family(&mut p, "blindfactor.from_bytes", &f.blind, thorough, true);
            p.dec("modulus".into(), "blindfactor.from_bytes", &modulus_r(), &["noncanonical"]);
        }
        "message" => {
            decoder_family(&mut p, "message.from_bytes_be", &f.blind, thorough, true);
            p.dec("modulus".into(), "message.from_bytes_be", &modulus_r(), &["noncanonical"]);
        }
        "update_signature" => {
            let kp = KP::<Sha>::generate(IKM, None, None).unwrap();
            let m = msgs(3);
            let sig = Sig::<Sha>::sign(Some(&m), kp.private_key(), kp.public_key(), Some(HEADER)).unwrap();
            let cases: Vec<(usize, usize, &str)> = vec![
                (2, 3, "valid"),
                (3, 3, "index == n"),
                (0, usize::MAX, "n == usize::MAX"),
                (usize::MAX, 3, "update_index == usize::MAX"),
                (usize::MAX - 1, usize::MAX - 1, "n + 1 == usize::MAX, index out of range"),
                (usize::MAX, usize::MAX, "both max"),
            ];
            for (idx, n, d) in cases {
                let sigc = sig.clone();
                let skb = kp.private_key().to_bytes();
                let outcome = guard(move || {
                    let sk = BBSplusSecretKey::from_bytes(&skb).unwrap();
                    match sigc.update_signature(&sk, b"message-2", b"new", idx, n) {
                        Ok(s) => format!("ok:{}", hex::encode(s.to_bytes())),
                        Err(e) => format!("err:{e:?}"),
                    }
                });
                p.out.push(json!({"id": d, "call": "update_signature", "inputs": [format!("{:x}", idx), format!("{:x}", n)], "outcome": outcome, "tags": ["counts"]}));
            }
        }
        _ => {
            p.out.push(json!({"id": "unknown-family", "call": "", "inputs": [], "outcome": "err:driver: unknown family", "tags": ["driver-error"]}));
        }
    }
    p.out
}

pub fn run_one(call: &str, ins: &[Vec<u8>]) -> String {
    if ins.len() == 1 && call.ends_with("from_bytes") || call.ends_with("from_coordinates") || call.ends_with("from_bytes_be") {
        return decode_call(call, &ins[0]);
    }
    "err:driver: unknown call".to_string()
}
