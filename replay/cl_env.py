"""Build environment for the CL03 replay driver (replay_cl).

gmp-mpfr-sys cannot build its bundled GMP here (no m4), so the driver enables its `use-system-libs` feature and links the
system libgmp / libmpfr / libmpc.  The development files that feature needs but the image lacks are derived, on every
run that finds them missing, from what is installed:
  inc/gmp.h   copy of /usr/include/x86_64-linux-gnu/gmp.h with the version macros set to 6.3.0 (the build script insists on
              the bundled version; the 6.2.1 ABI is a subset and rug uses none of the additions here)
  inc/mpfr.h, inc/mpc.h   the headers bundled in the gmp-mpfr-sys crate source (cargo registry)
  lib/libmpfr.so, lib/libmpc.so   symlinks to the runtime libraries
Nothing is fetched; nothing outside /verif/build is written."""
import glob, os, re

VERIF = os.path.dirname(os.path.dirname(os.path.abspath(__file__)))
SYS = os.path.join(VERIF, "build", "syslibs")
TARGET = os.path.join(VERIF, "build", "replay-cl-target")
BIN = os.path.join(TARGET, "release", "cl_replay")


def ensure_syslibs():
    inc, lib = os.path.join(SYS, "inc"), os.path.join(SYS, "lib")
    os.makedirs(inc, exist_ok=True)
    os.makedirs(lib, exist_ok=True)
    gmp_h = os.path.join(inc, "gmp.h")
    if not os.path.exists(gmp_h):
        src = open("/usr/include/x86_64-linux-gnu/gmp.h").read()
        src = re.sub(r"#define __GNU_MP_VERSION_MINOR\s+\d+", "#define __GNU_MP_VERSION_MINOR 3", src)
        src = re.sub(r"#define __GNU_MP_VERSION_PATCHLEVEL\s+\d+", "#define __GNU_MP_VERSION_PATCHLEVEL 0", src)
        open(gmp_h, "w").write(src)
    reg = glob.glob(os.path.expanduser("~/.cargo/registry/src/*/gmp-mpfr-sys-1.7.1"))
    if not reg:
        raise RuntimeError("gmp-mpfr-sys-1.7.1 source not in the cargo registry")
    for name, pat in (("mpfr.h", "mpfr-*-c/src/mpfr.h"), ("mpc.h", "mpc-*-c/src/mpc.h")):
        dst = os.path.join(inc, name)
        if not os.path.exists(dst):
            cand = glob.glob(os.path.join(reg[0], pat))
            open(dst, "w").write(open(cand[0]).read())
    for name, pat in (("libmpfr.so", "/usr/lib/x86_64-linux-gnu/libmpfr.so.[0-9]"), ("libmpc.so", "/usr/lib/x86_64-linux-gnu/libmpc.so.[0-9]")):
        dst = os.path.join(lib, name)
        if not os.path.lexists(dst):
            cand = sorted(glob.glob(pat))
            os.symlink(cand[0], dst)
    return inc, lib


def env():
    inc, lib = ensure_syslibs()
    e = dict(os.environ, CARGO_TARGET_DIR=TARGET, CARGO_NET_OFFLINE="true")
    e["C_INCLUDE_PATH"] = inc + (":" + e["C_INCLUDE_PATH"] if e.get("C_INCLUDE_PATH") else "")
    e["LIBRARY_PATH"] = lib + (":" + e["LIBRARY_PATH"] if e.get("LIBRARY_PATH") else "")
    return e


if __name__ == "__main__":
    print(ensure_syslibs())
