#!/bin/sh
# MANIFEST.setup_cmd: build the framework from files on disk only (offline).
set -e
export CARGO_NET_OFFLINE=true
cd /verif/engine/extract && cargo build --release --offline
mkdir -p /verif/build
cd /verif/replay && CARGO_TARGET_DIR=/verif/build/replay-target cargo build --release --offline
if [ -f /verif/kani/setup.sh ]; then sh /verif/kani/setup.sh; fi
echo setup-ok
