#!/bin/sh
# MANIFEST.setup_cmd: build the framework from files on disk only (offline).
set -e
export CARGO_NET_OFFLINE=true
cd /verif/engine/extract && cargo build --release --offline
mkdir -p /verif/build
cd /verif/replay && CARGO_TARGET_DIR=/verif/build/replay-target cargo build --release --offline
# CL03 replay driver: links the system libgmp/libmpfr/libmpc (see replay/cl_env.py); built by the checks too if missing
python3 - <<'PY'
import sys, subprocess, os
sys.path.insert(0, "/verif/replay")
import cl_env
subprocess.run(["cargo", "build", "--release", "--offline"], cwd="/verif/replay_cl", env=cl_env.env(), check=True)
PY
if [ -f /verif/kani/setup.sh ]; then sh /verif/kani/setup.sh; fi
echo setup-ok
