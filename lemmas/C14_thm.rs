// C14 — blind issuance yields a signature that satisfies the verification equation on the FULL attribute vector:
// from the contracts of commit_with_pk (C opens), extend_commitment_with_pk (ext_value), blind_sign (issued_v),
// unblind_sign (s = r + r') to cl_equation, for every partition of the positions into hidden and revealed ones.
/// the factor of position i
pub open spec fn attr_factor(bases: Seq<Integer>, msgs: Seq<CL03Message>, n: int, i: int) -> int {
    pow_mod(bases[i]@, msgs[i].value@, n)
}

/// product of the factors of the positions i < k selected by `sel`
pub open spec fn sel_prod(bases: Seq<Integer>, msgs: Seq<CL03Message>, n: int, sel: Seq<usize>, k: int) -> int
    decreases k,
{
    if k <= 0 { 1 } else if sel.contains((k - 1) as usize) { sel_prod(bases, msgs, n, sel, k - 1) * attr_factor(bases, msgs, n, k - 1) } else { sel_prod(bases, msgs, n, sel, k - 1) }
}

/// number of entries of a strictly ascending list that are < k
pub open spec fn rank_cl(idx: Seq<usize>, k: int) -> int
    decreases k,
{
    if k <= 0 { 0 } else if idx.contains((k - 1) as usize) { rank_cl(idx, k - 1) + 1 } else { rank_cl(idx, k - 1) }
}

pub proof fn lemma_rank_cl(idx: Seq<usize>, k: int)   //# C14.thm.rank
    requires strictly_sorted(idx), 0 <= k <= usize::MAX + 1,
    ensures
        0 <= rank_cl(idx, k) <= idx.len(),
        forall|i: int| 0 <= i < rank_cl(idx, k) ==> idx[i] < k,
        forall|i: int| rank_cl(idx, k) <= i < idx.len() ==> idx[i] >= k,
    decreases k,
{
    if k > 0 {
        lemma_rank_cl(idx, k - 1);
        let r = rank_cl(idx, k - 1);
        if idx.contains((k - 1) as usize) {
            let j = choose|j: int| 0 <= j < idx.len() && idx[j] == (k - 1) as usize;
            if j < r { assert(idx[j] < k - 1); }
            assert(j >= r);
            if j > r { assert(idx[r] < idx[j]); assert(idx[r] >= k - 1); }
            assert(j == r);
            assert forall|i: int| r + 1 <= i < idx.len() implies idx[i] >= k by {
                assert(idx[r] < idx[i]);
            }
        } else {
            assert forall|i: int| r <= i < idx.len() implies idx[i] >= k by {
                if idx[i] == k - 1 { assert(idx.contains((k - 1) as usize)); }
            }
        }
    }
}

/// the product over an ascending index LIST (as commit_with_pk computes it) is the product over the SET of its entries
pub proof fn lemma_multi_prod_is_sel(bases: Seq<Integer>, msgs: Seq<CL03Message>, n: int, idx: Seq<usize>, k: int)   //# C14.thm.multi_is_sel
    requires strictly_sorted(idx), 0 <= k <= usize::MAX + 1,
    ensures multi_prod(bases, msgs, idx, n, rank_cl(idx, k)) == sel_prod(bases, msgs, n, idx, k),
    decreases k,
{
    if k > 0 {
        lemma_multi_prod_is_sel(bases, msgs, n, idx, k - 1);
        lemma_rank_cl(idx, k - 1);
        lemma_rank_cl(idx, k);
        let r = rank_cl(idx, k - 1);
        if idx.contains((k - 1) as usize) {
            assert(idx[r] == (k - 1) as usize) by {
                let j = choose|j: int| 0 <= j < idx.len() && idx[j] == (k - 1) as usize;
                if j < r { assert(idx[j] < k - 1); }
                if j > r { assert(idx[r] < idx[j]); }
            }
            assert(multi_prod(bases, msgs, idx, n, r + 1) == multi_prod(bases, msgs, idx, n, r) * pow_mod(bases[idx[r] as int]@, msgs[idx[r] as int].value@, n));
        }
    }
}

/// hidden and revealed positions partition [0, k): the two selected products multiply to the product over all positions
pub proof fn lemma_sel_partition(bases: Seq<Integer>, msgs: Seq<CL03Message>, n: int, hid: Seq<usize>, rev: Seq<usize>, k: int)   //# C14.thm.partition
    requires
        0 <= k <= usize::MAX + 1,
        forall|x: usize| x < k ==> ((#[trigger] hid.contains(x)) != rev.contains(x)),
    ensures sel_prod(bases, msgs, n, hid, k) * sel_prod(bases, msgs, n, rev, k) == attr_prod(bases, msgs, n, k),
    decreases k,
{
    if k > 0 {
        lemma_sel_partition(bases, msgs, n, hid, rev, k - 1);
        let a = sel_prod(bases, msgs, n, hid, k - 1);
        let b = sel_prod(bases, msgs, n, rev, k - 1);
        let f = attr_factor(bases, msgs, n, k - 1);
        assert(hid.contains((k - 1) as usize) != rev.contains((k - 1) as usize));
        assert((a * f) * b == (a * b) * f) by (nonlinear_arith);
        assert(a * (b * f) == (a * b) * f) by (nonlinear_arith);
    }
}

/// revealed attributes as extend_commitment_with_pk receives them: parallel to the index list
pub open spec fn picked(msgs: Seq<CL03Message>, idx: Seq<usize>) -> Seq<CL03Message> {
    Seq::new(idx.len(), |t: int| msgs[idx[t] as int])
}

/// ext_value multiplies in, one by one, the factors of the listed positions (mod n)
pub proof fn lemma_ext_value(c: int, bases: Seq<Integer>, msgs: Seq<CL03Message>, idx: Seq<usize>, n: int, k: int)   //# C14.thm.ext_value
    requires n > 0, 0 <= k <= idx.len(),
    ensures cong(ext_value(c, bases, picked(msgs, idx), idx, n, k), c * multi_prod(bases, msgs, idx, n, k), n),
    decreases k,
{
    if k > 0 {
        lemma_ext_value(c, bases, msgs, idx, n, k - 1);
        let prev = ext_value(c, bases, picked(msgs, idx), idx, n, k - 1);
        let f = pow_mod(bases[idx[k - 1] as int]@, msgs[idx[k - 1] as int].value@, n);
        assert(picked(msgs, idx)[k - 1] == msgs[idx[k - 1] as int]);
        let mp = multi_prod(bases, msgs, idx, n, k - 1);
        lemma_cong_mul(prev, c * mp, f, f, n);
        lemma_cong_mod(prev * f, n);
        assert((c * mp) * f == c * (mp * f)) by (nonlinear_arith);
    }
}

/// Issuance theorem: commit (hidden positions) -> blind_sign over the commitment extended with the revealed attributes ->
/// unblind_sign: the result satisfies the CL03 verification equation for the full vector, for EVERY hidden set.
pub proof fn thm_C14_issued_signature_verifies(pk: CL03PublicKey, p: int, q: int, bases: Seq<Integer>, msgs: Seq<CL03Message>, hid: Seq<usize>, rev: Seq<usize>,
    cval: int, r: int, sig: CL03Signature, rprime: int)   //# C14.thm.issued_verifies
    requires
        pk.N@ == p * q, is_prime(p), is_prime(q), p != q, pk.N@ > 1,
        msgs.len() <= usize::MAX, bases.len() >= msgs.len(),
        strictly_sorted(hid), strictly_sorted(rev),
        forall|t: int| 0 <= t < hid.len() ==> hid[t] < msgs.len(),
        forall|t: int| 0 <= t < rev.len() ==> rev[t] < msgs.len(),
        forall|x: usize| x < msgs.len() ==> ((#[trigger] hid.contains(x)) != rev.contains(x)),
        // commit_with_pk: C opens to the hidden attributes under their own bases (C14.commit_with_pk.opens)
        commit_multi_opens(cval, bases, msgs, hid, pk.b@, r, pk.N@),
        // blind_sign (C14.bsign.v_spec) over the extended commitment, unblind_sign (C14.unblind.s)
        invertible(sig.e@, (p - 1) * (q - 1)),
        sig.v@ == issued_v(ext_value(cval, bases, picked(msgs, rev), rev, pk.N@, rev.len() as int), pk, rprime, sig.e@, (p - 1) * (q - 1)),
        sig.s@ == r + rprime,
        r >= 0, rprime >= 0,
        // the signed value is a unit modulo N (bases, b, c are quadratic residues coprime to N)
        igcd(ext_value(cval, bases, picked(msgs, rev), rev, pk.N@, rev.len() as int) * pow_mod(pk.b@, rprime, pk.N@) * pk.c@, pk.N@) == 1,
    ensures
        cl_equation(pk, sig, bases, msgs),
        invertible(sig.v@, pk.N@),
{
    ax_gcd_pow_mod(ext_value(cval, bases, picked(msgs, rev), rev, pk.N@, rev.len() as int) * pow_mod(pk.b@, rprime, pk.N@) * pk.c@, inv_mod(sig.e@, (p - 1) * (q - 1)), pk.N@);
    let n = pk.N@;
    let l = msgs.len() as int;
    let ext = ext_value(cval, bases, picked(msgs, rev), rev, n, rev.len() as int);
    let br = pow_mod(pk.b@, r, n);
    let brp = pow_mod(pk.b@, rprime, n);
    let mh = multi_prod(bases, msgs, hid, n, hid.len() as int);
    let mr = multi_prod(bases, msgs, rev, n, rev.len() as int);
    let all = attr_prod(bases, msgs, n, l);
    // v^e == ext * b^r' * c (mod N)
    ax_euler_rsa(ext * brp * pk.c@, sig.e@, p, q);
    // ranks: every listed position is < l
    lemma_rank_cl(hid, l);
    lemma_rank_cl(rev, l);
    assert(rank_cl(hid, l) == hid.len()) by { if rank_cl(hid, l) < hid.len() { assert(hid[rank_cl(hid, l)] >= l); } }
    assert(rank_cl(rev, l) == rev.len()) by { if rank_cl(rev, l) < rev.len() { assert(rev[rank_cl(rev, l)] >= l); } }
    lemma_multi_prod_is_sel(bases, msgs, n, hid, l);
    lemma_multi_prod_is_sel(bases, msgs, n, rev, l);
    lemma_sel_partition(bases, msgs, n, hid, rev, l);
    assert(mh * mr == all);
    // ext == cval * mr == (mh * b^r) * mr (mod N)
    lemma_ext_value(cval, bases, msgs, rev, n, rev.len() as int);
    lemma_cong_mod(mh * br, n);
    assert(cong(cval, mh * br, n));
    lemma_cong_mul(cval, mh * br, mr, mr, n);
    assert(cong(ext, (mh * br) * mr, n));
    // b^r * b^r' == b^(r + r') (mod N)
    ax_pow_mod_add(pk.b@, r, rprime, n);
    lemma_cong_mod(br * brp, n);
    assert(cong(br * brp, pow_mod(pk.b@, r + rprime, n), n));
    // assemble: ext * b^r' * c == all * b^s * c (mod N)
    lemma_cong_mul(ext, (mh * br) * mr, brp, brp, n);
    assert(((mh * br) * mr) * brp == all * (br * brp)) by (nonlinear_arith) requires mh * mr == all;
    lemma_cong_mul(all, all, br * brp, pow_mod(pk.b@, r + rprime, n), n);
    assert(cong(ext * brp, all * pow_mod(pk.b@, sig.s@, n), n));
    lemma_cong_mul(ext * brp, all * pow_mod(pk.b@, sig.s@, n), pk.c@, pk.c@, n);
}
