// C05 — Blind BBS completeness over the spec functions the code is verified equal to:
//   commit -> CoreCommitVerify,  blind_sign over that commitment -> verify_blind_sign,  blind_proof_gen -> blind_proof_verify.

// ---- b_fold helpers ----------------------------------------------------------------------------------------
pub proof fn lemma_bfold_shift(base: G1Projective, x: G1Projective, h: Seq<G1Projective>, m: Seq<Scalar>, k: int)   //# C05.alg.bfold_shift
    ensures b_fold(g1_add(base, x), h, m, k) == g1_add(b_fold(base, h, m, k), x),
    decreases k,
{
    if k > 0 {
        lemma_bfold_shift(base, x, h, m, k - 1);
        let t = g1_mul(h[k - 1], m[k - 1]);
        let f = b_fold(base, h, m, k - 1);
        ax_g1_add_assoc(f, x, t);
        ax_g1_add_comm(x, t);
        ax_g1_add_assoc(f, t, x);
    }
}

pub proof fn lemma_bfold_split(base: G1Projective, h: Seq<G1Projective>, m: Seq<Scalar>, k: int)   //# C05.alg.bfold_split
    ensures b_fold(base, h, m, k) == g1_add(base, b_fold(g1_zero(), h, m, k)),
{
    lemma_bfold_shift(g1_zero(), base, h, m, k);
    lemma_g1_zero_add(base);
    ax_g1_add_comm(b_fold(g1_zero(), h, m, k), base);
}

pub proof fn lemma_bfold_prefix(base: G1Projective, h: Seq<G1Projective>, m: Seq<Scalar>, h2: Seq<G1Projective>, m2: Seq<Scalar>, k: int)   //# C05.alg.bfold_prefix
    requires
        k <= h.len(), k <= h2.len(), k <= m.len(), k <= m2.len(),
        forall|t: int| 0 <= t < k ==> h[t] == h2[t] && m[t] == m2[t],
    ensures b_fold(base, h, m, k) == b_fold(base, h2, m2, k),
    decreases k,
{
    if k > 0 { lemma_bfold_prefix(base, h, m, h2, m2, k - 1); }
}

/// fold over concatenated lists = fold over the second list started from the fold over the first
pub proof fn lemma_bfold_append(base: G1Projective, h1: Seq<G1Projective>, m1: Seq<Scalar>, h2: Seq<G1Projective>, m2: Seq<Scalar>, k: int)   //# C05.alg.bfold_append
    requires h1.len() == m1.len(), 0 <= k <= h2.len(), k <= m2.len(),
    ensures b_fold(base, h1 + h2, m1 + m2, (h1.len() + k) as int) == b_fold(b_fold(base, h1, m1, h1.len() as int), h2, m2, k),
    decreases k,
{
    let n = h1.len() as int;
    if k == 0 {
        lemma_bfold_prefix(base, h1 + h2, m1 + m2, h1, m1, n);
    } else {
        lemma_bfold_append(base, h1, m1, h2, m2, k - 1);
        assert((h1 + h2)[n + k - 1] == h2[k - 1]);
        assert((m1 + m2)[n + k - 1] == m2[k - 1]);
    }
}

pub proof fn lemma_bfold_lin(x: G1Projective, h: Seq<G1Projective>, mh: Seq<Scalar>, mt: Seq<Scalar>, mu: Seq<Scalar>, c: Scalar, n: int)   //# C05.alg.bfold_lin
    requires
        n <= mh.len(), n <= mt.len(), n <= mu.len(),
        forall|j: int| 0 <= j < n ==> mh[j] == s_add(mt[j], s_mul(mu[j], c)),
    ensures b_fold(x, h, mh, n) == g1_add(b_fold(x, h, mt, n), g1_mul(b_fold(g1_zero(), h, mu, n), c)),
    decreases n,
{
    if n <= 0 {
        ax_g1_zero_mul(c);
        ax_g1_add_zero(x);
    } else {
        lemma_bfold_lin(x, h, mh, mt, mu, c, n - 1);
        let g = h[n - 1];
        let f = b_fold(x, h, mt, n - 1);
        let s = b_fold(g1_zero(), h, mu, n - 1);
        ax_g1_mul_sadd(g, mt[n - 1], s_mul(mu[n - 1], c));
        ax_g1_mul_mul(g, mu[n - 1], c);
        lemma_g1_shuffle4(f, g1_mul(s, c), g1_mul(g, mt[n - 1]), g1_mul(g1_mul(g, mu[n - 1]), c));
        ax_g1_mul_padd(s, g1_mul(g, mu[n - 1]), c);
    }
}

/// ((t + x) + y) - (x + y) == t
pub proof fn lemma_cancel3(t: G1Projective, x: G1Projective, y: G1Projective)   //# C05.alg.cancel3
    ensures g1_add(g1_add(g1_add(t, x), y), g1_neg(g1_add(x, y))) == t,
{
    let s = g1_add(x, y);
    ax_g1_add_assoc(t, x, y);
    ax_g1_add_assoc(t, s, g1_neg(s));
    ax_g1_add_neg(s);
    ax_g1_add_zero(t);
}

// ---- commit -> CoreCommitVerify -------------------------------------------------------------------------------
/// the verifier's Cbar equals the prover's Cbar for every committed vector and all random scalars
pub proof fn lemma_commit_cbar(gens: Seq<G1Projective>, cm: Seq<Scalar>, rs: Seq<Scalar>, p: BBSplusZKPoK, c: Scalar)   //# C05.thm.cbar
    requires
        gens.len() == cm.len() + 1, rs.len() == cm.len() + 2,
        p.challenge == c,
        p.s_cap == s_add(rs[1], s_mul(rs[0], c)),
        p.m_cap@.len() == cm.len(),
        forall|j: int| 0 <= j < cm.len() ==> (#[trigger] p.m_cap@[j]) == s_add(rs[2 + j], s_mul(cm[j], c)),
    ensures commit_cbar_v(commit_c(gens, cm, rs), p, gens) == commit_cbar(gens, cm, rs),
{
    let mm = cm.len() as int;
    let j = gens.subrange(1, mm + 1);
    let q2 = gens[0];
    let mt = rs.subrange(2, mm + 2);
    let cc = commit_c(gens, cm, rs);
    let z = g1_mul(q2, rs[1]);
    let x = g1_mul(q2, s_mul(rs[0], c));
    let su = b_fold(g1_zero(), j, cm, mm);
    let y = g1_mul(su, c);
    let t = b_fold(z, j, mt, mm);
    // Q2 * s^ == z + x
    ax_g1_mul_sadd(q2, rs[1], s_mul(rs[0], c));
    // fold(z + x, m^) == (fold(z, m~) + x) + y
    assert forall|k: int| 0 <= k < mm implies p.m_cap@[k] == s_add(mt[k], s_mul(cm[k], c)) by {}
    lemma_bfold_lin(g1_add(z, x), j, p.m_cap@, mt, cm, c, mm);
    lemma_bfold_shift(z, x, j, mt, mm);
    // C * (-c) == -((Q2*blind)*c + Su*c) == -(x + y)
    lemma_bfold_split(g1_mul(q2, rs[0]), j, cm, mm);
    ax_g1_mul_sneg(cc, c);
    ax_g1_mul_padd(g1_mul(q2, rs[0]), su, c);
    ax_g1_mul_mul(q2, rs[0], c);
    lemma_cancel3(t, x, y);
}

/// CoreCommitVerify(CoreCommit(..)) holds - also when the verifier derives more blind generators than the prover used
pub proof fn thm_C05_commit<CS: BbsCiphersuite>(out: BBSplusCommitment, blind: Scalar, gens: Seq<G1Projective>, gens_v: Seq<G1Projective>,
    cm: Seq<Scalar>, api_id: Seq<u8>, rs: Seq<Scalar>)   //# C05.thm.commit
    requires
        gens.len() == cm.len() + 1, rs.len() == cm.len() + 2,
        (api_id + CS::H2S@).len() <= 255,
        gens_v.len() >= gens.len(), gens_v.subrange(0, gens.len() as int) == gens,
        core_commit_rel::<CS>(out, blind, gens, cm, api_id, rs),
    ensures commit_verify_spec::<CS>(out.commitment, out.proof, gens_v, api_id),
{
    lemma_commit_cbar(gens, cm, rs, out.proof, out.proof.challenge);
}

// ---- blind_sign -> verify_blind_sign -----------------------------------------------------------------------------
/// B as the verifier computes it over (msgs, blind, committed) equals the signer's P1 + sum H_i m_i + C + Q1*domain
pub proof fn lemma_blind_b(p1: G1Projective, q: G1Projective, h: Seq<G1Projective>, ms: Seq<Scalar>, q2: G1Projective, blind: Scalar, j: Seq<G1Projective>, cms: Seq<Scalar>)   //# C05.thm.blind_b
    requires h.len() == ms.len(), j.len() == cms.len(),
    ensures
        b_fold(g1_add(p1, q), h + (seq![q2] + j), ms + (seq![blind] + cms), (h.len() + 1 + j.len()) as int)
            == g1_add(g1_add(b_fold(p1, h, ms, h.len() as int), b_fold(g1_mul(q2, blind), j, cms, j.len() as int)), q),
{
    let l = h.len() as int;
    let mm = j.len() as int;
    let base = g1_add(p1, q);
    let xx = b_fold(base, h, ms, l);
    let yy = b_fold(p1, h, ms, l);
    let c = b_fold(g1_mul(q2, blind), j, cms, mm);
    lemma_bfold_append(base, h, ms, seq![q2] + j, seq![blind] + cms, 1 + mm);
    lemma_bfold_append(xx, seq![q2], seq![blind], j, cms, mm);
    assert(b_fold(xx, seq![q2], seq![blind], 1) == g1_add(b_fold(xx, seq![q2], seq![blind], 0), g1_mul(seq![q2][0], seq![blind][0])));
    assert(b_fold(xx, seq![q2], seq![blind], 1) == g1_add(xx, g1_mul(q2, blind)));
    // fold(xx + Q2*blind, J, cms) == fold(Q2*blind, J, cms) + xx
    ax_g1_add_comm(xx, g1_mul(q2, blind));
    lemma_bfold_shift(g1_mul(q2, blind), xx, j, cms, mm);
    // xx == yy + q
    lemma_bfold_shift(p1, q, h, ms, l);
    // c + (yy + q) == (yy + c) + q
    ax_g1_add_comm(c, g1_add(yy, q));
    ax_g1_add_assoc(yy, q, c);
    ax_g1_add_comm(q, c);
    ax_g1_add_assoc(yy, c, q);
}

/// verify_blind_sign(blind_sign(commit(cm), header, msgs), header, msgs, cm, blind) holds for all L, M, messages, header.
/// mm is the count the signer derives from the commitment length (M + 1), or 0 when no commitment is supplied (then M = 0,
/// C = identity, blind = 0).
pub proof fn thm_C05_sign_verify<CS: BbsCiphersuite>(sig: BBSplusSignature, sk: Scalar, mm: int, header: Seq<u8>, msgs: Seq<Vec<u8>>, cm: Seq<Vec<u8>>, blind: Scalar)   //# C05.thm.sign_verify
    requires
        mm == cm.len() + 1 || (mm == 0 && cm.len() == 0),
        s_add(sk, sig.e) != s_zero(),     // H-nz
        blind_sign_rel::<CS>(sig, sk, g2_mul(g2_gen(), sk),
            b_fold(g1_mul(generators_spec::<CS>((cm.len() + 1) as nat, blind_api(CS::API_ID_BLIND@))[0], blind),
                generators_spec::<CS>((cm.len() + 1) as nat, blind_api(CS::API_ID_BLIND@)).subrange(1, (cm.len() + 1) as int),
                msgs_to_scalars_spec::<CS>(cm, CS::API_ID_BLIND@), cm.len() as int),
            mm, header, msgs),
    ensures verify_blind_spec::<CS>(g2_mul(g2_gen(), sk), sig, header, msgs, cm, blind),
{
    CS::consts_facts();
    let api = CS::API_ID_BLIND@;
    let pk = g2_mul(g2_gen(), sk);
    let l = msgs.len() as int;
    let m = cm.len() as int;
    let g = generators_spec::<CS>((l + 1) as nat, api);
    let bg_s = generators_spec::<CS>((mm + 1) as nat, blind_api(api));
    let bg = generators_spec::<CS>((m + 1) as nat, blind_api(api));
    let pg = pp_gens::<CS>((l + 1) as nat, (m + 1) as nat, api);
    let h = g.subrange(1, l + 1);
    let j = bg.subrange(1, m + 1);
    let q2 = bg[0];
    let ms = msgs_to_scalars_spec::<CS>(msgs, api);
    let cms = msgs_to_scalars_spec::<CS>(cm, api);
    let mv = pp_scalars::<CS>(msgs, cm, Some(blind), api);
    let hv = pg.subrange(1, pg.len() as int);
    // the verifier's generator / scalar lists
    assert(hv =~= h + (seq![q2] + j));
    assert(mv =~= ms + (seq![blind] + cms));
    assert(fbs_gens(g, bg_s) =~= hv);
    assert(pg[0] == g[0]);
    let dom = domain_spec::<CS>(pk, g[0], hv, header, api);
    let q = g1_mul(g[0], dom);
    lemma_blind_b(p1_spec::<CS>(), q, h, ms, q2, blind, j, cms);
    let c = b_fold(g1_mul(q2, blind), j, cms, m);
    let bp = fbs_b::<CS>(pk, calculate_b_spec(p1_spec::<CS>(), h, ms, c), g, bg_s, header, api);
    assert(bp == b_spec(p1_spec::<CS>(), g[0], dom, hv, mv));
    lemma_pairing_of_signature(sk, sig.e, bp);
}

// ---- blind_proof_gen -> blind_proof_verify -----------------------------------------------------------------------
pub proof fn thm_C05_proof<CS: BbsCiphersuite>(p: BBSplusPoKSignature, sk: Scalar, sig: Seq<u8>, header: Seq<u8>, ph: Seq<u8>,
    msgs: Seq<Vec<u8>>, cm: Seq<Vec<u8>>, di: Seq<usize>, dj: Seq<usize>, blind: Scalar, dmsgs: Seq<Vec<u8>>, dcm: Seq<Vec<u8>>, rs: Seq<Scalar>)   //# C05.thm.proof
    requires
        blind_proof_gen_ok::<CS>(sig, msgs.len() as int, cm.len() as int, di, dj),
        strictly_sorted(di), strictly_sorted(dj),
        msgs.len() + cm.len() + 1 < usize::MAX,
        rs.len() == 5 + msgs.len() + 1 + cm.len() - di.len() - dj.len(),
        rs[0] != s_zero(), rs[1] != s_zero(), sk != s_zero(), s_add(sk, sig_of_octets(sig).e) != s_zero(),      // H-nz
        verify_blind_spec::<CS>(g2_mul(g2_gen(), sk), sig_of_octets(sig), header, msgs, cm, blind),
        blind_proof_gen_rel::<CS>(p, g2_mul(g2_gen(), sk), sig, header, ph, msgs, cm, di, dj, blind, rs),
        dmsgs.len() == di.len(), dcm.len() == dj.len(),
        forall|k: int| 0 <= k < di.len() ==> dmsgs[k]@ == (#[trigger] msgs[di[k] as int])@,
        forall|k: int| 0 <= k < dj.len() ==> dcm[k]@ == (#[trigger] cm[dj[k] as int])@,
    ensures
        blind_proof_verify_spec::<CS>(g2_mul(g2_gen(), sk), p, header, ph, msgs.len() as usize, dmsgs, dcm, di, dj),
{
    CS::consts_facts();
    let api = CS::API_ID_BLIND@;
    let l = msgs.len() as int;
    let m = cm.len() as int;
    let mv = pp_scalars::<CS>(msgs, cm, Some(blind), api);
    let pg = pp_gens::<CS>((l + 1) as nat, (m + 1) as nat, api);
    let bi = blind_indexes(di, dj, l);
    assert(mv.len() == l + 1 + m);
    lemma_blind_indexes_sorted(di, dj, l);
    assert forall|a: int, b: int| 0 <= a < b < bi.len() implies bi[a] != bi[b] by {}
    lemma_complement_len_exact(l + 1 + m, bi);
    thm_C03_core::<CS>(p, sk, sig_of_octets(sig), p1_spec::<CS>(), pg, mv, bi, header, ph, api, rs);
    assert(pp_scalars::<CS>(dmsgs, dcm, None, api) =~= select(mv, bi));
}
