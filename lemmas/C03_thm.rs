// C03 / C04 — property-level lemmas about proofs.

/// the proof length depends on U only
pub proof fn thm_C03_len(x: BBSplusPoKSignature)   //# C03.thm.len
    ensures enc_proof(x).len() == 272 + 32 * x.m_cap@.len(),
{
    lemma_proof_len(x);
}
