// C03 / C04 — property-level lemmas about proofs.

/// the proof length depends on U only
pub proof fn thm_C03_len(x: BBSplusPoKSignature)   //# C03.thm.len
    ensures enc_proof(x).len() == 272 + 32 * x.m_cap@.len(),
{
    lemma_proof_len(x);
}

/// a valid signature satisfies A * (SK + e) == B   (from the pairing equation; PK = BP2 * SK)
pub proof fn lemma_valid_sig_relation(sk: Scalar, a: G1Projective, e: Scalar, b: G1Projective)   //# C03.thm.sig_relation
    requires pairing_check(g2_mul(g2_gen(), sk), a, e, b),
    ensures g1_mul(a, s_add(sk, e)) == b,
{
    let w = s_add(sk, e);
    ax_g2_mul_sadd(g2_gen(), sk, e);
    ax_pair_move(a, w);
    ax_pair_eq(g1_mul(a, w), b);
}

/// Bbar = D*r1 - Abar*e == Abar * SK  when  A*(SK+e) == B,  D = B*r2,  Abar = A*(r1*r2)
pub proof fn lemma_bbar(a: G1Projective, b: G1Projective, sk: Scalar, e: Scalar, r1: Scalar, r2: Scalar)   //# C03.thm.bbar
    requires g1_mul(a, s_add(sk, e)) == b,
    ensures pi_bbar(pi_d(b, r2), r1, pi_abar(a, r1, r2), e) == g1_mul(pi_abar(a, r1, r2), sk),
{
    let w = s_add(sk, e);
    let k = s_mul(r1, r2);
    // D*r1 = A*(w*(r2*r1)) = A*(k*w) = A*(k*sk) + A*(k*e)
    ax_g1_mul_mul(a, w, r2);
    ax_g1_mul_mul(a, s_mul(w, r2), r1);
    ax_s_mul_assoc(w, r2, r1);
    ax_s_mul_comm(r2, r1);
    ax_s_mul_comm(w, k);
    ax_s_distrib(k, sk, e);
    ax_g1_mul_sadd(a, s_mul(k, sk), s_mul(k, e));
    assert(g1_mul(pi_d(b, r2), r1) == g1_add(g1_mul(a, s_mul(k, sk)), g1_mul(a, s_mul(k, e))));
    // Abar*e = A*(k*e),  Abar*sk = A*(k*sk)
    ax_g1_mul_mul(a, k, e);
    ax_g1_mul_mul(a, k, sk);
    let x = g1_mul(a, s_mul(k, sk));
    let y = g1_mul(a, s_mul(k, e));
    ax_g1_add_assoc(x, y, g1_neg(y));
    ax_g1_add_neg(y);
    ax_g1_add_zero(x);
}

/// T1 recomputation: Bbar*c + Abar*e^ + D*r1^ == Abar*e~ + D*r1~
pub proof fn lemma_t1(abar: G1Projective, d: G1Projective, e: Scalar, r1: Scalar, c: Scalar, et: Scalar, r1t: Scalar)   //# C03.thm.t1
    ensures ({
        let bbar = pi_bbar(d, r1, abar, e);
        let e_cap = s_add(et, s_mul(e, c));
        let r1_cap = s_sub(r1t, s_mul(r1, c));
        g1_add(g1_add(g1_mul(bbar, c), g1_mul(abar, e_cap)), g1_mul(d, r1_cap)) == pi_t1(abar, et, d, r1t)
    }),
{
    let x = g1_mul(d, s_mul(r1, c));
    let y = g1_mul(abar, s_mul(e, c));
    let z = g1_mul(abar, et);
    let w = g1_mul(d, r1t);
    let bbar = pi_bbar(d, r1, abar, e);
    ax_g1_mul_padd(g1_mul(d, r1), g1_neg(g1_mul(abar, e)), c);
    ax_g1_mul_pneg(g1_mul(abar, e), c);
    ax_g1_mul_mul(d, r1, c);
    ax_g1_mul_mul(abar, e, c);
    assert(g1_mul(bbar, c) == g1_add(x, g1_neg(y)));
    ax_g1_mul_sadd(abar, et, s_mul(e, c));
    ax_g1_mul_sadd(d, r1t, s_neg(s_mul(r1, c)));
    ax_g1_mul_sneg(d, s_mul(r1, c));
    lemma_cancel4(x, y, z, w);
}

/// T2 recomputation: fold(Bv*c + D*r3^, m^) == fold(D*r3~, m~)  when  B = fold(Bv, m_undisclosed), D = B*r2
pub proof fn lemma_t2(bv: G1Projective, b: G1Projective, r2: Scalar, r3t: Scalar, c: Scalar, h: Seq<G1Projective>,
    mh: Seq<Scalar>, mt: Seq<Scalar>, mu: Seq<Scalar>, und: Seq<usize>)   //# C03.thm.t2
    requires
        r2 != s_zero(),
        b == fold_idx(bv, h, mu, und, und.len() as int),
        mh.len() == und.len(), mt.len() == und.len(), mu.len() == und.len(),
        forall|j: int| 0 <= j < und.len() ==> mh[j] == s_add(mt[j], s_mul(mu[j], c)),
    ensures ({
        let d = pi_d(b, r2);
        let r3_cap = s_sub(r3t, s_mul(s_inv(r2), c));
        fold_idx(g1_add(g1_mul(bv, c), g1_mul(d, r3_cap)), h, mh, und, und.len() as int)
            == fold_idx(g1_mul(d, r3t), h, mt, und, und.len() as int)
    }),
{
    let n = und.len() as int;
    let d = pi_d(b, r2);
    let su = fold_sum(h, mu, und, n);
    let st = fold_sum(h, mt, und, n);
    let x = g1_mul(bv, c);
    let y = g1_mul(su, c);
    let z = g1_mul(d, r3t);
    // D * (1/r2 * c) == B * c == Bv*c + Su*c
    ax_g1_mul_mul(d, s_inv(r2), c);
    ax_g1_mul_mul(b, r2, s_inv(r2));
    ax_s_inv(r2);
    ax_g1_mul_one(b);
    lemma_fold_split(bv, h, mu, und, n);
    ax_g1_mul_padd(bv, su, c);
    assert(g1_mul(d, s_mul(s_inv(r2), c)) == g1_add(x, y));
    // D * r3^ == z - (x + y)
    ax_g1_mul_sadd(d, r3t, s_neg(s_mul(s_inv(r2), c)));
    ax_g1_mul_sneg(d, s_mul(s_inv(r2), c));
    let x0 = g1_add(x, g1_add(z, g1_neg(g1_add(x, y))));
    // fold(x0, m^) == fold(x0, m~) + Su*c == (x0 + St) + y == x0 + (St + y) == z + St
    lemma_fold_lin(x0, h, mh, mt, mu, c, und, n);
    lemma_fold_split(x0, h, mt, und, n);
    ax_g1_add_assoc(x0, st, y);
    lemma_cancel_t2(x, y, z, st);
    lemma_fold_split(z, h, mt, und, n);
}

/// C03 at the core level: a proof generated (CoreProofGen, any random scalars with r1, r2 != 0) from a signature that
/// satisfies the verification equation is accepted by CoreProofVerify for the disclosed messages - for every message
/// vector, every ascending disclosed-index set, every header / presentation header.
pub proof fn thm_C03_core<CS: BbsCiphersuite>(p: BBSplusPoKSignature, sk: Scalar, sig: BBSplusSignature, p1: G1Projective, gens: Seq<G1Projective>,
    m: Seq<Scalar>, di: Seq<usize>, header: Seq<u8>, ph: Seq<u8>, api_id: Seq<u8>, rs: Seq<Scalar>)   //# C03.thm.core
    requires
        core_proof_gen_ok::<CS>(gens.len() as int, m.len() as int, di, api_id),
        strictly_sorted(di),
        m.len() <= usize::MAX,
        rs.len() == 5 + complement(m.len() as int, di).len(),
        rs[0] != s_zero(), rs[1] != s_zero(),                                          // H-nz: r1, r2 != 0
        sk != s_zero(), sig.A != g1_zero(), s_add(sk, sig.e) != s_zero(),               // H-nz
        core_verify_spec::<CS>(g2_mul(g2_gen(), sk), sig, m, p1, gens, header, api_id),  // the signature verifies
        core_proof_gen_rel::<CS>(p, g2_mul(g2_gen(), sk), sig, p1, gens, m, di, header, ph, api_id, rs),
    ensures
        proof_verify_spec::<CS>(g2_mul(g2_gen(), sk), p, p1, gens, header, ph, select(m, di), di, api_id),
{
    let pk = g2_mul(g2_gen(), sk);
    let l = m.len() as int;
    let h = gens.subrange(1, gens.len() as int);
    let domain = domain_spec::<CS>(pk, gens[0], h, header, api_id);
    let base = g1_add(p1, g1_mul(gens[0], domain));
    let b = b_spec(p1, gens[0], domain, h, m);
    let und = complement(l, di);
    let u = und.len() as int;
    let r = di.len() as int;
    let dm = select(m, di);
    let mu = select(m, und);
    let init = proof_init_spec::<CS>(pk, sig, p1, gens, rs, header, m, und, api_id);
    let c = p.challenge;
    let (r1, r2) = (rs[0], rs[1]);
    let mt = rs.subrange(5, 5 + u);
    // |und| + |di| == L
    assert forall|i: int, j: int| 0 <= i < j < di.len() implies di[i] != di[j] by {}
    lemma_complement_len_exact(l, di);
    assert(p.m_cap@.len() == u);
    // the signature relation and the three non-identity conditions
    lemma_valid_sig_relation(sk, sig.A, sig.e, b);
    lemma_g1_mul_nonzero(sig.A, s_add(sk, sig.e));
    lemma_s_mul_nonzero(r1, r2);
    lemma_g1_mul_nonzero(sig.A, s_mul(r1, r2));
    lemma_g1_mul_nonzero(b, r2);
    lemma_bbar(sig.A, b, sk, sig.e, r1, r2);
    lemma_g1_mul_nonzero(init.Abar, sk);
    // pairing: e(Abar, PK) * e(Bbar, -BP2) == 1
    ax_pair_move(init.Abar, sk);
    ax_pair_eq(g1_mul(init.Abar, sk), init.Bbar);
    // T1
    lemma_t1(init.Abar, init.D, sig.e, r1, c, rs[2], rs[3]);
    assert(pv_t1(p) == init.T1);
    // B == fold(Bv, undisclosed)
    lemma_partition(base, h, m, di, l);
    lemma_rank_index(di, l);
    assert(rank(di, l) == r) by {
        if rank(di, l) < r { assert(di[rank(di, l)] >= l); }
    }
    let bv = pv_bv(p1, gens[0], domain, h, dm, di);
    assert(b == fold_idx(bv, h, mu, und, u));
    // T2
    assert forall|j: int| 0 <= j < u implies (#[trigger] p.m_cap@[j]) == s_add(mt[j], s_mul(mu[j], c)) by {}
    lemma_t2(bv, b, r2, rs[4], c, h, p.m_cap@, mt, mu, und);
    assert(pv_t2(p, bv, h, und) == init.T2);
}

/// C03 at the API level: ProofVerify(ProofGen(sig, header, ph, msgs, disclosed), header, ph, disclosed msgs, disclosed) holds for
/// every message list, every ascending disclosed-index set, every header / presentation header, both suites (generic CS),
/// whenever the signature octets are a signature that verifies for (header, msgs).
pub proof fn thm_C03<CS: BbsCiphersuite>(p: BBSplusPoKSignature, sk: Scalar, sig: Seq<u8>, header: Seq<u8>, ph: Seq<u8>,
    msgs: Seq<Vec<u8>>, di: Seq<usize>, dmsgs: Seq<Vec<u8>>, rs: Seq<Scalar>)   //# C03.thm
    requires
        proof_gen_ok::<CS>(sig, msgs.len() as int, di),
        strictly_sorted(di),
        msgs.len() < usize::MAX,
        rs.len() == 5 + msgs.len() - di.len(),
        rs[0] != s_zero(), rs[1] != s_zero(), sk != s_zero(), s_add(sk, sig_of_octets(sig).e) != s_zero(),      // H-nz
        verify_spec::<CS>(g2_mul(g2_gen(), sk), sig_of_octets(sig), msgs, header),
        proof_gen_rel::<CS>(p, g2_mul(g2_gen(), sk), sig, header, ph, msgs, di, rs),
        dmsgs.len() == di.len(),
        forall|k: int| 0 <= k < di.len() ==> dmsgs[k]@ == (#[trigger] msgs[di[k] as int])@,
    ensures
        proof_verify_api_spec::<CS>(g2_mul(g2_gen(), sk), p, dmsgs, di, header, ph),
{
    CS::consts_facts();
    let l = msgs.len() as int;
    let m = msgs_to_scalars_spec::<CS>(msgs, CS::API_ID@);
    let gens = generators_spec::<CS>((msgs.len() + 1) as nat, CS::API_ID@);
    assert forall|i: int, j: int| 0 <= i < j < di.len() implies di[i] != di[j] by {}
    lemma_complement_len_exact(l, di);
    thm_C03_core::<CS>(p, sk, sig_of_octets(sig), p1_spec::<CS>(), gens, m, di, header, ph, CS::API_ID@, rs);
    assert(p.m_cap@.len() + di.len() == l);
    assert(msgs_to_scalars_spec::<CS>(dmsgs, CS::API_ID@) =~= select(m, di));
}
