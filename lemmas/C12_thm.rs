// C12 — signature update over any history, as theorems over the spec functions (update_a_spec is what the real
// update_signature is verified equal to: label C12.update.spec).

/// B over a vector with one entry replaced
pub proof fn lemma_b_fold_update(base: G1Projective, h: Seq<G1Projective>, m: Seq<Scalar>, i: int, v: Scalar, k: int)   //# C12.thm.b_update
    requires 0 <= i < m.len(), k <= m.len(),
    ensures
        b_fold(base, h, m.update(i, v), k)
            == (if i < k { g1_add(b_fold(base, h, m, k), g1_mul(h[i], s_sub(v, m[i]))) } else { b_fold(base, h, m, k) }),
    decreases k,
{
    let m2 = m.update(i, v);
    if k > 0 {
        lemma_b_fold_update(base, h, m, i, v, k - 1);
        let f = b_fold(base, h, m, k - 1);
        let d = g1_mul(h[i], s_sub(v, m[i]));
        if i == k - 1 {
            // f + h_i * v == (f + h_i * m_i) + h_i * (v - m_i)
            ax_g1_mul_sadd(h[i], v, s_neg(m[i]));
            ax_g1_mul_sneg(h[i], m[i]);
            let t = g1_mul(h[i], m[i]);
            let tv = g1_mul(h[i], v);
            ax_g1_add_assoc(f, t, g1_add(tv, g1_neg(t)));
            ax_g1_add_comm(tv, g1_neg(t));
            ax_g1_add_assoc(t, g1_neg(t), tv);
            ax_g1_add_neg(t);
            ax_g1_add_comm(g1_zero(), tv);
            ax_g1_add_zero(tv);
            assert(g1_add(t, g1_add(g1_neg(t), tv)) == tv);
        } else if i < k - 1 {
            // (f + d) + t == (f + t) + d
            let t = g1_mul(h[k - 1], m[k - 1]);
            assert(m2[k - 1] == m[k - 1]);
            ax_g1_add_assoc(f, d, t);
            ax_g1_add_comm(d, t);
            ax_g1_add_assoc(f, t, d);
        } else {
            assert(m2[k - 1] == m[k - 1]);
        }
    }
}

/// the group element computed by update: (B - H_i*old) + H_i*new == B + H_i*(new - old)
pub proof fn lemma_update_b(b: G1Projective, hi: G1Projective, old_s: Scalar, new_s: Scalar)   //# C12.thm.update_b
    ensures g1_add(g1_add(b, g1_mul(g1_neg(hi), old_s)), g1_mul(hi, new_s)) == g1_add(b, g1_mul(hi, s_sub(new_s, old_s))),
{
    ax_g1_mul_pneg(hi, old_s);
    ax_g1_mul_sadd(hi, new_s, s_neg(old_s));
    ax_g1_mul_sneg(hi, old_s);
    let o = g1_neg(g1_mul(hi, old_s));
    let nw = g1_mul(hi, new_s);
    ax_g1_add_assoc(b, o, nw);
    ax_g1_add_comm(o, nw);
}

/// (P * w) * (1/w) == P
pub proof fn lemma_mul_inv(p: G1Projective, w: Scalar)   //# C12.thm.mul_inv
    requires w != s_zero(),
    ensures g1_mul(g1_mul(p, w), s_inv(w)) == p, g1_mul(g1_mul(p, s_inv(w)), w) == p,
{
    ax_g1_mul_mul(p, w, s_inv(w));
    ax_g1_mul_mul(p, s_inv(w), w);
    ax_s_mul_comm(s_inv(w), w);
    ax_s_inv(w);
    ax_g1_mul_one(p);
}

/// one update step: from A = B(m)/(sk+e) and the right old value, A' = B(m[i := new])/(sk+e)
pub proof fn lemma_update_step(a: G1Projective, sk_e: Scalar, base: G1Projective, h: Seq<G1Projective>, m: Seq<Scalar>, i: int, old_s: Scalar, new_s: Scalar)   //# C12.thm.step
    requires
        sk_e != s_zero(), 0 <= i < m.len(),
        a == g1_mul(b_fold(base, h, m, m.len() as int), s_inv(sk_e)),
        old_s == m[i],
    ensures
        g1_mul(g1_add(g1_add(g1_mul(a, sk_e), g1_mul(g1_neg(h[i]), old_s)), g1_mul(h[i], new_s)), s_inv(sk_e))
            == g1_mul(b_fold(base, h, m.update(i, new_s), m.len() as int), s_inv(sk_e)),
{
    let b = b_fold(base, h, m, m.len() as int);
    lemma_mul_inv(b, sk_e);
    lemma_update_b(b, h[i], old_s, new_s);
    lemma_b_fold_update(base, h, m, i, new_s, m.len() as int);
}

/// a wrong old value yields B(m') + H_i * (m_i - old'), which differs from B(m') whenever H_i is not the identity (H-gen)
pub proof fn lemma_wrong_old(a: G1Projective, sk_e: Scalar, base: G1Projective, h: Seq<G1Projective>, m: Seq<Scalar>, i: int, old_s: Scalar, new_s: Scalar)   //# C12.thm.wrong_old
    requires
        sk_e != s_zero(), 0 <= i < m.len(),
        a == g1_mul(b_fold(base, h, m, m.len() as int), s_inv(sk_e)),
        old_s != m[i], h[i] != g1_zero(),
    ensures ({
        let a2 = g1_mul(g1_add(g1_add(g1_mul(a, sk_e), g1_mul(g1_neg(h[i]), old_s)), g1_mul(h[i], new_s)), s_inv(sk_e));
        g1_mul(a2, sk_e) != b_fold(base, h, m.update(i, new_s), m.len() as int)
    }),
{
    let n = m.len() as int;
    let b = b_fold(base, h, m, n);
    let b2 = b_fold(base, h, m.update(i, new_s), n);
    let got = g1_add(g1_add(g1_mul(a, sk_e), g1_mul(g1_neg(h[i]), old_s)), g1_mul(h[i], new_s));
    lemma_mul_inv(b, sk_e);
    lemma_mul_inv(got, sk_e);
    lemma_update_b(b, h[i], old_s, new_s);
    lemma_b_fold_update(base, h, m, i, new_s, n);
    // got == b + h_i*(new - old),  b2 == b + h_i*(new - m_i);  equal ==> h_i*(new-old) == h_i*(new-m_i) ==> old == m_i
    if got == b2 {
        let x = g1_mul(h[i], s_sub(new_s, old_s));
        let y = g1_mul(h[i], s_sub(new_s, m[i]));
        // cancel b
        ax_g1_add_comm(b, x);
        ax_g1_add_comm(b, y);
        ax_g1_add_assoc(x, b, g1_neg(b));
        ax_g1_add_assoc(y, b, g1_neg(b));
        ax_g1_add_neg(b);
        ax_g1_add_zero(x);
        ax_g1_add_zero(y);
        assert(x == y);
        // h_i * ((new - old) - (new - m_i)) == 0
        let dlt = s_sub(s_sub(new_s, old_s), s_sub(new_s, m[i]));
        ax_g1_mul_sadd(h[i], s_sub(new_s, old_s), s_neg(s_sub(new_s, m[i])));
        ax_g1_mul_sneg(h[i], s_sub(new_s, m[i]));
        ax_g1_add_neg(y);
        assert(g1_mul(h[i], dlt) == g1_zero());
        ax_g1_prime_order(h[i], dlt);
        assert(dlt == s_zero());
        lemma_s_sub_zero(s_sub(new_s, old_s), s_sub(new_s, m[i]));
        lemma_s_add_cancel_left(new_s, s_neg(old_s), s_neg(m[i]));
        lemma_s_neg_inj(old_s, m[i]);
    }
}

// ---- histories -------------------------------------------------------------------------------------------
/// message vector after the first k updates of `ups` = ((position, new value), ...)
pub open spec fn hist_msgs(m0: Seq<Scalar>, ups: Seq<(int, Scalar)>, k: int) -> Seq<Scalar>
    decreases k,
{
    if k <= 0 { m0 } else { hist_msgs(m0, ups, k - 1).update(ups[k - 1].0, ups[k - 1].1) }
}

/// signature element after the first k updates, each stating the then-current old value (what an honest holder does)
pub open spec fn hist_a(a0: G1Projective, sk_e: Scalar, h: Seq<G1Projective>, m0: Seq<Scalar>, ups: Seq<(int, Scalar)>, k: int) -> G1Projective
    decreases k,
{
    if k <= 0 { a0 } else {
        let a = hist_a(a0, sk_e, h, m0, ups, k - 1);
        let i = ups[k - 1].0;
        let old_s = hist_msgs(m0, ups, k - 1)[i];
        g1_mul(g1_add(g1_add(g1_mul(a, sk_e), g1_mul(g1_neg(h[i]), old_s)), g1_mul(h[i], ups[k - 1].1)), s_inv(sk_e))
    }
}

/// after ANY sequence of in-range updates the signature element is B(current vector)/(sk+e): the signature the key holder
/// would issue for the current vector with the same e
pub proof fn thm_C12_history(a0: G1Projective, sk_e: Scalar, base: G1Projective, h: Seq<G1Projective>, m0: Seq<Scalar>, ups: Seq<(int, Scalar)>, k: int)   //# C12.thm.history
    requires
        sk_e != s_zero(), 0 <= k <= ups.len(),
        a0 == g1_mul(b_fold(base, h, m0, m0.len() as int), s_inv(sk_e)),
        forall|j: int| 0 <= j < ups.len() ==> 0 <= (#[trigger] ups[j]).0 < m0.len(),
    ensures
        hist_msgs(m0, ups, k).len() == m0.len(),
        hist_a(a0, sk_e, h, m0, ups, k) == g1_mul(b_fold(base, h, hist_msgs(m0, ups, k), m0.len() as int), s_inv(sk_e)),
    decreases k,
{
    if k > 0 {
        thm_C12_history(a0, sk_e, base, h, m0, ups, k - 1);
        let m = hist_msgs(m0, ups, k - 1);
        let a = hist_a(a0, sk_e, h, m0, ups, k - 1);
        let i = ups[k - 1].0;
        lemma_update_step(a, sk_e, base, h, m, i, m[i], ups[k - 1].1);
    }
}

/// ... and therefore satisfies the verification equation for the current vector (PK = BP2 * SK)
pub proof fn thm_C12_history_verifies(a0: G1Projective, sk: Scalar, e: Scalar, base: G1Projective, h: Seq<G1Projective>, m0: Seq<Scalar>, ups: Seq<(int, Scalar)>)   //# C12.thm.history_verifies
    requires
        s_add(sk, e) != s_zero(),
        a0 == g1_mul(b_fold(base, h, m0, m0.len() as int), s_inv(s_add(sk, e))),
        forall|j: int| 0 <= j < ups.len() ==> 0 <= (#[trigger] ups[j]).0 < m0.len(),
    ensures
        pairing_check(g2_mul(g2_gen(), sk), hist_a(a0, s_add(sk, e), h, m0, ups, ups.len() as int), e,
            b_fold(base, h, hist_msgs(m0, ups, ups.len() as int), m0.len() as int)),
{
    thm_C12_history(a0, s_add(sk, e), base, h, m0, ups, ups.len() as int);
    lemma_pairing_of_signature(sk, e, b_fold(base, h, hist_msgs(m0, ups, ups.len() as int), m0.len() as int));
}

/// the updated signature verifies for a vector m' exactly when B(m') equals B(current) - so acceptance of an earlier,
/// different vector needs a non-trivial relation between the generators (H-gen)
pub proof fn thm_C12_verifies_iff_same_b(sk: Scalar, e: Scalar, b_cur: G1Projective, b_other: G1Projective)   //# C12.thm.only_current
    requires s_add(sk, e) != s_zero(),
    ensures pairing_check(g2_mul(g2_gen(), sk), g1_mul(b_cur, s_inv(s_add(sk, e))), e, b_other) <==> b_other == b_cur,
{
    let w = s_add(sk, e);
    let a = g1_mul(b_cur, s_inv(w));
    ax_g2_mul_sadd(g2_gen(), sk, e);
    ax_pair_move(a, w);
    lemma_mul_inv(b_cur, w);
    ax_pair_eq(b_cur, b_other);
}

/// the real update (update_a_spec) is one hist step over the API-level message scalars and generators
pub proof fn thm_C12_api_step<CS: BbsCiphersuite>(sig: BBSplusSignature, sk: Scalar, old_msg: Seq<u8>, new_msg: Seq<u8>, i: int, n: nat)   //# C12.thm.api_step
    requires 0 <= i < n,
    ensures ({
        let h = generators_spec::<CS>(n + 1, CS::API_ID@).subrange(1, (n + 1) as int);
        let sk_e = s_add(sk, sig.e);
        update_a_spec::<CS>(sig, sk, old_msg, new_msg, i, n)
            == g1_mul(g1_add(g1_add(g1_mul(sig.A, sk_e), g1_mul(g1_neg(h[i]), msg_scalar_spec::<CS>(old_msg, CS::API_ID@))),
                g1_mul(h[i], msg_scalar_spec::<CS>(new_msg, CS::API_ID@))), s_inv(sk_e))
    }),
{
}
