// C01 / C11 / C12 — property-level theorems over the spec functions (which the code is verified equal to).

/// A = B * 1/(SK+e),  PK = BP2 * SK   ==>   e(A, PK + BP2*e) * e(B, -BP2) == 1
pub proof fn lemma_pairing_of_signature(sk: Scalar, e: Scalar, b: G1Projective)   //# C01.thm.pairing
    requires s_add(sk, e) != s_zero(),
    ensures pairing_check(g2_mul(g2_gen(), sk), g1_mul(b, s_inv(s_add(sk, e))), e, b),
{
    let w = s_add(sk, e);
    let a = g1_mul(b, s_inv(w));
    // PK + BP2*e = BP2*(SK+e)
    ax_g2_mul_sadd(g2_gen(), sk, e);
    assert(g2_add(g2_mul(g2_gen(), sk), g2_mul(g2_gen(), e)) == g2_mul(g2_gen(), w));
    // e(A, BP2*w) = e(A*w, BP2)
    ax_pair_move(a, w);
    // A*w = B*(1/w * w) = B
    ax_g1_mul_mul(b, s_inv(w), w);
    ax_s_mul_comm(s_inv(w), w);
    ax_s_inv(w);
    ax_g1_mul_one(b);
    assert(g1_mul(a, w) == b);
    ax_pair_eq(b, b);
}

/// CoreVerify(CoreSign(..)) holds for every message vector, header, generator list of the right length
pub proof fn thm_core_sign_verifies<CS: BbsCiphersuite>(sk: Scalar, p1: G1Projective, gens: Seq<G1Projective>, m: Seq<Scalar>, header: Seq<u8>, api_id: Seq<u8>)   //# C01.thm.core
    requires
        gens.len() == m.len() + 1,
        (api_id + CS::H2S@).len() <= 255,
        s_add(sk, core_sign_e::<CS>(sk, g2_mul(g2_gen(), sk), gens, m, header, api_id)) != s_zero(),   // H-nz
    ensures
        core_verify_spec::<CS>(g2_mul(g2_gen(), sk),
            BBSplusSignature { A: core_sign_a::<CS>(sk, g2_mul(g2_gen(), sk), p1, gens, m, header, api_id), e: core_sign_e::<CS>(sk, g2_mul(g2_gen(), sk), gens, m, header, api_id) },
            m, p1, gens, header, api_id),
{
    let pk = g2_mul(g2_gen(), sk);
    let h = gens.subrange(1, gens.len() as int);
    let domain = domain_spec::<CS>(pk, gens[0], h, header, api_id);
    let e = core_sign_e::<CS>(sk, pk, gens, m, header, api_id);
    lemma_pairing_of_signature(sk, e, b_spec(p1, gens[0], domain, h, m));
}

/// verify(pk, sign(sk, pk, header, msgs), header, msgs) = Ok — all L, all messages, both suites (generic CS)
pub proof fn thm_C01<CS: BbsCiphersuite>(sk: Scalar, msgs: Seq<Vec<u8>>, header: Seq<u8>)   //# C01.thm
    requires
        sign_hnz::<CS>(sk, g2_mul(g2_gen(), sk), msgs, header),
    ensures
        verify_spec::<CS>(g2_mul(g2_gen(), sk), sign_spec::<CS>(sk, g2_mul(g2_gen(), sk), msgs, header), msgs, header),
{
    CS::consts_facts();
    let pk = g2_mul(g2_gen(), sk);
    let gens = generators_spec::<CS>((msgs.len() + 1) as nat, CS::API_ID@);
    let m = msgs_to_scalars_spec::<CS>(msgs, CS::API_ID@);
    thm_core_sign_verifies::<CS>(sk, p1_spec::<CS>(), gens, m, header, CS::API_ID@);
}

/// ... also after the 80-byte round trip (A != identity is CoreSign's own check; e != 0 is H-nz')
pub proof fn thm_C01_roundtrip(sig: BBSplusSignature)   //# C01.thm.rt80
    requires sig.A != g1_zero(), sig.e != s_zero(),
    ensures
        sig_decodes(enc_sig(sig), sig),
        forall|y: BBSplusSignature| sig_decodes(enc_sig(sig), y) ==> y == sig,
{
    lemma_sig_roundtrip(sig);
    assert forall|y: BBSplusSignature| sig_decodes(enc_sig(sig), y) implies y == sig by {
        lemma_sig_functional(enc_sig(sig), sig, y);
    }
}

/// an absent header / message list is the empty one
pub proof fn thm_C01_none_is_empty(h: &[u8], m: &[Vec<u8>])   //# C01.none_is_empty
    requires h@.len() == 0, m@.len() == 0,
    ensures opt_bytes(None) == opt_bytes(Some(h)), opt_msgs(None) == opt_msgs(Some(m)),
{
    assert(h@ =~= Seq::<u8>::empty());
    assert(m@ =~= Seq::<Vec<u8>>::empty());
}

// ---- C11 ------------------------------------------------------------------------------------------
/// the first k generators do not depend on how many are requested
pub proof fn thm_C11_prefix<CS: BbsCiphersuite>(n: nat, k: nat, api_id: Seq<u8>)   //# C11.prefix
    requires k <= n,
    ensures generators_spec::<CS>(n, api_id).subrange(0, k as int) == generators_spec::<CS>(k, api_id),
{
    assert(generators_spec::<CS>(n, api_id).subrange(0, k as int) =~= generators_spec::<CS>(k, api_id));
}

/// the generator seed chain, the generator DST, the domain DST and the challenge DST all start with the api id
/// (so a different api id gives different hash inputs; equality of outputs then needs a hash collision: H-col)
pub proof fn thm_C11_api_in_every_dst<CS: BbsCiphersuite>(api_id: Seq<u8>, pk: G2Projective, q1: G1Projective, h: Seq<G1Projective>, header: Seq<u8>)   //# C11.api_id.bound
    ensures
        domain_spec::<CS>(pk, q1, h, header, api_id) == h2s_spec::<CS>(domain_input(pk, q1, h, header, api_id), api_id + CS::H2S@),
        gen_spec::<CS>(api_id, 1) == h2c_spec::<CS>(gen_v::<CS>(api_id, 1), api_id + CS::GENERATOR_DST@),
        (api_id + CS::H2S@).subrange(0, api_id.len() as int) == api_id,
        (api_id + CS::GENERATOR_DST@).subrange(0, api_id.len() as int) == api_id,
{
    assert((api_id + CS::H2S@).subrange(0, api_id.len() as int) =~= api_id);
    assert((api_id + CS::GENERATOR_DST@).subrange(0, api_id.len() as int) =~= api_id);
}
