// C09 — property-level lemmas over the decoding relations and the draft encoders.
// For every codec X:  canonical  (X_decodes(b, x) ==> enc_X(x) == b),
//                     roundtrip  (x valid ==> X_decodes(enc_X(x), x)),
//                     functional (X_decodes(b, x) && X_decodes(b, y) ==> x == y field-wise).
// With the decoder contracts (Ok ==> X_decodes; X_decodes for some x ==> Ok) these give: re-encoding
// an accepted octet string reproduces it, no two octet strings decode to the same object, every
// produced object survives the codec, wrong lengths / trailing bytes / forbidden values are rejected.

pub proof fn lemma_scalars_canonical(b: Seq<u8>, s: Seq<Scalar>)   //# C09.scalars.canonical
    requires scalars_decode(b, s),
    ensures enc_scalars(s) == b,
    decreases s.len(),
{
    broadcast use ax_sc_canon, ax_sc_len;
    if s.len() == 0 {
        assert(b =~= Seq::<u8>::empty());
    } else {
        let n = s.len() as int - 1;
        let b0 = b.subrange(0, 32 * n);
        assert forall|j: int| 0 <= j < n implies sc_dec(#[trigger] chunk32(b0, j)) == Some(s.drop_last()[j]) by {
            assert(chunk32(b0, j) =~= chunk32(b, j));
        }
        lemma_scalars_canonical(b0, s.drop_last());
        assert(sc_dec(chunk32(b, n)) == Some(s[n]));
        assert(sc_enc(s.last()) == chunk32(b, n));
        assert(b =~= b0 + chunk32(b, n));
    }
}

pub proof fn lemma_scalars_roundtrip(s: Seq<Scalar>)   //# C09.scalars.roundtrip
    ensures scalars_decode(enc_scalars(s), s),
    decreases s.len(),
{
    broadcast use ax_sc_rt, ax_sc_len;
    lemma_enc_scalars_len(s);
    if s.len() > 0 {
        let n = s.len() as int - 1;
        lemma_scalars_roundtrip(s.drop_last());
        lemma_enc_scalars_len(s.drop_last());
        let b = enc_scalars(s);
        let b0 = enc_scalars(s.drop_last());
        assert(b == b0 + sc_enc(s.last()));
        assert forall|j: int| 0 <= j < s.len() implies sc_dec(#[trigger] chunk32(b, j)) == Some(s[j]) by {
            if j < n {
                assert(chunk32(b, j) =~= chunk32(b0, j));
                assert(s.drop_last()[j] == s[j]);
            } else {
                assert(chunk32(b, j) =~= sc_enc(s.last()));
            }
        }
    }
}

pub proof fn lemma_scalars_functional(b: Seq<u8>, s: Seq<Scalar>, t: Seq<Scalar>)
    requires scalars_decode(b, s), scalars_decode(b, t),
    ensures s == t,
{
    assert(s.len() == t.len());
    assert forall|j: int| 0 <= j < s.len() implies s[j] == t[j] by {
        assert(sc_dec(chunk32(b, j)) == Some(s[j]));
        assert(sc_dec(chunk32(b, j)) == Some(t[j]));
    }
    assert(s =~= t);
}

// ---- public key
pub proof fn lemma_pk_canonical(b: Seq<u8>, x: BBSplusPublicKey)   //# C09.pk.canonical
    requires pk_decodes(b, x),
    ensures enc_pk(x) == b,
{ broadcast use ax_g2_canon; }

pub proof fn lemma_pk_roundtrip(x: BBSplusPublicKey)   //# C09.pk.roundtrip
    requires x.0 != g2_zero(),
    ensures pk_decodes(enc_pk(x), x),
{ broadcast use ax_g2_rt, ax_g2_len; }

pub proof fn lemma_pk_unc_canonical(b: Seq<u8>, x: BBSplusPublicKey)   //# C09.pk_unc.canonical
    requires pk_unc_decodes(b, x),
    ensures g2_enc_unc(x.0) == b,
{ broadcast use ax_g2u_canon; }

pub proof fn lemma_pk_unc_roundtrip(x: BBSplusPublicKey)   //# C09.pk_unc.roundtrip
    requires x.0 != g2_zero(),
    ensures pk_unc_decodes(g2_enc_unc(x.0), x),
{ broadcast use ax_g2u_rt, ax_g2u_len; }

// ---- signature
pub proof fn lemma_sig_canonical(b: Seq<u8>, x: BBSplusSignature)   //# C09.sig.canonical
    requires sig_decodes(b, x),
    ensures enc_sig(x) == b,
{
    broadcast use ax_g1_canon, ax_sc_canon;
    assert(b =~= b.subrange(0, 48) + b.subrange(48, 80));
}

pub proof fn lemma_sig_roundtrip(x: BBSplusSignature)   //# C09.sig.roundtrip
    requires x.A != g1_zero(), x.e != s_zero(),
    ensures sig_decodes(enc_sig(x), x),
{
    broadcast use ax_g1_rt, ax_sc_rt, ax_g1_len, ax_sc_len;
    let b = enc_sig(x);
    assert(b.subrange(0, 48) =~= g1_enc(x.A));
    assert(b.subrange(48, 80) =~= sc_enc(x.e));
}

pub proof fn lemma_sig_functional(b: Seq<u8>, x: BBSplusSignature, y: BBSplusSignature)   //# C09.sig.functional
    requires sig_decodes(b, x), sig_decodes(b, y),
    ensures x == y,
{ }

// ---- proof
pub proof fn lemma_proof_canonical(b: Seq<u8>, x: BBSplusPoKSignature)   //# C09.pok.canonical
    requires proof_decodes(b, x),
    ensures enc_proof(x) == b,
{
    broadcast use ax_g1_canon, ax_sc_canon;
    let tail = b.subrange(240, b.len() as int);
    lemma_scalars_canonical(tail, x.m_cap@.push(x.challenge));
    lemma_enc_scalars_push(x.m_cap@, x.challenge);
    assert(b =~= b.subrange(0, 48) + b.subrange(48, 96) + b.subrange(96, 144) + b.subrange(144, 176) + b.subrange(176, 208) + b.subrange(208, 240) + tail);
    assert(enc_proof(x) =~= b);
}

pub proof fn lemma_proof_roundtrip(x: BBSplusPoKSignature)   //# C09.pok.roundtrip
    requires x.Abar != g1_zero(), x.Bbar != g1_zero(), x.D != g1_zero(),
    ensures proof_decodes(enc_proof(x), x),
{
    broadcast use ax_g1_rt, ax_sc_rt, ax_g1_len, ax_sc_len;
    let b = enc_proof(x);
    let full = x.m_cap@.push(x.challenge);
    lemma_enc_scalars_push(x.m_cap@, x.challenge);
    lemma_enc_scalars_len(x.m_cap@);
    lemma_enc_scalars_len(full);
    lemma_scalars_roundtrip(full);
    assert(b.subrange(0, 48) =~= g1_enc(x.Abar));
    assert(b.subrange(48, 96) =~= g1_enc(x.Bbar));
    assert(b.subrange(96, 144) =~= g1_enc(x.D));
    assert(b.subrange(144, 176) =~= sc_enc(x.e_cap));
    assert(b.subrange(176, 208) =~= sc_enc(x.r1_cap));
    assert(b.subrange(208, 240) =~= sc_enc(x.r3_cap));
    assert(b.subrange(240, b.len() as int) =~= enc_scalars(full));
}

pub proof fn lemma_proof_functional(b: Seq<u8>, x: BBSplusPoKSignature, y: BBSplusPoKSignature)   //# C09.pok.functional
    requires proof_decodes(b, x), proof_decodes(b, y),
    ensures x.Abar == y.Abar, x.Bbar == y.Bbar, x.D == y.D, x.e_cap == y.e_cap, x.r1_cap == y.r1_cap, x.r3_cap == y.r3_cap,
        x.m_cap@ == y.m_cap@, x.challenge == y.challenge,
{
    let tail = b.subrange(240, b.len() as int);
    let fx = x.m_cap@.push(x.challenge);
    let fy = y.m_cap@.push(y.challenge);
    lemma_scalars_functional(tail, fx, fy);
    assert(x.m_cap@ =~= fx.drop_last());
    assert(y.m_cap@ =~= fy.drop_last());
    assert(x.challenge == fx.last());
    assert(y.challenge == fy.last());
}

/// the proof length reveals only U:  |proof| = 272 + 32 * U   (C03 length clause)
pub proof fn lemma_proof_len(x: BBSplusPoKSignature)   //# C03.proof_len.spec
    ensures enc_proof(x).len() == 272 + 32 * x.m_cap@.len(),
{
    broadcast use ax_g1_len, ax_sc_len;
    lemma_enc_scalars_len(x.m_cap@);
}

// ---- commitment proof / commitment
pub proof fn lemma_zkpok_canonical(b: Seq<u8>, x: BBSplusZKPoK)   //# C09.zkpok.canonical
    requires zkpok_decodes(b, x),
    ensures enc_zkpok(x) == b,
{
    broadcast use ax_sc_canon;
    let tail = b.subrange(32, b.len() as int);
    lemma_scalars_canonical(tail, x.m_cap@.push(x.challenge));
    lemma_enc_scalars_push(x.m_cap@, x.challenge);
    assert(b =~= b.subrange(0, 32) + tail);
    assert(enc_zkpok(x) =~= b);
}

pub proof fn lemma_zkpok_roundtrip(x: BBSplusZKPoK)   //# C09.zkpok.roundtrip
    ensures zkpok_decodes(enc_zkpok(x), x),
{
    broadcast use ax_sc_rt, ax_sc_len;
    let b = enc_zkpok(x);
    let full = x.m_cap@.push(x.challenge);
    lemma_enc_scalars_push(x.m_cap@, x.challenge);
    lemma_enc_scalars_len(x.m_cap@);
    lemma_enc_scalars_len(full);
    lemma_scalars_roundtrip(full);
    assert(b.subrange(0, 32) =~= sc_enc(x.s_cap));
    assert(b.subrange(32, b.len() as int) =~= enc_scalars(full));
}

pub proof fn lemma_zkpok_functional(b: Seq<u8>, x: BBSplusZKPoK, y: BBSplusZKPoK)   //# C09.zkpok.functional
    requires zkpok_decodes(b, x), zkpok_decodes(b, y),
    ensures x.s_cap == y.s_cap, x.m_cap@ == y.m_cap@, x.challenge == y.challenge,
{
    let tail = b.subrange(32, b.len() as int);
    let fx = x.m_cap@.push(x.challenge);
    let fy = y.m_cap@.push(y.challenge);
    lemma_scalars_functional(tail, fx, fy);
    assert(x.m_cap@ =~= fx.drop_last());
    assert(y.m_cap@ =~= fy.drop_last());
    assert(x.challenge == fx.last());
    assert(y.challenge == fy.last());
}

pub proof fn lemma_commitment_canonical(b: Seq<u8>, x: BBSplusCommitment)   //# C09.commitment.canonical
    requires commitment_decodes(b, x),
    ensures enc_commitment(x) == b,
{
    broadcast use ax_g1_canon;
    lemma_zkpok_canonical(b.subrange(48, b.len() as int), x.proof);
    assert(b =~= b.subrange(0, 48) + b.subrange(48, b.len() as int));
}

pub proof fn lemma_commitment_roundtrip(x: BBSplusCommitment)   //# C09.commitment.roundtrip
    ensures commitment_decodes(enc_commitment(x), x),
{
    broadcast use ax_g1_rt, ax_g1_len;
    let b = enc_commitment(x);
    lemma_zkpok_roundtrip(x.proof);
    assert(b.subrange(0, 48) =~= g1_enc(x.commitment));
    assert(b.subrange(48, b.len() as int) =~= enc_zkpok(x.proof));
}
