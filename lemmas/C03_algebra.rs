// C03 — completeness algebra of CoreProofGen / CoreProofVerify over the spec functions the code is verified
// equal to.  Every step is an explicit instance of an A-alg axiom (no AC broadcast), so the proofs are stable.

// ---- abelian group helpers over G1 ---------------------------------------------------------------------
pub proof fn lemma_g1_zero_add(a: G1Projective)   //# C03.alg.zero_add
    ensures g1_add(g1_zero(), a) == a,
{
    ax_g1_add_comm(g1_zero(), a);
    ax_g1_add_zero(a);
}

/// (a + b) + (c + d) == (a + c) + (b + d)
pub proof fn lemma_g1_shuffle4(a: G1Projective, b: G1Projective, c: G1Projective, d: G1Projective)   //# C03.alg.shuffle4
    ensures g1_add(g1_add(a, b), g1_add(c, d)) == g1_add(g1_add(a, c), g1_add(b, d)),
{
    ax_g1_add_assoc(a, b, g1_add(c, d));
    ax_g1_add_assoc(b, c, d);
    ax_g1_add_comm(b, c);
    ax_g1_add_assoc(c, b, d);
    ax_g1_add_assoc(a, c, g1_add(b, d));
    assert(g1_add(b, g1_add(c, d)) == g1_add(g1_add(b, c), d));
    assert(g1_add(g1_add(c, b), d) == g1_add(c, g1_add(b, d)));
}

/// (x - y) + (z + y) + (w - x) == z + w
pub proof fn lemma_cancel4(x: G1Projective, y: G1Projective, z: G1Projective, w: G1Projective)   //# C03.alg.cancel4
    ensures g1_add(g1_add(g1_add(x, g1_neg(y)), g1_add(z, y)), g1_add(w, g1_neg(x))) == g1_add(z, w),
{
    // (x + -y) + (z + y) == (x + z) + (-y + y) == x + z
    lemma_g1_shuffle4(x, g1_neg(y), z, y);
    ax_g1_add_comm(g1_neg(y), y);
    ax_g1_add_neg(y);
    ax_g1_add_zero(g1_add(x, z));
    assert(g1_add(g1_add(x, g1_neg(y)), g1_add(z, y)) == g1_add(x, z));
    // (x + z) + (w + -x) == (z + x) + (w + -x) == (z + w) + (x + -x) == z + w
    ax_g1_add_comm(x, z);
    lemma_g1_shuffle4(z, x, w, g1_neg(x));
    ax_g1_add_neg(x);
    ax_g1_add_zero(g1_add(z, w));
}

/// (x + (z - (x + y))) + (w + y) == z + w
pub proof fn lemma_cancel_t2(x: G1Projective, y: G1Projective, z: G1Projective, w: G1Projective)   //# C03.alg.cancel_t2
    ensures g1_add(g1_add(x, g1_add(z, g1_neg(g1_add(x, y)))), g1_add(w, y)) == g1_add(z, w),
{
    let n = g1_neg(g1_add(x, y));
    // x + (z + n) == z + (x + n)
    ax_g1_add_assoc(x, z, n);
    ax_g1_add_comm(x, z);
    ax_g1_add_assoc(z, x, n);
    assert(g1_add(x, g1_add(z, n)) == g1_add(z, g1_add(x, n)));
    // (z + (x + n)) + (w + y) == (z + w) + ((x + n) + y)
    lemma_g1_shuffle4(z, g1_add(x, n), w, y);
    // (x + n) + y == (x + y) + n == 0
    ax_g1_add_assoc(x, n, y);
    ax_g1_add_comm(n, y);
    ax_g1_add_assoc(x, y, n);
    ax_g1_add_neg(g1_add(x, y));
    assert(g1_add(g1_add(x, n), y) == g1_zero());
    ax_g1_add_zero(g1_add(z, w));
}

/// P != 0, a != 0  ==>  P*a != 0   (prime order)
pub proof fn lemma_g1_mul_nonzero(p: G1Projective, a: Scalar)   //# C03.alg.mul_nonzero
    requires p != g1_zero(), a != s_zero(),
    ensures g1_mul(p, a) != g1_zero(),
{
    if g1_mul(p, a) == g1_zero() {
        ax_g1_prime_order(p, a);
    }
}

pub proof fn lemma_s_mul_nonzero(a: Scalar, b: Scalar)   //# C03.alg.s_mul_nonzero
    requires a != s_zero(), b != s_zero(),
    ensures s_mul(a, b) != s_zero(),
{
    if s_mul(a, b) == s_zero() {
        ax_s_integral(a, b);
    }
}

// ---- scalar field helpers ----------------------------------------------------------------------------------
pub proof fn lemma_s_sub_zero(a: Scalar, b: Scalar)   //# C03.alg.s_sub_zero
    requires s_sub(a, b) == s_zero(),
    ensures a == b,
{
    // a == a + (-b + b) == (a + -b) + b == 0 + b == b
    ax_s_add_comm(s_neg(b), b);
    ax_s_add_neg(b);
    ax_s_add_zero(a);
    ax_s_add_assoc(a, s_neg(b), b);
    ax_s_add_comm(s_zero(), b);
    ax_s_add_zero(b);
}

pub proof fn lemma_s_add_cancel_left(a: Scalar, x: Scalar, y: Scalar)   //# C03.alg.s_cancel
    requires s_add(a, x) == s_add(a, y),
    ensures x == y,
{
    // x == (-a + a) + x == -a + (a + x)
    ax_s_add_assoc(s_neg(a), a, x);
    ax_s_add_assoc(s_neg(a), a, y);
    ax_s_add_comm(s_neg(a), a);
    ax_s_add_neg(a);
    ax_s_add_comm(s_zero(), x);
    ax_s_add_comm(s_zero(), y);
    ax_s_add_zero(x);
    ax_s_add_zero(y);
}

pub proof fn lemma_s_neg_inj(a: Scalar, b: Scalar)   //# C03.alg.s_neg_inj
    requires s_neg(a) == s_neg(b),
    ensures a == b,
{
    // a == a + (-b + b) == (a + -a) + b == b   using -a == -b
    ax_s_add_neg(a);
    ax_s_add_comm(s_neg(b), b);
    ax_s_add_neg(b);
    ax_s_add_zero(a);
    ax_s_add_assoc(a, s_neg(b), b);
    ax_s_add_comm(s_zero(), b);
    ax_s_add_zero(b);
}

// ---- folds -----------------------------------------------------------------------------------------------
/// sum_{t < n} H[idx[t]] * m[t]
pub open spec fn fold_sum(h: Seq<G1Projective>, m: Seq<Scalar>, idx: Seq<usize>, n: int) -> G1Projective {
    fold_idx(g1_zero(), h, m, idx, n)
}

pub proof fn lemma_fold_shift(base: G1Projective, x: G1Projective, h: Seq<G1Projective>, m: Seq<Scalar>, idx: Seq<usize>, n: int)   //# C03.alg.fold_shift
    ensures fold_idx(g1_add(base, x), h, m, idx, n) == g1_add(fold_idx(base, h, m, idx, n), x),
    decreases n,
{
    if n > 0 {
        lemma_fold_shift(base, x, h, m, idx, n - 1);
        let t = g1_mul(h[idx[n - 1] as int], m[n - 1]);
        let f = fold_idx(base, h, m, idx, n - 1);
        // (f + x) + t == (f + t) + x
        ax_g1_add_assoc(f, x, t);
        ax_g1_add_comm(x, t);
        ax_g1_add_assoc(f, t, x);
    }
}

/// fold(base, ..) == base + fold(0, ..)
pub proof fn lemma_fold_split(base: G1Projective, h: Seq<G1Projective>, m: Seq<Scalar>, idx: Seq<usize>, n: int)   //# C03.alg.fold_split
    ensures fold_idx(base, h, m, idx, n) == g1_add(base, fold_sum(h, m, idx, n)),
{
    lemma_fold_shift(g1_zero(), base, h, m, idx, n);
    lemma_g1_zero_add(base);
    ax_g1_add_comm(fold_sum(h, m, idx, n), base);
}

/// the first n entries decide the fold
pub proof fn lemma_fold_prefix(base: G1Projective, h: Seq<G1Projective>, m1: Seq<Scalar>, i1: Seq<usize>, m2: Seq<Scalar>, i2: Seq<usize>, n: int)   //# C03.alg.fold_prefix
    requires
        n <= i1.len(), n <= i2.len(), n <= m1.len(), n <= m2.len(),
        forall|t: int| 0 <= t < n ==> i1[t] == i2[t] && m1[t] == m2[t],
    ensures fold_idx(base, h, m1, i1, n) == fold_idx(base, h, m2, i2, n),
    decreases n,
{
    if n > 0 {
        lemma_fold_prefix(base, h, m1, i1, m2, i2, n - 1);
    }
}

/// responses m^_j = m~_j + m_j * c :  fold(X, m^) == fold(X, m~) + fold(0, m) * c
pub proof fn lemma_fold_lin(x: G1Projective, h: Seq<G1Projective>, mh: Seq<Scalar>, mt: Seq<Scalar>, mu: Seq<Scalar>, c: Scalar, idx: Seq<usize>, n: int)   //# C03.alg.fold_lin
    requires
        n <= mh.len(), n <= mt.len(), n <= mu.len(),
        forall|j: int| 0 <= j < n ==> mh[j] == s_add(mt[j], s_mul(mu[j], c)),
    ensures fold_idx(x, h, mh, idx, n) == g1_add(fold_idx(x, h, mt, idx, n), g1_mul(fold_sum(h, mu, idx, n), c)),
    decreases n,
{
    if n <= 0 {
        ax_g1_zero_mul(c);
        ax_g1_add_zero(x);
    } else {
        lemma_fold_lin(x, h, mh, mt, mu, c, idx, n - 1);
        let g = h[idx[n - 1] as int];
        let f = fold_idx(x, h, mt, idx, n - 1);
        let s = fold_sum(h, mu, idx, n - 1);
        // g * (mt + mu c) == g mt + (g mu) c
        ax_g1_mul_sadd(g, mt[n - 1], s_mul(mu[n - 1], c));
        ax_g1_mul_mul(g, mu[n - 1], c);
        // (f + s c) + (g mt + (g mu) c) == (f + g mt) + (s c + (g mu) c) == (f + g mt) + (s + g mu) c
        lemma_g1_shuffle4(f, g1_mul(s, c), g1_mul(g, mt[n - 1]), g1_mul(g1_mul(g, mu[n - 1]), c));
        ax_g1_mul_padd(s, g1_mul(g, mu[n - 1]), c);
    }
}

// ---- disclosed / undisclosed partition of B ------------------------------------------------------------
/// number of entries of idx that are < k (idx strictly ascending)
pub open spec fn rank(idx: Seq<usize>, k: int) -> int
    decreases k,
{
    if k <= 0 { 0 } else if idx.contains((k - 1) as usize) { rank(idx, k - 1) + 1 } else { rank(idx, k - 1) }
}

pub proof fn lemma_rank_index(idx: Seq<usize>, k: int)   //# C03.alg.rank
    requires strictly_sorted(idx), 0 <= k <= usize::MAX + 1,
    ensures
        0 <= rank(idx, k) <= idx.len(),
        forall|i: int| 0 <= i < rank(idx, k) ==> idx[i] < k,
        forall|i: int| rank(idx, k) <= i < idx.len() ==> idx[i] >= k,
    decreases k,
{
    if k > 0 {
        lemma_rank_index(idx, k - 1);
        let r = rank(idx, k - 1);
        if idx.contains((k - 1) as usize) {
            let j = choose|j: int| 0 <= j < idx.len() && idx[j] == (k - 1) as usize;
            if j < r { assert(idx[j] < k - 1); }
            assert(j >= r);
            if j > r { assert(idx[r] < idx[j]); assert(idx[r] >= k - 1); }
            assert(j == r);
            assert forall|i: int| r + 1 <= i < idx.len() implies idx[i] >= k by {
                assert(idx[r] < idx[i]);
            }
        } else {
            assert forall|i: int| r <= i < idx.len() implies idx[i] >= k by {
                if idx[i] == k - 1 { assert(idx.contains((k - 1) as usize)); }
            }
        }
    }
}

/// B over the first k messages = (disclosed part) then (undisclosed part), each in ascending index order
pub proof fn lemma_partition(base: G1Projective, h: Seq<G1Projective>, m: Seq<Scalar>, disc: Seq<usize>, k: int)   //# C03.alg.partition
    requires strictly_sorted(disc), 0 <= k <= usize::MAX + 1,
    ensures
        b_fold(base, h, m, k)
            == fold_idx(fold_idx(base, h, select(m, disc), disc, rank(disc, k)), h, select(m, complement(k, disc)), complement(k, disc), complement(k, disc).len() as int),
    decreases k,
{
    if k > 0 {
        lemma_partition(base, h, m, disc, k - 1);
        lemma_rank_index(disc, k - 1);
        lemma_rank_index(disc, k);
        let r = rank(disc, k - 1);
        let dm = select(m, disc);
        let und = complement(k - 1, disc);
        let um = select(m, und);
        let u = und.len() as int;
        let t = g1_mul(h[k - 1], m[k - 1]);
        if disc.contains((k - 1) as usize) {
            assert(disc[r] == (k - 1) as usize) by {
                let j = choose|j: int| 0 <= j < disc.len() && disc[j] == (k - 1) as usize;
                if j < r { assert(disc[j] < k - 1); }
                if j > r { assert(disc[r] < disc[j]); }
            }
            assert(dm[r] == m[k - 1]);
            assert(fold_idx(base, h, dm, disc, r + 1) == g1_add(fold_idx(base, h, dm, disc, r), t));
            lemma_fold_shift(fold_idx(base, h, dm, disc, r), t, h, um, und, u);
        } else {
            let und2 = und.push((k - 1) as usize);
            let um2 = select(m, und2);
            assert(und2.len() == u + 1);
            assert(und2[u] == (k - 1) as usize);
            assert(um2[u] == m[k - 1]);
            assert forall|t: int| 0 <= t < u implies und[t] == und2[t] && um[t] == um2[t] by {}
            lemma_fold_prefix(fold_idx(base, h, dm, disc, r), h, um, und, um2, und2, u);
        }
    }
}
