// C02 / C04 / C06 — binding: what the verification equations determine, and injectivity of every hash input.
// Unforgeability itself is a computational statement (H-col, H-gen, H-sdh) and is NOT proved; these theorems are the
// deductive half of the reduction: any accepted alteration yields a collision in a hash input or a non-trivial
// relation between generators.

pub proof fn lemma_concat_split<T>(a: Seq<T>, b: Seq<T>, a2: Seq<T>, b2: Seq<T>)   //# C02.thm.concat_split
    requires a.len() == a2.len(), a + b == a2 + b2,
    ensures a == a2, b == b2,
{
    assert(a =~= (a + b).subrange(0, a.len() as int));
    assert(a2 =~= (a2 + b2).subrange(0, a2.len() as int));
    assert(b =~= (a + b).subrange(a.len() as int, (a + b).len() as int));
    assert(b2 =~= (a2 + b2).subrange(a2.len() as int, (a2 + b2).len() as int));
}

pub proof fn lemma_g1_enc_inj(p: G1Projective, q: G1Projective)   //# C02.thm.g1_enc_inj
    requires g1_enc(p) == g1_enc(q),
    ensures p == q,
{
    ax_g1_rt(p);
    ax_g1_rt(q);
}

pub proof fn lemma_g2_enc_inj(p: G2Projective, q: G2Projective)   //# C02.thm.g2_enc_inj
    requires g2_enc(p) == g2_enc(q),
    ensures p == q,
{
    ax_g2_rt(p);
    ax_g2_rt(q);
}

pub proof fn lemma_sc_enc_inj(p: Scalar, q: Scalar)   //# C02.thm.sc_enc_inj
    requires sc_enc(p) == sc_enc(q),
    ensures p == q,
{
    ax_sc_rt(p);
    ax_sc_rt(q);
}

pub proof fn lemma_enc_points_inj(h: Seq<G1Projective>, k: Seq<G1Projective>)   //# C02.thm.enc_points_inj
    requires h.len() == k.len(), enc_points(h) == enc_points(k),
    ensures h == k,
    decreases h.len(),
{
    if h.len() > 0 {
        lemma_enc_points_len(h.drop_last());
        lemma_enc_points_len(k.drop_last());
        lemma_concat_split(enc_points(h.drop_last()), g1_enc(h.last()), enc_points(k.drop_last()), g1_enc(k.last()));
        lemma_enc_points_inj(h.drop_last(), k.drop_last());
        lemma_g1_enc_inj(h.last(), k.last());
        assert(h =~= h.drop_last().push(h.last()));
        assert(k =~= k.drop_last().push(k.last()));
    } else {
        assert(h =~= k);
    }
}

pub proof fn lemma_pow256_8()   //# C02.thm.pow256_8
    ensures pow256(8) == 0x1_0000_0000_0000_0000,
{
    assert(pow256(8) == 0x1_0000_0000_0000_0000) by (compute);
}

/// the domain hash input determines (PK, L, Q1, H_1..H_L, header) - for one api id
pub proof fn thm_domain_input_inj(pk: G2Projective, q1: G1Projective, h: Seq<G1Projective>, header: Seq<u8>,
    pk2: G2Projective, q12: G1Projective, h2: Seq<G1Projective>, header2: Seq<u8>, api_id: Seq<u8>)   //# C02.thm.domain_inj
    requires
        h.len() <= usize::MAX, h2.len() <= usize::MAX, header.len() <= usize::MAX, header2.len() <= usize::MAX,
        domain_input(pk, q1, h, header, api_id) == domain_input(pk2, q12, h2, header2, api_id),
    ensures pk == pk2, q1 == q12, h == h2, header == header2,
{
    broadcast use ax_g1_len, ax_g2_len;
    lemma_pow256_8();
    lemma_i2osp_len(h.len(), 8);
    lemma_i2osp_len(h2.len(), 8);
    lemma_i2osp_len(header.len(), 8);
    lemma_i2osp_len(header2.len(), 8);
    lemma_enc_points_len(h);
    lemma_enc_points_len(h2);
    let x = domain_input(pk, q1, h, header, api_id);
    let y = domain_input(pk2, q12, h2, header2, api_id);
    // PK
    assert(g2_enc(pk) =~= x.subrange(0, 96));
    assert(g2_enc(pk2) =~= y.subrange(0, 96));
    lemma_g2_enc_inj(pk, pk2);
    // L
    assert(i2osp_spec(h.len(), 8) =~= x.subrange(96, 104));
    assert(i2osp_spec(h2.len(), 8) =~= y.subrange(96, 104));
    lemma_i2osp_inj(h.len(), h2.len(), 8);
    let l = h.len() as int;
    // Q1
    assert(g1_enc(q1) =~= x.subrange(104, 152));
    assert(g1_enc(q12) =~= y.subrange(104, 152));
    lemma_g1_enc_inj(q1, q12);
    // H
    assert(enc_points(h) =~= x.subrange(152, 152 + 48 * l));
    assert(enc_points(h2) =~= y.subrange(152, 152 + 48 * l));
    lemma_enc_points_inj(h, h2);
    // header length, header
    let o = 152 + 48 * l + api_id.len();
    assert(i2osp_spec(header.len(), 8) =~= x.subrange(o, o + 8));
    assert(i2osp_spec(header2.len(), 8) =~= y.subrange(o, o + 8));
    lemma_i2osp_inj(header.len(), header2.len(), 8);
    assert(header =~= x.subrange(o + 8, x.len() as int));
    assert(header2 =~= y.subrange(o + 8, y.len() as int));
}

/// (A, e, PK) determine B:  two B's accepted with the same signature are equal - so a signature that verifies for an
/// altered (msgs', header', L') gives B(msgs', header') == B(msgs, header): a non-trivial relation between generators
pub proof fn thm_sig_determines_b(pk: G2Projective, a: G1Projective, e: Scalar, b: G1Projective, b2: G1Projective)   //# C02.thm.b_determined
    requires pairing_check(pk, a, e, b), pairing_check(pk, a, e, b2),
    ensures b == b2,
{
    let q = g2_add(pk, g2_mul(g2_gen(), e));
    let w = ax_g2_cyclic(q);
    ax_pair_move(a, w);
    ax_pair_eq(g1_mul(a, w), b);
    ax_pair_eq(g1_mul(a, w), b2);
}

/// ... and (B, e, PK) determine A:  flipping any bit of A (when the result still decodes) is refused
pub proof fn thm_sig_determines_a(sk: Scalar, a: G1Projective, a2: G1Projective, e: Scalar, b: G1Projective)   //# C02.thm.a_determined
    requires
        s_add(sk, e) != s_zero(),
        pairing_check(g2_mul(g2_gen(), sk), a, e, b), pairing_check(g2_mul(g2_gen(), sk), a2, e, b),
    ensures a == a2,
{
    let w = s_add(sk, e);
    lemma_valid_sig_relation2(sk, a, e, b);
    lemma_valid_sig_relation2(sk, a2, e, b);
    // a == (a*w)*(1/w)
    ax_g1_mul_mul(a, w, s_inv(w));
    ax_g1_mul_mul(a2, w, s_inv(w));
    ax_s_inv(w);
    ax_g1_mul_one(a);
    ax_g1_mul_one(a2);
}

pub proof fn lemma_valid_sig_relation2(sk: Scalar, a: G1Projective, e: Scalar, b: G1Projective)   //# C02.thm.sig_relation
    requires pairing_check(g2_mul(g2_gen(), sk), a, e, b),
    ensures g1_mul(a, s_add(sk, e)) == b,
{
    let w = s_add(sk, e);
    ax_g2_mul_sadd(g2_gen(), sk, e);
    ax_pair_move(a, w);
    ax_pair_eq(g1_mul(a, w), b);
}

/// ... and for a fixed (A, B) and key, e is determined unless A is the identity
pub proof fn thm_sig_determines_e(sk: Scalar, a: G1Projective, e: Scalar, e2: Scalar, b: G1Projective)   //# C02.thm.e_determined
    requires
        a != g1_zero(),
        pairing_check(g2_mul(g2_gen(), sk), a, e, b), pairing_check(g2_mul(g2_gen(), sk), a, e2, b),
    ensures e == e2,
{
    lemma_valid_sig_relation2(sk, a, e, b);
    lemma_valid_sig_relation2(sk, a, e2, b);
    // a*(sk+e) == a*(sk+e2)  ==>  a*((sk+e) - (sk+e2)) == 0  ==> sk+e == sk+e2 ==> e == e2
    let w = s_add(sk, e);
    let w2 = s_add(sk, e2);
    ax_g1_mul_sadd(a, w, s_neg(w2));
    ax_g1_mul_sneg(a, w2);
    ax_g1_add_neg(g1_mul(a, w2));
    ax_g1_prime_order(a, s_sub(w, w2));
    lemma_s_sub_zero(w, w2);
    lemma_s_add_cancel_left(sk, e, e2);
}

/// a different public key (for the same A, e, B with A != identity) is refused
pub proof fn thm_sig_determines_pk(sk: Scalar, sk2: Scalar, a: G1Projective, e: Scalar, b: G1Projective)   //# C02.thm.pk_determined
    requires
        a != g1_zero(),
        pairing_check(g2_mul(g2_gen(), sk), a, e, b), pairing_check(g2_mul(g2_gen(), sk2), a, e, b),
    ensures sk == sk2,
{
    lemma_valid_sig_relation2(sk, a, e, b);
    lemma_valid_sig_relation2(sk2, a, e, b);
    let w = s_add(sk, e);
    let w2 = s_add(sk2, e);
    ax_g1_mul_sadd(a, w, s_neg(w2));
    ax_g1_mul_sneg(a, w2);
    ax_g1_add_neg(g1_mul(a, w2));
    ax_g1_prime_order(a, s_sub(w, w2));
    lemma_s_sub_zero(w, w2);
    ax_s_add_comm(sk, e);
    ax_s_add_comm(sk2, e);
    lemma_s_add_cancel_left(e, sk, sk2);
}
