// C13 — CL03 signatures: issued ones verify.

/// If (e, s, v) satisfies the postconditions of sign_multiattr for a well-formed key, the verification
/// equation and the range of e hold, hence (C13.verify_multiattr.accepts_valid) verification returns true.
pub proof fn thm_C13_complete(pk: CL03PublicKey, p: int, q: int, a: Seq<Integer>, m: Seq<CL03Message>, sig: CL03Signature, le: nat)   //# C13.thm.complete
    requires
        pk.N@ == p * q, is_prime(p), is_prime(q), p != q, pk.N@ > 1,
        cl_e_in_range(sig.e@, le),
        invertible(sig.e@, (p - 1) * (q - 1)),
        // the signed base prod a_i^{m_i} * b^s * c is a unit modulo N (all bases are quadratic residues coprime to N)
        igcd(attr_prod(a, m, pk.N@, m.len() as int) * pow_mod(pk.b@, sig.s@, pk.N@) * pk.c@, pk.N@) == 1,
        sig.v@ == pow_mod(attr_prod(a, m, pk.N@, m.len() as int) * pow_mod(pk.b@, sig.s@, pk.N@) * pk.c@, inv_mod(sig.e@, (p - 1) * (q - 1)), pk.N@),
    ensures
        cl_equation(pk, sig, a, m),
        cl_e_in_range(sig.e@, le),
        // v is a unit modulo N: the hypothesis under which a proof of knowledge of this signature is complete (C15.proof_gen.complete / wf)
        invertible(sig.v@, pk.N@),
{
    let base = attr_prod(a, m, pk.N@, m.len() as int) * pow_mod(pk.b@, sig.s@, pk.N@) * pk.c@;
    ax_euler_rsa(base, sig.e@, p, q);
    ax_gcd_pow_mod(base, inv_mod(sig.e@, (p - 1) * (q - 1)), pk.N@);
}


/// byte codec round trip: what from_bytes decodes from to_bytes(sig) is sig (C13.codec.sig_* are the verified postconditions of both)
pub proof fn thm_C13_codec_roundtrip(sig: CL03Signature, bytes: Seq<u8>, dec: CL03Signature, le: int, ls: int)   //# C13.thm.codec_roundtrip
    requires
        bytes.len() >= le + ls, 0 <= le, 0 <= ls,
        from_digits_be(bytes.subrange(0, le)) == sig.e@, from_digits_be(bytes.subrange(le, le + ls)) == sig.s@, from_digits_be(bytes.subrange(le + ls, bytes.len() as int)) == sig.v@,
        dec.e@ == from_digits_be(bytes.subrange(0, le)), dec.s@ == from_digits_be(bytes.subrange(le, le + ls)), dec.v@ == from_digits_be(bytes.subrange(le + ls, bytes.len() as int)),
    ensures dec == sig,
{
    ax_integer_ext(dec.e, sig.e);
    ax_integer_ext(dec.s, sig.s);
    ax_integer_ext(dec.v, sig.v);
}

/// what disclose_selectively establishes for every position (C13.disclose.hidden / C13.disclose.revealed are the verified postconditions)
pub open spec fn disclosed(b: Seq<Integer>, m: Seq<CL03Message>, sb: Seq<Integer>, sm: Seq<CL03Message>, hid: Seq<usize>, n: int) -> bool {
    &&& sb.len() == b.len() && sm.len() == m.len() && m.len() <= b.len() && m.len() <= usize::MAX
    &&& forall|x: usize| x < m.len() && (#[trigger] hid.contains(x)) ==> sb[x as int]@ == pow_mod(b[x as int]@, m[x as int].value@, n) && sm[x as int].value@ == 1
    &&& forall|x: usize| x < m.len() && !(#[trigger] hid.contains(x)) ==> sb[x as int] == b[x as int] && sm[x as int] == m[x as int]
}

/// selective disclosure does not change the attribute product ...
pub proof fn lemma_disclose_prod(b: Seq<Integer>, m: Seq<CL03Message>, sb: Seq<Integer>, sm: Seq<CL03Message>, hid: Seq<usize>, n: int, k: int)   //# C13.thm.disclose_prod
    requires n > 0, disclosed(b, m, sb, sm, hid, n), 0 <= k <= m.len(),
    ensures attr_prod(sb, sm, n, k) == attr_prod(b, m, n, k),
    decreases k,
{
    if k > 0 {
        lemma_disclose_prod(b, m, sb, sm, hid, n, k - 1);
        let x = (k - 1) as usize;
        if hid.contains(x) {
            let f = pow_mod(b[k - 1]@, m[k - 1].value@, n);
            ax_pow_mod_range(b[k - 1]@, m[k - 1].value@, n);
            ax_pow_mod_one(f, n);
            assert(f % n == f) by (nonlinear_arith) requires 0 <= f < n;
            assert(pow_mod(sb[k - 1]@, sm[k - 1].value@, n) == f);
        } else {
            assert(sb[x as int] == b[x as int] && sm[x as int] == m[x as int]);
        }
    }
}

/// ... hence the derived (bases, attributes) pair satisfies the verification equation exactly when the original pair does,
/// and it stays inside the attribute range (the constant 1 fits for lm >= 1): a signature that verifies on the full vector
/// verifies after selective disclosure, for every hidden set.
pub proof fn thm_C13_disclose(pk: CL03PublicKey, sig: CL03Signature, b: Seq<Integer>, m: Seq<CL03Message>, sb: Seq<Integer>, sm: Seq<CL03Message>, hid: Seq<usize>, lm: nat)   //# C13.thm.disclose_verifies
    requires pk.N@ > 0, disclosed(b, m, sb, sm, hid, pk.N@), lm >= 1,
    ensures
        cl_equation(pk, sig, sb, sm) == cl_equation(pk, sig, b, m),
        cl_attrs_in_range(m, lm) ==> cl_attrs_in_range(sm, lm),
{
    lemma_disclose_prod(b, m, sb, sm, hid, pk.N@, m.len() as int);
    if cl_attrs_in_range(m, lm) {
        assert(ipow(2, lm) >= 2) by { reveal_with_fuel(ipow, 2); lemma_ipow2_mono(1, lm); }
        assert forall|i: int| 0 <= i < sm.len() implies 0 <= (#[trigger] sm[i]).value@ && sm[i].value@ < ipow(2, lm) by {
            let x = i as usize;
            if hid.contains(x) { } else { assert(sm[x as int] == m[x as int]); assert(0 <= m[i].value@); }
        }
    }
}
