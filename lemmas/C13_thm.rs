// C13 — CL03 signatures: issued ones verify.

/// If (e, s, v) satisfies the postconditions of sign_multiattr for a well-formed key, the verification
/// equation and the range of e hold, hence (C13.verify_multiattr.accepts_valid) verification returns true.
pub proof fn thm_C13_complete(pk: CL03PublicKey, p: int, q: int, a: Seq<Integer>, m: Seq<CL03Message>, sig: CL03Signature, le: nat)   //# C13.thm.complete
    requires
        pk.N@ == p * q, is_prime(p), is_prime(q), p != q, pk.N@ > 1,
        cl_e_in_range(sig.e@, le),
        invertible(sig.e@, (p - 1) * (q - 1)),
        // the signed base prod a_i^{m_i} * b^s * c is a unit modulo N (all bases are quadratic residues coprime to N)
        igcd(attr_prod(a, m, pk.N@, m.len() as int) * pow_mod(pk.b@, sig.s@, pk.N@) * pk.c@, pk.N@) == 1,
        sig.v@ == pow_mod(attr_prod(a, m, pk.N@, m.len() as int) * pow_mod(pk.b@, sig.s@, pk.N@) * pk.c@, inv_mod(sig.e@, (p - 1) * (q - 1)), pk.N@),
    ensures
        cl_equation(pk, sig, a, m),
        cl_e_in_range(sig.e@, le),
{
    let base = attr_prod(a, m, pk.N@, m.len() as int) * pow_mod(pk.b@, sig.s@, pk.N@) * pk.c@;
    ax_euler_rsa(base, sig.e@, p, q);
}


/// byte codec round trip: what from_bytes decodes from to_bytes(sig) is sig (C13.codec.sig_* are the verified postconditions of both)
pub proof fn thm_C13_codec_roundtrip(sig: CL03Signature, bytes: Seq<u8>, dec: CL03Signature, le: int, ls: int)   //# C13.thm.codec_roundtrip
    requires
        bytes.len() >= le + ls, 0 <= le, 0 <= ls,
        from_digits_be(bytes.subrange(0, le)) == sig.e@, from_digits_be(bytes.subrange(le, le + ls)) == sig.s@, from_digits_be(bytes.subrange(le + ls, bytes.len() as int)) == sig.v@,
        dec.e@ == from_digits_be(bytes.subrange(0, le)), dec.s@ == from_digits_be(bytes.subrange(le, le + ls)), dec.v@ == from_digits_be(bytes.subrange(le + ls, bytes.len() as int)),
    ensures dec == sig,
{
    ax_integer_ext(dec.e, sig.e);
    ax_integer_ext(dec.s, sig.s);
    ax_integer_ext(dec.v, sig.v);
}
