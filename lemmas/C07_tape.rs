// C07 — linearity of the ghost CSPRNG tape: what the contracts (C07.*.advances, C07.*.fresh,
// C03.finalize.spec, C05.commit.spec) give when put together.

/// absolute tape index of the k-th cell after the cursor
pub open spec fn cidx(t: RngTape, k: int) -> int { t.pos + k }

/// two consecutive draws read disjoint cell intervals: call 1 reads [pos, pos+n), call 2 reads [pos+n, pos+n+m)
pub proof fn thm_C07_disjoint_windows(t0: RngTape, t1: RngTape, n: nat, m: nat)   //# C07.thm.disjoint
    requires t0.advanced(t1, n),
    ensures
        forall|i: int, j: int| 0 <= i < n && 0 <= j < m ==> #[trigger] cidx(t0, i) != #[trigger] cidx(t1, j),
        forall|j: int| 0 <= j < m ==> #[trigger] t1.window(m)[j] == t0.cells[t0.pos + n + j],
{
}

/// within one proof transcript the roles r1, r2, e~, r1~, r3~, m~_1..m~_U are pairwise distinct tape cells
pub proof fn thm_C07_roles_distinct(t: RngTape, u: nat)   //# C07.thm.roles
    ensures
        forall|a: int, b: int| 0 <= a < b < 5 + u ==> #[trigger] cidx(t, a) != #[trigger] cidx(t, b),
        forall|k: int| 0 <= k < 5 + u ==> #[trigger] t.window(5 + u)[k] == t.cells[t.pos + k],
{
}

/// the responses are one-time pads of the secrets: the party who knows the witness recomputes exactly the
/// tape cells  e~ = e^ - e*c,  m~_j = m^_j - m_j*c  (so a response never equals e or m_j unless the cell is e*c-shifted)
pub proof fn thm_C07_witness_recomputes(p: BBSplusPoKSignature, init: ProofInitResult, c: Scalar, e: Scalar, rs: Seq<Scalar>, und_m: Seq<Scalar>)   //# C07.thm.pads
    requires proof_finalize_rel(p, init, c, e, rs, und_m),
    ensures
        s_sub(p.e_cap, s_mul(e, c)) == rs[2],
        forall|j: int| 0 <= j < und_m.len() ==> s_sub(#[trigger] p.m_cap@[j], s_mul(und_m[j], c)) == rs[5 + j],
{
    lemma_s_add_sub(rs[2], s_mul(e, c));
    assert forall|j: int| 0 <= j < und_m.len() implies s_sub(#[trigger] p.m_cap@[j], s_mul(und_m[j], c)) == rs[5 + j] by {
        lemma_s_add_sub(rs[5 + j], s_mul(und_m[j], c));
    }
}

pub proof fn lemma_s_add_sub(a: Scalar, b: Scalar)
    ensures s_sub(s_add(a, b), b) == a,
{
    ax_s_add_assoc(a, b, s_neg(b));
    ax_s_add_neg(b);
    ax_s_add_zero(a);
}

/// commitment: s~ = s^ - blind*c and m~_i = m^_i - m_i*c are the tape cells 1 and 2+i; secret_prover_blind is cell 0
pub proof fn thm_C07_commit_pads<CS: BbsCiphersuite>(out: BBSplusCommitment, blind: Scalar, gens: Seq<G1Projective>, cm: Seq<Scalar>, api_id: Seq<u8>, rs: Seq<Scalar>)   //# C07.thm.commit_pads
    requires core_commit_rel::<CS>(out, blind, gens, cm, api_id, rs),
    ensures
        blind == rs[0],
        s_sub(out.proof.s_cap, s_mul(rs[0], out.proof.challenge)) == rs[1],
        forall|j: int| 0 <= j < cm.len() ==> s_sub(#[trigger] out.proof.m_cap@[j], s_mul(cm[j], out.proof.challenge)) == rs[2 + j],
{
    let c = out.proof.challenge;
    lemma_s_add_sub(rs[1], s_mul(rs[0], c));
    assert forall|j: int| 0 <= j < cm.len() implies s_sub(#[trigger] out.proof.m_cap@[j], s_mul(cm[j], c)) == rs[2 + j] by {
        lemma_s_add_sub(rs[2 + j], s_mul(cm[j], c));
    }
}
