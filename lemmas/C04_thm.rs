// C04 — the Fiat-Shamir challenge input determines the whole statement (deductive half of soundness; the
// extraction / unforgeability argument itself is computational and not proved).

pub proof fn lemma_disclosed_octets_len(idx: Seq<usize>, m: Seq<Scalar>, n: int)   //# C04.thm.disclosed_len
    requires n >= 0,
    ensures disclosed_octets(idx, m, n).len() == 40 * n,
    decreases n,
{
    broadcast use ax_sc_len;
    if n > 0 {
        lemma_disclosed_octets_len(idx, m, n - 1);
        lemma_i2osp_len(idx[n - 1] as nat, 8);
    }
}

pub proof fn lemma_disclosed_octets_inj(idx: Seq<usize>, m: Seq<Scalar>, idx2: Seq<usize>, m2: Seq<Scalar>, n: int)   //# C04.thm.disclosed_inj
    requires n >= 0, disclosed_octets(idx, m, n) == disclosed_octets(idx2, m2, n),
    ensures forall|t: int| 0 <= t < n ==> idx[t] == idx2[t] && m[t] == m2[t],
    decreases n,
{
    broadcast use ax_sc_len;
    if n > 0 {
        lemma_pow256_8();
        lemma_disclosed_octets_len(idx, m, n - 1);
        lemma_disclosed_octets_len(idx2, m2, n - 1);
        lemma_i2osp_len(idx[n - 1] as nat, 8);
        lemma_i2osp_len(idx2[n - 1] as nat, 8);
        let a = disclosed_octets(idx, m, n - 1) + i2osp_spec(idx[n - 1] as nat, 8);
        let a2 = disclosed_octets(idx2, m2, n - 1) + i2osp_spec(idx2[n - 1] as nat, 8);
        lemma_concat_split(a, sc_enc(m[n - 1]), a2, sc_enc(m2[n - 1]));
        lemma_concat_split(disclosed_octets(idx, m, n - 1), i2osp_spec(idx[n - 1] as nat, 8), disclosed_octets(idx2, m2, n - 1), i2osp_spec(idx2[n - 1] as nat, 8));
        lemma_sc_enc_inj(m[n - 1], m2[n - 1]);
        lemma_i2osp_inj(idx[n - 1] as nat, idx2[n - 1] as nat, 8);
        lemma_disclosed_octets_inj(idx, m, idx2, m2, n - 1);
    }
}

/// equal challenge inputs ==> same R, same (index, message) pairs in the same order, same Abar, Bbar, D, T1, T2, domain, ph
pub proof fn thm_challenge_input_inj(idx: Seq<usize>, m: Seq<Scalar>, abar: G1Projective, bbar: G1Projective, d: G1Projective,
    t1: G1Projective, t2: G1Projective, domain: Scalar, ph: Seq<u8>,
    idx2: Seq<usize>, m2: Seq<Scalar>, abar2: G1Projective, bbar2: G1Projective, d2: G1Projective,
    t12: G1Projective, t22: G1Projective, domain2: Scalar, ph2: Seq<u8>)   //# C04.thm.challenge_inj
    requires
        idx.len() <= usize::MAX, idx2.len() <= usize::MAX, ph.len() <= usize::MAX, ph2.len() <= usize::MAX,
        challenge_input(idx, m, abar, bbar, d, t1, t2, domain, ph) == challenge_input(idx2, m2, abar2, bbar2, d2, t12, t22, domain2, ph2),
    ensures
        idx.len() == idx2.len(),
        forall|t: int| 0 <= t < idx.len() ==> idx[t] == idx2[t] && m[t] == m2[t],
        abar == abar2, bbar == bbar2, d == d2, t1 == t12, t2 == t22, domain == domain2, ph == ph2,
{
    broadcast use ax_g1_len, ax_sc_len;
    lemma_pow256_8();
    let x = challenge_input(idx, m, abar, bbar, d, t1, t2, domain, ph);
    let y = challenge_input(idx2, m2, abar2, bbar2, d2, t12, t22, domain2, ph2);
    let r = idx.len() as int;
    let r2 = idx2.len() as int;
    lemma_i2osp_len(idx.len(), 8);
    lemma_i2osp_len(idx2.len(), 8);
    lemma_i2osp_len(ph.len(), 8);
    lemma_i2osp_len(ph2.len(), 8);
    lemma_disclosed_octets_len(idx, m, r);
    lemma_disclosed_octets_len(idx2, m2, r2);
    assert(i2osp_spec(idx.len(), 8) =~= x.subrange(0, 8));
    assert(i2osp_spec(idx2.len(), 8) =~= y.subrange(0, 8));
    lemma_i2osp_inj(idx.len(), idx2.len(), 8);
    let o = 8 + 40 * r;
    assert(disclosed_octets(idx, m, r) =~= x.subrange(8, o));
    assert(disclosed_octets(idx2, m2, r) =~= y.subrange(8, o));
    lemma_disclosed_octets_inj(idx, m, idx2, m2, r);
    assert(g1_enc(abar) =~= x.subrange(o, o + 48));
    assert(g1_enc(abar2) =~= y.subrange(o, o + 48));
    lemma_g1_enc_inj(abar, abar2);
    assert(g1_enc(bbar) =~= x.subrange(o + 48, o + 96));
    assert(g1_enc(bbar2) =~= y.subrange(o + 48, o + 96));
    lemma_g1_enc_inj(bbar, bbar2);
    assert(g1_enc(d) =~= x.subrange(o + 96, o + 144));
    assert(g1_enc(d2) =~= y.subrange(o + 96, o + 144));
    lemma_g1_enc_inj(d, d2);
    assert(g1_enc(t1) =~= x.subrange(o + 144, o + 192));
    assert(g1_enc(t12) =~= y.subrange(o + 144, o + 192));
    lemma_g1_enc_inj(t1, t12);
    assert(g1_enc(t2) =~= x.subrange(o + 192, o + 240));
    assert(g1_enc(t22) =~= y.subrange(o + 192, o + 240));
    lemma_g1_enc_inj(t2, t22);
    assert(sc_enc(domain) =~= x.subrange(o + 240, o + 272));
    assert(sc_enc(domain2) =~= y.subrange(o + 240, o + 272));
    lemma_sc_enc_inj(domain, domain2);
    assert(i2osp_spec(ph.len(), 8) =~= x.subrange(o + 272, o + 280));
    assert(i2osp_spec(ph2.len(), 8) =~= y.subrange(o + 272, o + 280));
    lemma_i2osp_inj(ph.len(), ph2.len(), 8);
    assert(ph =~= x.subrange(o + 280, x.len() as int));
    assert(ph2 =~= y.subrange(o + 280, y.len() as int));
}

/// the proof's pairing equation determines Bbar from (Abar, PK):  Bbar == Abar * SK
pub proof fn thm_proof_pairing(sk: Scalar, abar: G1Projective, bbar: G1Projective)   //# C04.thm.pairing
    ensures (gt_mul(pair(abar, g2_mul(g2_gen(), sk)), pair(bbar, g2_neg(g2_gen()))) == gt_one()) <==> bbar == g1_mul(abar, sk),
{
    ax_pair_move(abar, sk);
    ax_pair_eq(g1_mul(abar, sk), bbar);
}

/// the F1 family (Abar = Bbar = identity) satisfies the pairing equation for EVERY key - which is why the non-identity
/// checks of proof_verify_spec are part of the predicate and a proof that passes them cannot be of this family
pub proof fn thm_identity_family_excluded<CS: BbsCiphersuite>(pk: G2Projective, p: BBSplusPoKSignature, p1: G1Projective, gens: Seq<G1Projective>,
    header: Seq<u8>, ph: Seq<u8>, dm: Seq<Scalar>, di: Seq<usize>, api_id: Seq<u8>)   //# C04.thm.identity_excluded
    requires p.Abar == g1_zero() || p.Bbar == g1_zero() || p.D == g1_zero(),
    ensures !proof_verify_spec::<CS>(pk, p, p1, gens, header, ph, dm, di, api_id),
{
}
