// C06 — deductive half of blind soundness: the blind challenge input determines (M, all blind generators, C, Cbar);
// a commitment proof accepted for C fixes Cbar; the blind generators live under a different api id than the signer's.

pub proof fn thm_blind_challenge_input_inj(c: G1Projective, cbar: G1Projective, gens: Seq<G1Projective>,
    c2: G1Projective, cbar2: G1Projective, gens2: Seq<G1Projective>)   //# C06.thm.blind_challenge_inj
    requires
        1 <= gens.len() <= usize::MAX, 1 <= gens2.len() <= usize::MAX,
        blind_challenge_input(c, cbar, gens) == blind_challenge_input(c2, cbar2, gens2),
    ensures gens == gens2, c == c2, cbar == cbar2,
{
    broadcast use ax_g1_len;
    lemma_pow256_8();
    let x = blind_challenge_input(c, cbar, gens);
    let y = blind_challenge_input(c2, cbar2, gens2);
    lemma_i2osp_len((gens.len() - 1) as nat, 8);
    lemma_i2osp_len((gens2.len() - 1) as nat, 8);
    lemma_enc_points_len(gens);
    lemma_enc_points_len(gens2);
    assert(i2osp_spec((gens.len() - 1) as nat, 8) =~= x.subrange(0, 8));
    assert(i2osp_spec((gens2.len() - 1) as nat, 8) =~= y.subrange(0, 8));
    lemma_i2osp_inj((gens.len() - 1) as nat, (gens2.len() - 1) as nat, 8);
    let o = (8 + 48 * gens.len()) as int;
    assert(enc_points(gens) =~= x.subrange(8, o));
    assert(enc_points(gens2) =~= y.subrange(8, o));
    lemma_enc_points_inj(gens, gens2);
    assert(g1_enc(c) =~= x.subrange(o, o + 48));
    assert(g1_enc(c2) =~= y.subrange(o, o + 48));
    lemma_g1_enc_inj(c, c2);
    assert(g1_enc(cbar) =~= x.subrange(o + 48, o + 96));
    assert(g1_enc(cbar2) =~= y.subrange(o + 48, o + 96));
    lemma_g1_enc_inj(cbar, cbar2);
}

/// the blind api id differs from the api id it is derived from (different length), so blind generators, blind
/// challenges and signer-side values are domain-separated
pub proof fn thm_blind_api_differs(api_id: Seq<u8>)   //# C06.thm.blind_api_differs
    ensures blind_api(api_id) != api_id, blind_api(api_id).len() == api_id.len() + 6,
{
}

/// a commitment with no proof octets is only accepted as "no commitment": the identity (label C05.validate.empty_is_identity)
/// and the signature then verifies only with blind = 0 over zero committed messages; with any other committed vector the
/// verifier's B differs by sum J_i*cm_i + Q2*blind
pub proof fn thm_blind_b_differs(p1: G1Projective, q: G1Projective, h: Seq<G1Projective>, ms: Seq<Scalar>, q2: G1Projective, blind: Scalar, j: Seq<G1Projective>, cms: Seq<Scalar>)   //# C06.thm.b_offset
    requires h.len() == ms.len(), j.len() == cms.len(),
    ensures
        b_fold(g1_add(p1, q), h + (seq![q2] + j), ms + (seq![blind] + cms), (h.len() + 1 + j.len()) as int)
            == g1_add(g1_add(b_fold(p1, h, ms, h.len() as int), q), b_fold(g1_mul(q2, blind), j, cms, j.len() as int)),
{
    lemma_blind_b(p1, q, h, ms, q2, blind, j, cms);
    let yy = b_fold(p1, h, ms, h.len() as int);
    let c = b_fold(g1_mul(q2, blind), j, cms, j.len() as int);
    ax_g1_add_assoc(yy, c, q);
    ax_g1_add_comm(c, q);
    ax_g1_add_assoc(yy, q, c);
}
